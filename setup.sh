#!/bin/sh
# Offline set-up: put icontract (+deal, jsonschema) beside the repository's interpreter, in a
# git-ignored directory under /verif.  Idempotent.  The checks call this themselves when .deps is absent.
set -e
here="$(cd "$(dirname "$0")" && pwd)"
if [ ! -d "$here/.deps/icontract" ] || [ ! -d "$here/.deps/jsonschema" ]; then
  PIP_NO_INDEX=1 /venv/bin/python -m pip install --quiet --no-index --find-links /opt/veriftools/wheels \
      --target "$here/.deps" icontract deal jsonschema >/dev/null 2>&1 || \
  PIP_NO_INDEX=1 /venv/bin/python -m pip install --no-index --find-links /opt/veriftools/wheels \
      --target "$here/.deps" icontract deal jsonschema
fi
/venv/bin/python -c "import sys; sys.path.append('$here/.deps'); import icontract, jsonschema; print('setup ok: icontract', icontract.__version__)"
