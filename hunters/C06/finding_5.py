"""C06 finding 5: generated-module names embed the text of float (or dotted string) parameters, e.g. `G(x=1.5)`.
VLSIR module names are dot-separated paths, so everything up to the last `.` - which here is *inside the parameter
value* - is taken as the path: the netlisters call the module `5_`, and reject a package holding `G(x=1.5)` and
`G(x=2.5)` ("Module 5_ doubly defined"); from_proto files the module as `5)` under a namespace `G(x=1`."""
import os, sys; sys.path.insert(0, os.getcwd())
import io
import hdl21 as h
import vlsirtools

@h.paramclass
class P:
    x = h.Param(dtype=float, desc="a float parameter")

@h.generator
def G(p: P) -> h.Module:
    m = h.Module()
    m.a = h.Port()
    return m

top = h.Module(name="Top")
top.s = h.Signal()
top.i1 = G(x=1.5)(a=top.s)
top.i2 = G(x=2.5)(a=top.s)
pkg = h.to_proto(top)
names = [m.name for m in pkg.modules]

problems = []
for fmt in ("spice", "spectre"):
    try:
        vlsirtools.netlist(pkg=pkg, dest=io.StringIO(), fmt=fmt)
    except Exception as e:
        problems.append(f"{fmt} netlister rejects the package with modules {names}: {e}")

# A single such module is accepted, under a mangled name
dest = io.StringIO()
vlsirtools.netlist(pkg=h.to_proto(G(x=3.5)), dest=dest, fmt="spice")
if ".SUBCKT 5_" in dest.getvalue():
    problems.append("`G(x=3.5)` alone is netlisted as `.SUBCKT 5_`")
ns = h.from_proto(h.to_proto(G(x=3.5)))
main = getattr(ns, "__main__")
if not hasattr(main, "G(x=3.5)"):
    problems.append(f"from_proto files `G(x=3.5)` as {[k for k in vars(main) if k != 'name']} (name `5)` in a namespace)")

if problems:
    print("VIOLATION of C06 ('the vlsirtools spice and spectre netlisters accept it'):")
    for p in problems:
        print("  -", p)
    sys.exit(1)
print("ok")
