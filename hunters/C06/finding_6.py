"""C06 finding 6: ideal sources whose (all optional, default None) parameters are left unset export without the
parameters `vlsir.primitives` requires; both netlisters reject the package. `h.Vpulse()` / `h.Vsin()` with any
parameter omitted is enough, e.g. a pulse source without an explicit `delay`."""
import os, sys; sys.path.insert(0, os.getcwd())
import io
import hdl21 as h
import vlsirtools

problems = []
cases = {
    "Vpulse(no delay)": h.Vpulse(v1=0, v2=1, rise=1e-9, fall=1e-9, width=1e-6, period=2e-6),
    "Vpulse()": h.Vpulse(),
    "Vsin(no phase)": h.Vsin(voff=0, vamp=1, freq=1e6, td=0),
}
for k, (label, call) in enumerate(cases.items()):
    m = h.Module(name=f"Tb{k}")
    m.VSS = h.Port()
    m.x = h.Signal()
    m.v = call(p=m.x, n=m.VSS)
    pkg = h.to_proto(m)  # succeeds
    for fmt in ("spice", "spectre"):
        try:
            vlsirtools.netlist(pkg=pkg, dest=io.StringIO(), fmt=fmt)
        except Exception as e:
            problems.append(f"{label}: {fmt} netlister rejects: {str(e).splitlines()[0][:80]}")

if problems:
    print("VIOLATION of C06 ('the vlsirtools spice and spectre netlisters accept it'):")
    for p in problems:
        print("  -", p)
    sys.exit(1)
print("ok")
