"""C06 finding 1: one Signal / Instance object held under two names is exported twice under ONE name.
`a = b = h.Signal()` (Python chain assignment) is all it takes."""
import os, sys; sys.path.insert(0, os.getcwd())
import io
import hdl21 as h
import vlsirtools

problems = []

# (a) class-body chain assignment of signals and ports
@h.module
class M:
    a = b = h.Signal()
    VDD = VSS = h.Port()

pkg = h.to_proto(M)
pm = pkg.modules[-1]
signames = [s.name for s in pm.signals]
portnames = [p.signal for p in pm.ports]
if len(set(signames)) != len(signames):
    problems.append(f"module {pm.name}: signal names not unique: {signames}")
if len(set(portnames)) != len(portnames):
    problems.append(f"module {pm.name}: port names not unique: {portnames}")
for fmt in ("spice", "spectre"):
    try:
        vlsirtools.netlist(pkg=pkg, dest=io.StringIO(), fmt=fmt)
    except Exception as e:
        problems.append(f"{fmt} netlister rejects the package: {e}")

# (b) the same for an Instance
C = h.Module(name="C")
T = h.Module(name="T")
T.i1 = T.i2 = C()
pkg = h.to_proto(T)
inames = [i.name for i in pkg.modules[-1].instances]
if len(set(inames)) != len(inames):
    problems.append(f"module {pkg.modules[-1].name}: instance names not unique: {inames}")

# (c) the exporter writes each object's `name` field, not the key it is stored under
R = h.Module(name="R")
R.a = h.Signal()
R.b = h.Signal()
R.b.name = "a"
names = [s.name for s in h.to_proto(R).modules[-1].signals]
if len(set(names)) != len(names):
    problems.append(f"module __main__.R (after `R.b.name = 'a'`): signal names not unique: {names}")

if problems:
    print("VIOLATION of C06 ('within a module, signal, port and instance names are unique'):")
    for p in problems:
        print("  -", p)
    sys.exit(1)
print("ok")
