"""C06 finding 2: two distinct `ExternalModule` objects with equal (domain, name) are both declared in the package.
Happens with the shipped PDKs: `sky130_hdl21.compile` maps `h.Mos` to the ExternalModules of its `xtors` dict, while
`sky130_hdl21.primitives.NMOS_1p8V_STD` is a *different* ExternalModule object of the same name. A design using both
(a compiled generic Mos + a directly instantiated PDK device) exports `sky130_fd_pr__nfet_01v8` twice.
from_proto and both netlisters reject the package."""
import os, sys; sys.path.insert(0, os.getcwd())
for p in ("Sky130", "Gf180", "Asap7"):
    sys.path.insert(0, os.path.join(os.getcwd(), "pdks", p))
import io
import hdl21 as h
import vlsirtools

problems = []

def examine(pkg, label):
    keys = [(e.name.domain, e.name.name) for e in pkg.ext_modules]
    if len(set(keys)) != len(keys):
        problems.append(f"{label}: external modules declared more than once: {keys}")
    try:
        h.from_proto(pkg)
    except Exception as e:
        problems.append(f"{label}: from_proto rejects: {str(e).splitlines()[0][:120]}")
    for fmt in ("spice", "spectre"):
        try:
            vlsirtools.netlist(pkg=pkg, dest=io.StringIO(), fmt=fmt)
        except Exception as e:
            problems.append(f"{label}: {fmt} netlister rejects: {str(e).splitlines()[0][:120]}")

# (a) PDK flavour
import sky130_hdl21 as s

@h.module
class Mixed:
    d, g, vss = h.Signals(3)
    generic = h.Mos(tp=h.MosType.NMOS, family=h.MosFamily.CORE, vth=h.MosVth.STD)(d=d, g=g, s=vss, b=vss)
    direct = s.primitives.NMOS_1p8V_STD(s.Sky130MosParams())(d=d, g=g, s=vss, b=vss)

s.compile(Mixed)
examine(h.to_proto(Mixed), "sky130 compiled + direct device")

# (b) plain flavour, with two *different* definitions under one name
e1 = h.ExternalModule(name="E", port_list=[h.Port(name="a")])
e2 = h.ExternalModule(name="E", port_list=[h.Port(name="a"), h.Port(name="b")])
m = h.Module(name="M")
m.s = h.Signal()
m.i1 = e1()(a=m.s)
m.i2 = e2()(a=m.s, b=m.s)
examine(h.to_proto(m), "two ExternalModules named E")

if problems:
    print("VIOLATION of C06 ('module names are unique', 'from_proto and the netlisters accept it'):")
    for p in problems:
        print("  -", p)
    sys.exit(1)
print("ok")
