"""C06 finding 8: from_proto rejects packages whose module path has a segment called `name`
(e.g. Modules defined in a Python module / package `name`): the importer keeps the package domain in the `name`
attribute of every namespace it builds, and then finds that attribute "in the way" of the namespace path.
Also: a Module named like a path prefix of another (`Inv` and `Inv.core`)."""
import os, sys; sys.path.insert(0, os.getcwd())
import tempfile, importlib
import hdl21 as h

problems = []
d = tempfile.mkdtemp()
with open(os.path.join(d, "name.py"), "w") as f:
    f.write("import hdl21 as h\n@h.module\nclass Inv:\n    i = h.Input()\n    o = h.Output()\n")
sys.path.insert(0, d)
mod = importlib.import_module("name")
pkg = h.to_proto(mod.Inv)
try:
    h.from_proto(pkg)
except Exception as e:
    problems.append(f"package with module {pkg.modules[0].name!r}: from_proto rejects: {e}")

a = h.Module(name="Inv"); a.p = h.Port()
b = h.Module(name="Inv.core"); b.p = h.Port()
t = h.Module(name="T"); t.s = h.Signal(); t.i = a(p=t.s); t.j = b(p=t.s)
pkg = h.to_proto(t)
try:
    h.from_proto(pkg)
except Exception as e:
    problems.append(f"package with modules {[m.name for m in pkg.modules]}: from_proto rejects: {e}")

if problems:
    print("VIOLATION of C06 ('from_proto ... accept it'):")
    for p in problems:
        print("  -", p)
    sys.exit(1)
print("ok")
