"""C06 finding 9: `ExternalModule` accepts a port list with repeated port names; the exported declaration then has
two signals and two ports of one name, and an instance cannot 'connect each of that target's ports exactly once'
(its single connection `a` stands for both)."""
import os, sys; sys.path.insert(0, os.getcwd())
import hdl21 as h

e = h.ExternalModule(name="E", port_list=[h.Port(name="a"), h.Port(name="a", width=2)])
m = h.Module(name="M")
m.s = h.Signal(width=2)
m.i = e()(a=m.s)
pkg = h.to_proto(m)
decl = pkg.ext_modules[0]
sigs = [(s.name, s.width) for s in decl.signals]
ports = [p.signal for p in decl.ports]
conns = [c.portname for c in pkg.modules[0].instances[0].connections]
if len(set(ports)) != len(ports):
    print("VIOLATION of C06 (unique signal / port names; each port connected exactly once):")
    print(f"  - external module E declares signals {sigs} and ports {ports}; the instance connects {conns}")
    sys.exit(1)
print("ok")
