"""C06 finding 10 (possibly intended, reported for completeness): to_proto succeeds for designs holding uncompiled
*physical* primitives (`h.Mos`, `h.PhysicalResistor`, ...) - they are exported as references into an
`hdl21.primitives` domain, a 'known primitive' for from_proto - but neither netlister accepts such a package."""
import os, sys; sys.path.insert(0, os.getcwd())
import io
import hdl21 as h
import vlsirtools

m = h.Module(name="M")
m.d, m.g, m.s = h.Signals(3)
m.mos = h.Mos()(d=m.d, g=m.g, s=m.s, b=m.s)
pkg = h.to_proto(m)
h.from_proto(pkg)
problems = []
for fmt in ("spice", "spectre"):
    try:
        vlsirtools.netlist(pkg=pkg, dest=io.StringIO(), fmt=fmt)
    except Exception as e:
        problems.append(f"{fmt} netlister rejects: {e}")
if problems:
    print("VIOLATION of C06 ('the vlsirtools spice and spectre netlisters accept it'):")
    for p in problems:
        print("  -", p)
    sys.exit(1)
print("ok")
