"""Package well-formedness checker for property C06 (scratch helper)."""
import io
import vlsir.circuit_pb2 as vckt
import vlsirtools
from vlsirtools import primitives as vprims


def _tw(t, sigs, errs, ctx):
    """width of a connection target; records errors"""
    k = t.WhichOneof("stype")
    if k == "sig":
        if t.sig not in sigs:
            errs.append(f"{ctx}: target names undeclared signal {t.sig!r}")
            return None
        return sigs[t.sig]
    if k == "slice":
        s = t.slice
        if s.signal not in sigs:
            errs.append(f"{ctx}: slice of undeclared signal {s.signal!r}")
            return None
        w = sigs[s.signal]
        if not (0 <= s.bot <= s.top < w):
            errs.append(f"{ctx}: slice [{s.top}:{s.bot}] outside width {w} of {s.signal}")
        return s.top - s.bot + 1
    if k == "concat":
        tot = 0
        if not len(t.concat.parts):
            errs.append(f"{ctx}: empty concat")
        for p in t.concat.parts:
            w = _tw(p, sigs, errs, ctx)
            if w is None:
                return None
            tot += w
        return tot
    errs.append(f"{ctx}: empty connection target")
    return None


def check(pkg, netlist=True, roundtrip=True):
    errs = []
    names = [m.name for m in pkg.modules]
    if len(set(names)) != len(names):
        errs.append(f"duplicate module names {sorted(n for n in names if names.count(n)>1)}")
    ekeys = [(e.name.domain, e.name.name) for e in pkg.ext_modules]
    if len(set(ekeys)) != len(ekeys):
        errs.append(f"duplicate ext module names {ekeys}")
    for n in names:
        if not n:
            errs.append("empty module name")
    emods = {}
    for e in pkg.ext_modules:
        emods[(e.name.domain, e.name.name)] = e
        sn = [s.name for s in e.signals]
        if len(set(sn)) != len(sn):
            errs.append(f"extmodule {e.name.name}: duplicate signals {sn}")
        pn = [p.signal for p in e.ports]
        if len(set(pn)) != len(pn):
            errs.append(f"extmodule {e.name.name}: duplicate ports {pn}")
        for p in pn:
            if p not in sn:
                errs.append(f"extmodule {e.name.name}: port {p} undeclared")
        for s in e.signals:
            if s.width < 1:
                errs.append(f"extmodule {e.name.name}: signal {s.name} width {s.width}")
    seen = {}
    for m in pkg.modules:
        sn = [s.name for s in m.signals]
        if len(set(sn)) != len(sn):
            errs.append(f"module {m.name}: duplicate signal names {sorted(n for n in set(sn) if sn.count(n)>1)}")
        sigs = {s.name: s.width for s in m.signals}
        for s in m.signals:
            if s.width < 1:
                errs.append(f"module {m.name}: signal {s.name} width {s.width}")
            if not s.name:
                errs.append(f"module {m.name}: empty signal name")
        pn = [p.signal for p in m.ports]
        if len(set(pn)) != len(pn):
            errs.append(f"module {m.name}: duplicate port names {pn}")
        for p in pn:
            if p not in sigs:
                errs.append(f"module {m.name}: port {p!r} names undeclared signal")
        inn = [i.name for i in m.instances]
        if len(set(inn)) != len(inn):
            errs.append(f"module {m.name}: duplicate instance names {sorted(n for n in set(inn) if inn.count(n)>1)}")
        for i in m.instances:
            ctx = f"module {m.name} inst {i.name}"
            if not i.name:
                errs.append(f"{ctx}: empty instance name")
            which = i.module.WhichOneof("to")
            tports = None
            if which == "local":
                if i.module.local not in seen:
                    if i.module.local in names:
                        errs.append(f"{ctx}: refers to module {i.module.local} defined LATER / itself")
                    else:
                        errs.append(f"{ctx}: refers to undefined module {i.module.local}")
                else:
                    t = seen[i.module.local]
                    tw = {s.name: s.width for s in t.signals}
                    tports = {p.signal: tw.get(p.signal) for p in t.ports}
            elif which == "external":
                d, n = i.module.external.domain, i.module.external.name
                if d == "vlsir.primitives":
                    t = vprims.dct.get(n)
                    if t is None:
                        errs.append(f"{ctx}: unknown vlsir primitive {n}")
                    else:
                        tw = {s.name: s.width for s in t.signals}
                        tports = {p.signal: tw.get(p.signal) for p in t.ports}
                elif d == "hdl21.primitives":
                    import hdl21.primitives as hp
                    pr = getattr(hp, n, None)
                    if not isinstance(pr, hp.Primitive):
                        errs.append(f"{ctx}: unknown hdl21 primitive {n}")
                    else:
                        tports = {p.name: p.width for p in pr.port_list}
                else:
                    t = emods.get((d, n))
                    if t is None:
                        errs.append(f"{ctx}: undeclared external module {(d, n)}")
                    else:
                        tw = {s.name: s.width for s in t.signals}
                        tports = {p.signal: tw.get(p.signal) for p in t.ports}
            else:
                errs.append(f"{ctx}: no module reference")
            cn = [c.portname for c in i.connections]
            if len(set(cn)) != len(cn):
                errs.append(f"{ctx}: port connected more than once {cn}")
            if tports is not None:
                for p in tports:
                    if p not in cn:
                        errs.append(f"{ctx}: port {p} unconnected")
                for c in cn:
                    if c not in tports:
                        errs.append(f"{ctx}: connection to non-port {c}")
            for c in i.connections:
                w = _tw(c.target, sigs, errs, ctx + f" port {c.portname}")
                if tports is not None and c.portname in tports and w is not None:
                    if w != tports[c.portname]:
                        errs.append(f"{ctx}: port {c.portname} width {tports[c.portname]} fed by width {w}")
            pnm = [p.name for p in i.parameters]
            if len(set(pnm)) != len(pnm):
                errs.append(f"{ctx}: duplicate params {pnm}")
        seen[m.name] = m
    if roundtrip:
        import hdl21 as h
        try:
            ns = h.from_proto(pkg)
        except Exception as e:
            errs.append(f"from_proto rejects: {type(e).__name__}: {str(e)[:300]}")
    if netlist:
        for fmt in ("spice", "spectre"):
            try:
                dest = io.StringIO()
                vlsirtools.netlist(pkg=pkg, dest=dest, fmt=fmt)
            except Exception as e:
                errs.append(f"{fmt} netlister rejects: {type(e).__name__}: {str(e)[:300]}")
    return errs


def report(pkg, label="", **kw):
    errs = check(pkg, **kw)
    print(("VIOLATION " if errs else "ok ") + label)
    for e in errs:
        print("   -", e)
    return errs
