"""C06 finding 3: PDK compilation replaces an instance's target by an ExternalModule with a *different port list*
and leaves the connections alone. E.g. `h.Bipolar` has ports (c, b, e); sky130's NPN devices have (c, b, e, s).
The exported instance leaves port `s` unconnected. Likewise 2- vs 3-terminal resistors / capacitors, the 5-terminal
`NMOS_ISO_20p0V`, and the same in gf180."""
import os, sys; sys.path.insert(0, os.getcwd())
for p in ("Sky130", "Gf180", "Asap7"):
    sys.path.insert(0, os.path.join(os.getcwd(), "pdks", p))
import io
import hdl21 as h
import hdl21.primitives as hp
import vlsirtools

problems = []

def examine(pdk, prim, model, label):
    m = h.Module(name="T_" + label)
    conns = {p.name: m.add(h.Signal(name="n_" + p.name)) for p in prim.port_list}
    m.add(prim(model=model)(**conns), name="dut")
    pdk.compile(m)
    pkg = h.to_proto(m)
    inst = pkg.modules[-1].instances[0]
    key = (inst.module.external.domain, inst.module.external.name)
    decl = [e for e in pkg.ext_modules if (e.name.domain, e.name.name) == key][0]
    want = sorted(p.signal for p in decl.ports)
    have = sorted(c.portname for c in inst.connections)
    if want != have:
        problems.append(f"{label}: instance of {key[1]} connects {have}, target's ports are {want}")
    for fmt in ("spice", "spectre"):
        try:
            vlsirtools.netlist(pkg=pkg, dest=io.StringIO(), fmt=fmt)
        except Exception as e:
            problems.append(f"{label}: {fmt} netlister rejects: {str(e).splitlines()[0][:100]}")

import sky130_hdl21 as s
import gf180_hdl21 as g
examine(s, hp.Bipolar, "NPN_5p0V_1x2", "sky130_npn")
examine(s, hp.PhysicalResistor, "GEN_ND", "sky130_res_2_to_3_terminal")
examine(s, hp.ThreeTerminalResistor, "GEN_PO", "sky130_res_3_to_2_terminal")
examine(s, hp.Mos, "NMOS_ISO_20p0V", "sky130_iso_mos")
examine(g, hp.Bipolar, "NPN_10p0x10p0", "gf180_npn")
examine(g, hp.ThreeTerminalCapacitor, "MIM_1p5fF", "gf180_cap_3_to_2_terminal")

if problems:
    print("VIOLATION of C06 ('every instance ... connects each of that target's ports exactly once'), PDK-compiled designs:")
    for p in problems:
        print("  -", p)
    sys.exit(1)
print("ok")
