"""C06 finding 4: exported module names are unique only as *qualified* names; the vlsirtools netlisters keep the
last dot-separated segment (and replace unusual characters by `_`), and reject the package when two modules collapse.
(a) same-named Modules defined in two Python modules, (b) ExternalModules of one name in two domains,
(c) names differing in a character the netlisters sanitise."""
import os, sys; sys.path.insert(0, os.getcwd())
import io, tempfile, importlib
import hdl21 as h
import vlsirtools

problems = []

def examine(pkg, label):
    names = [m.name for m in pkg.modules] + [f"{e.name.domain}:{e.name.name}" for e in pkg.ext_modules]
    for fmt in ("spice", "spectre"):
        try:
            vlsirtools.netlist(pkg=pkg, dest=io.StringIO(), fmt=fmt)
        except Exception as e:
            problems.append(f"{label}: package with (unique) names {names}: {fmt} netlister rejects: {str(e).splitlines()[0][:90]}")

# (a) two python modules, each defining `Inv`
d = tempfile.mkdtemp()
for fn in ("c06_liba", "c06_libb"):
    with open(os.path.join(d, fn + ".py"), "w") as f:
        f.write("import hdl21 as h\n@h.module\nclass Inv:\n    i = h.Input()\n    o = h.Output()\n")
sys.path.insert(0, d)
liba = importlib.import_module("c06_liba")
libb = importlib.import_module("c06_libb")

@h.module
class Top:
    a, b, c = h.Signals(3)
    i1 = liba.Inv(i=a, o=b)
    i2 = libb.Inv(i=b, o=c)

examine(h.to_proto(Top), "(a) liba.Inv + libb.Inv")

# (b) external modules of one name in two domains
e1 = h.ExternalModule(name="E", domain="dom1", port_list=[h.Port(name="a")])
e2 = h.ExternalModule(name="E", domain="dom2", port_list=[h.Port(name="a")])
m = h.Module(name="M")
m.s = h.Signal()
m.i1 = e1()(a=m.s)
m.i2 = e2()(a=m.s)
examine(h.to_proto(m), "(b) dom1:E + dom2:E")

# (c) sanitised characters
m1 = h.Module(name="A-1"); m1.p = h.Port()
m2 = h.Module(name="A_1"); m2.p = h.Port()
t = h.Module(name="T"); t.s = h.Signal(); t.i1 = m1(p=t.s); t.i2 = m2(p=t.s)
examine(h.to_proto(t), "(c) A-1 + A_1")

if problems:
    print("VIOLATION of C06 ('the vlsirtools spice and spectre netlisters accept it'):")
    for p in problems:
        print("  -", p)
    sys.exit(1)
print("ok")
