"""C06 finding 7: edits the library does not guard corrupt modules which have already been elaborated (elaboration
results, including the orphanage and connection checks, are cached per module and never re-run).

(a) `other.y = A.x`  - adding a port object of the elaborated module `A` to *another* module renames A's port to `y`
    (Module.add / __setattr__ set `val.name`); parents of A still connect `x`. Before elaboration this very mistake is
    reported ("Orphanage"); afterwards it silently yields a package whose instance connects a non-existent port.
(b) `inst.of = Other` / `inst.name = ...` on an instance of an elaborated module: only `connect`/`disconnect`/`replace`
    are guarded (`_check_editable`), the `of` and `name` special-cases are not.
(c) `sig.width = n` / `sig.name = ...` on a Signal of an elaborated module."""
import os, sys; sys.path.insert(0, os.getcwd())
import io
import hdl21 as h
import vlsirtools

problems = []

def examine(pkg, label):
    """Check the instance / port clauses of C06 on a package of plain Modules"""
    mods = {}
    for pm in pkg.modules:
        inames = [i.name for i in pm.instances]
        if len(set(inames)) != len(inames):
            problems.append(f"{label}: {pm.name}: instance names not unique {inames}")
        widths = {s.name: s.width for s in pm.signals}
        for pi in pm.instances:
            tgt = mods[pi.module.local]
            tw = {s.name: s.width for s in tgt.signals}
            want = sorted(p.signal for p in tgt.ports)
            have = sorted(c.portname for c in pi.connections)
            if want != have:
                problems.append(f"{label}: {pm.name}.{pi.name} connects {have} but {tgt.name} has ports {want}")
            for c in pi.connections:
                if c.target.WhichOneof("stype") == "sig" and c.portname in tw:
                    if widths[c.target.sig] != tw[c.portname]:
                        problems.append(f"{label}: {pm.name}.{pi.name}.{c.portname}: width {widths[c.target.sig]} signal on width {tw[c.portname]} port")
        mods[pm.name] = pm
    try:
        h.from_proto(pkg)
    except Exception as e:
        problems.append(f"{label}: from_proto rejects: {str(e).splitlines()[0][:100]}")
    for fmt in ("spice", "spectre"):
        try:
            vlsirtools.netlist(pkg=pkg, dest=io.StringIO(), fmt=fmt)
        except Exception as e:
            problems.append(f"{label}: {fmt} netlister rejects: {str(e).splitlines()[0][:100]}")

# (a)
A = h.Module(name="A"); A.x = h.Port()
P = h.Module(name="P"); P.s = h.Signal(); P.i = A(x=P.s)
h.to_proto(P)  # fine
B = h.Module(name="B")
B.y = A.x  # the mistake the Orphanage pass exists for
h.to_proto(B)  # fine
examine(h.to_proto(P), "(a) port object re-used in another module")

# (b)
C1 = h.Module(name="C1"); C1.a = h.Port()
C2 = h.Module(name="C2"); C2.z = h.Port(width=3)
Q = h.Module(name="Q"); Q.s = h.Signal(); Q.i = C1(a=Q.s); Q.j = C1(a=Q.s)
h.to_proto(Q)
Q.i.of = C2
Q.j.name = "i"
examine(h.to_proto(Q), "(b) inst.of / inst.name after elaboration")

# (c)
D = h.Module(name="D"); D.a = h.Port(width=2)
R = h.Module(name="R"); R.s = h.Signal(width=2); R.i = D(a=R.s)
h.to_proto(R)
D.a.width = 5
examine(h.to_proto(R), "(c) port width after elaboration")

if problems:
    print("VIOLATION of C06 (connects each port exactly once / width of the port it feeds / unique names / importers accept):")
    for p in problems:
        print("  -", p)
    sys.exit(1)
print("ok")
