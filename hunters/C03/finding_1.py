"""
C03 finding 1: a Slice caches its resolved bounds the first time its width/bounds are read
(`Slice._inner`), and the cache is never invalidated.  Reading `sl.width` (or .top/.bot/.step)
and then editing the parent (Signal.width is a plain, freely assignable field, before AND after
elaboration; likewise the width of a child-module port behind a port reference) leaves the slice
pointing at stale bits:
  (a) the exported package names bit 7 of a 4-bit signal,
  (b) s[-1] of what is (at export time) an 8-bit signal selects bit 3 instead of bit 7,
  (c) s[4:8] of what is now a 4-bit signal (selects nothing -> must be rejected) is exported as the whole of `s`,
  (d) same via a port reference whose child port was narrowed: u_p[3:0] on a 2-bit u_p,
  (e) editing a signal of an already exported design re-exports a package naming a bit outside the signal.
Run with cwd = worktree root.
"""
import os, sys; sys.path.insert(0, os.getcwd())
import hdl21 as h

problems = []


def leaf(w, name):
    m = h.Module(name=name)
    m.p = h.Port(width=w)
    return m


def decode(pkg, instname, portname="p"):
    """bits of the connection, LSB first, as (signal, bit); also checks every named bit exists."""
    mod = pkg.modules[-1]
    widths = {s.name: s.width for s in mod.signals}
    inst = [i for i in mod.instances if i.name == instname][0]
    conn = [c for c in inst.connections if c.portname == portname][0]
    oob = []

    def dec(t):
        k = t.WhichOneof("stype")
        if k == "sig":
            return [(t.sig, b) for b in range(widths[t.sig])]
        if k == "slice":
            s = t.slice
            if not (0 <= s.bot <= s.top < widths[s.signal]):
                oob.append(f"{s.signal}[{s.top}:{s.bot}] but `{s.signal}` is {widths[s.signal]} bits wide")
            return [(s.signal, b) for b in range(s.bot, s.top + 1)]
        out = []
        for p in reversed(t.concat.parts):
            out.extend(dec(p))
        return out

    return dec(conn.target), oob


def scenario(tag, build, python_model):
    """build() -> (module, instname). python_model: expected bits or None for `must be rejected`."""
    try:
        m, iname = build()
        pkg = h.to_proto(m)
        bits, oob = decode(pkg, iname)
    except Exception as e:
        if python_model is not None:
            problems.append(f"({tag}) rejected with {type(e).__name__}: {str(e)[:100]} but expected {python_model}")
        return
    if oob:
        problems.append(f"({tag}) exported package names a bit outside its signal: {oob}")
    elif python_model is None:
        problems.append(f"({tag}) slice selects no bit of its (current) parent, but was accepted and exported as {bits}")
    elif bits != python_model:
        problems.append(f"({tag}) exported bits {bits}, Python sequence semantics on the exported signal give {python_model}")


def a():
    m = h.Module(name="F1a")
    m.s = h.Signal(width=8)
    sl = m.s[7]
    assert sl.width == 1  # the designer looks at the width ...
    m.s.width = 4  # ... then narrows the bus
    m.dut = leaf(1, "F1Leaf1a")(p=sl)
    return m, "dut"


def b():
    m = h.Module(name="F1b")
    m.s = h.Signal(width=4)
    sl = m.s[-1]
    assert sl.width == 1
    m.s.width = 8
    m.dut = leaf(1, "F1Leaf1b")(p=sl)
    return m, "dut"


def c():
    m = h.Module(name="F1c")
    m.s = h.Signal(width=8)
    sl = m.s[4:8]
    assert sl.width == 4
    m.s.width = 4
    m.dut = leaf(4, "F1Leaf4c")(p=sl)
    return m, "dut"


def d():
    child = leaf(4, "F1Child")
    m = h.Module(name="F1d")
    m.u = child()
    sl = m.u.p[0:4]
    assert sl.width == 4
    child.p.width = 2  # the child's port is narrowed before anything is elaborated
    m.dut = leaf(4, "F1Leaf4d")(p=sl)
    return m, "dut"


def e():
    m = h.Module(name="F1e")
    m.s = h.Signal(width=4)
    m.dut = leaf(1, "F1Leaf1e")(p=m.s[3])
    h.to_proto(m)  # a first, correct export
    m.s.width = 2  # connections of an elaborated module are frozen, signal widths are not
    return m, "dut"


scenario("a: s[7], width read, s narrowed 8->4", a, None)
scenario("b: s[-1], width read, s widened 4->8", b, [("s", 7)])
scenario("c: s[4:8], width read, s narrowed 8->4", c, None)
scenario("d: u.p[0:4], width read, child port narrowed 4->2", d, [("u_p", 0), ("u_p", 1)])
scenario("e: s[3] exported, then s narrowed 4->2 and exported again", e, None)

if problems:
    print("C03 VIOLATED (stale Slice bounds cache):")
    for p in problems:
        print("  -", p)
    sys.exit(1)
print("no violation observed")
sys.exit(0)
