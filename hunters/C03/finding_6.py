"""
C03 finding 6 (low severity): a Concat with an empty Concat among its parts is list concatenation only sometimes.

`h.Concat()` is constructible and reports width 0; `c = h.Concat(h.Concat(), a)` (a 2 bits wide) reports
width 2, and [] + [a0, a1] == [a0, a1].  Yet whether hdl21 accepts `c` depends on how it is used:
    c[1], c[0:1], c[::-1]      accepted, correct bits
    c, c[:], c[0:2]            RuntimeError("Concatenation with no parts")  (no module / instance in the message)
so an in-range, non-empty unit-step range of a concatenation is rejected, while its sub-ranges are accepted.
(Arises from `h.Concat(*bits)` helpers whose bit-list is empty in a corner of the parameter space.)
Run with cwd = worktree root.
"""
import os, sys; sys.path.insert(0, os.getcwd())
import hdl21 as h

problems = []
_k = [0]


def attempt(label, f, model):
    _k[0] += 1
    leaf = h.Module(name=f"F6Leaf{_k[0]}")
    leaf.p = h.Port(width=len(model))
    m = h.Module(name=f"F6Top{_k[0]}")
    m.a = h.Signal(width=2)
    try:
        m.dut = leaf(p=f(m))
        pkg = h.to_proto(m)
    except Exception as e:
        return f"{type(e).__name__}: {e}"
    t = pkg.modules[-1].instances[0].connections[0].target

    def dec(t):
        k = t.WhichOneof("stype")
        if k == "sig":
            return [(t.sig, b) for b in range(2)]
        if k == "slice":
            return [(t.slice.signal, b) for b in range(t.slice.bot, t.slice.top + 1)]
        out = []
        for p in reversed(t.concat.parts):
            out.extend(dec(p))
        return out

    return dec(t)


a0, a1 = ("a", 0), ("a", 1)
cases = [
    ("Concat(Concat(), a)[1]", lambda m: h.Concat(h.Concat(), m.a)[1], [a1]),
    ("Concat(Concat(), a)[0:1]", lambda m: h.Concat(h.Concat(), m.a)[0:1], [a0]),
    ("Concat(Concat(), a)[::-1]", lambda m: h.Concat(h.Concat(), m.a)[::-1], [a1, a0]),
    ("Concat(Concat(), a)[0:2]", lambda m: h.Concat(h.Concat(), m.a)[0:2], [a0, a1]),
    ("Concat(Concat(), a)[:]", lambda m: h.Concat(h.Concat(), m.a)[:], [a0, a1]),
    ("Concat(Concat(), a)", lambda m: h.Concat(h.Concat(), m.a), [a0, a1]),
    ("Concat(a, Concat())", lambda m: h.Concat(m.a, h.Concat()), [a0, a1]),
]
w = h.Concat(h.Concat(), h.Signal(width=2)).width
print("Concat(Concat(), a).width =", w)
results = {}
for label, f, model in cases:
    r = attempt(label, f, model)
    results[label] = r
    print(f"{label:28s} -> {r}")
    if isinstance(r, list) and r != model:
        problems.append(f"{label} exports {r}, list semantics give {model}")
accepted = [l for l, r in results.items() if isinstance(r, list)]
rejected = [l for l, r in results.items() if not isinstance(r, list)]
if accepted and rejected:
    problems.append(f"the same width-{w} concatenation is accepted in {accepted} but rejected in {rejected}")

if problems:
    print("C03 VIOLATED (empty Concat part):")
    for p in problems:
        print("  -", p)
    sys.exit(1)
print("no violation observed")
sys.exit(0)
