"""
C03 finding 3 (low severity): the set of accepted index TYPES is not Python's.

Python sequences accept as an index anything with `__index__` (numpy integers, ...), and take such
objects as slice bounds as well.  hdl21:
  (a) accepts numpy integers (and any `__index__` object) as slice BOUNDS  - s[np.int64(1):np.int64(3)] -
      but rejects the very same values as an integer INDEX - s[np.int64(1)] - with a bare `TypeError`
      that has no message at all ("every in-range index ... is accepted", typical `for i in np.arange(n)` code).
  (b) the public constructor h.Slice(parent=s, index=...) on the other hand coerces through pydantic and
      accepts the string "1" and the float 1.0 as indices (a Python list raises TypeError for both),
      exporting bit 1.
Run with cwd = worktree root.
"""
import os, sys; sys.path.insert(0, os.getcwd())
import hdl21 as h

problems = []


class Idx:
    def __init__(self, v):
        self.v = v

    def __index__(self):
        return self.v


candidates = [("Idx(1) (__index__ object)", Idx(1))]
try:
    import numpy as np

    candidates += [("np.int64(1)", np.int64(1)), ("np.arange(4)[1]", np.arange(4)[1])]
except ImportError:
    pass

bits = ["b0", "b1", "b2", "b3"]
s = h.Signal(width=4, name="s")
for label, idx in candidates:
    assert bits[idx] == "b1"  # Python sequence semantics: fine
    as_bound = s[idx : idx + 1 if not isinstance(idx, Idx) else Idx(2)]
    assert (as_bound.bot, as_bound.top) == (1, 2)  # hdl21 takes it as a slice bound
    try:
        sl = s[idx]
        if (sl.bot, sl.width) != (1, 1):
            problems.append(f"(a) s[{label}] selects bit {sl.bot}")
    except Exception as e:
        problems.append(f"(a) s[{label}] raises {type(e).__name__}({str(e)!r}) although the same value works as a slice bound and on a Python list")

for label, idx in [('"1"', "1"), ("1.0", 1.0)]:
    try:
        bits[idx]
        py = "accepts"
    except TypeError:
        py = "rejects"
    try:
        m = h.Module(name="F3_" + str(abs(hash(label)) % 1000))
        m.s = h.Signal(width=4)
        leaf = h.Module(name="F3Leaf" + str(abs(hash(label)) % 1000))
        leaf.p = h.Port()
        m.dut = leaf(p=h.Slice(parent=m.s, index=idx))
        pkg = h.to_proto(m)
        tgt = pkg.modules[-1].instances[0].connections[0].target.slice
        if py == "rejects":
            problems.append(f"(b) h.Slice(parent=s, index={label}) is accepted and exported as s[{tgt.top}:{tgt.bot}]; a Python list rejects this index")
    except Exception as e:
        pass

if problems:
    print("C03 VIOLATED (index types):")
    for p in problems:
        print("  -", p)
    sys.exit(1)
print("no violation observed")
sys.exit(0)
