"""
C03 finding 2: port references into instance ARRAYS have two different widths.

`arr = 2 * Leaf2(p=s)` with a 4-bit `s` wires s[0:2] / s[2:4] to the two elements; the port reference
`arr.p`, connected unsliced, stands for all 4 bits of `s`.  But the width helper (`ref_width`) gives a
port reference the width of ONE element's port (2), while elaboration re-parents its slices onto the
4-bit signal it resolves to.  Which width an index is taken against depends on whether the slice's
width/bounds were read before elaboration (Slice._inner caches them) - so:
  (a) `arr.p[-1]` selects s[3], or s[1] if `.width` was read first  (bit i mod w, for two different w),
  (b) `arr.p[3]` is a valid connection, but raises "Out-of-bounds" if its width is asked for first,
  (c) `arr.p[:]` reports width 2 although `arr.p` itself connects 4 bits (x[:] != x),
  (d) built through the public constructor h.Slice(parent=arr.p, index=-1) - whose parent is not
      re-parented - the slice reports bounds [1, 2) AFTER export while the package connects s[3].
Run with cwd = worktree root.
"""
import os, sys; sys.path.insert(0, os.getcwd())
import hdl21 as h

problems = []
_n = [0]


def leaf(w):
    _n[0] += 1
    m = h.Module(name=f"F2Leaf{w}_{_n[0]}")
    m.p = h.Port(width=w)
    return m


def bits_of(pkg, instname, portname="p"):
    mod = pkg.modules[-1]
    widths = {s.name: s.width for s in mod.signals}
    inst = [i for i in mod.instances if i.name == instname][0]
    conn = [c for c in inst.connections if c.portname == portname][0]

    def dec(t):
        k = t.WhichOneof("stype")
        if k == "sig":
            return [(t.sig, b) for b in range(widths[t.sig])]
        if k == "slice":
            return [(t.slice.signal, b) for b in range(t.slice.bot, t.slice.top + 1)]
        out = []
        for p in reversed(t.concat.parts):
            out.extend(dec(p))
        return out

    return dec(conn.target)


def design(index, read_width_first, dut_width=1, direct=False):
    m = h.Module(name=f"F2Top{_n[0]}")
    m.s = h.Signal(width=4)
    m.arr = 2 * leaf(2)(p=m.s)
    sl = h.Slice(parent=m.arr.p, index=index) if direct else m.arr.p[index]
    early = sl.width if read_width_first else None
    m.dut = leaf(dut_width)(p=sl)
    pkg = h.to_proto(m)
    return bits_of(pkg, "dut"), sl, early


def attempt(*args, **kwargs):
    try:
        return design(*args, **kwargs)
    except Exception as e:
        return f"{type(e).__name__}: {str(e)[:90]}"


# reference: what the unsliced port reference stands for
m = h.Module(name="F2Ref")
m.s = h.Signal(width=4)
m.arr = 2 * leaf(2)(p=m.s)
m.dut = leaf(4)(p=m.arr.p)
whole = bits_of(h.to_proto(m), "dut")
print("arr.p unsliced connects:", whole)

# (a)
r1 = attempt(-1, False)
r2 = attempt(-1, True)
print("(a) arr.p[-1]              ->", r1 if isinstance(r1, str) else r1[0])
print("(a) arr.p[-1], width read  ->", r2 if isinstance(r2, str) else r2[0])
if isinstance(r1, str) or isinstance(r2, str) or r1[0] != r2[0]:
    problems.append("(a) arr.p[-1] selects a different bit depending on whether .width was read before elaboration")
if not isinstance(r1, str) and r1[0] != [whole[-1]]:
    problems.append(f"(a) arr.p[-1] = {r1[0]} is not the last bit of arr.p = {whole[-1]}")
if not isinstance(r2, str) and r2[0] != [whole[-1]]:
    problems.append(f"(a) arr.p[-1] (width read first) = {r2[0]} is not the last bit of arr.p = {whole[-1]}")

# (b)
r1 = attempt(3, False)
r2 = attempt(3, True)
print("(b) arr.p[3]               ->", r1 if isinstance(r1, str) else r1[0])
print("(b) arr.p[3], width read   ->", r2 if isinstance(r2, str) else r2[0])
if isinstance(r1, str) != isinstance(r2, str):
    problems.append("(b) arr.p[3] is accepted or rejected depending on whether .width was read before elaboration")

# (c)
m = h.Module(name="F2c")
m.s = h.Signal(width=4)
m.arr = 2 * leaf(2)(p=m.s)
w = m.arr.p[:].width
print("(c) arr.p[:].width =", w, "; arr.p connects", len(whole), "bits")
if w != len(whole):
    problems.append(f"(c) arr.p[:] reports width {w} but arr.p is {len(whole)} bits wide")

# (d)
r = attempt(-1, False, direct=True)
if isinstance(r, str):
    print("(d)", r)
else:
    bits, sl, _ = r
    print(f"(d) h.Slice(arr.p, -1): exported {bits}; slice reports bot={sl.bot} top={sl.top} width={sl.width}")
    if bits != [("s", sl.bot)]:
        problems.append(f"(d) slice reports bit {sl.bot} (bounds [{sl.bot},{sl.top})) but the package connects {bits}")

if problems:
    print("C03 VIOLATED (array port references):")
    for p in problems:
        print("  -", p)
    sys.exit(1)
print("no violation observed")
sys.exit(0)
