"""
C03 finding 4: asking a bundle reference for its width returns a fabricated reference and breaks the design.

Signal, Slice and Concat report `.width`; a PortRef raises AttributeError.  A BundleRef (`m.b.x`)
answers ANY attribute name by fabricating - and registering in `refs_to_me` - a nested BundleRef, so
    m.b.x.width            -> BundleRef(path=['x', 'width'])        (not a number)
    hasattr(m.b.x, "width") -> True
and the mere look is remembered: the bundle flattener later tries to resolve the path x.width and the
elaboration of an otherwise valid design (`leaf(p=m.b.x[0])`) dies with
    AttributeError: 'Signal' object has no attribute 'signals'.
Expected: the reported width equals the number of selected bits (2), and every in-range index is accepted
on bundle references, whether or not somebody looked at the width first.
Run with cwd = worktree root.
"""
import os, sys; sys.path.insert(0, os.getcwd())
import hdl21 as h

problems = []


def design(probe):
    B = h.Bundle(name="F4B_" + probe)
    B.x = h.Signal(width=2)
    leaf = h.Module(name="F4Leaf_" + probe)
    leaf.p = h.Port(width=1)
    m = h.Module(name="F4Top_" + probe)
    m.b = B()
    if probe == "width":
        w = m.b.x.width
        if w != 2:
            problems.append(f"m.b.x.width of a 2-bit bundle signal is {w!r}")
    elif probe == "hasattr":
        hasattr(m.b.x, "width")  # e.g. a generic `def width_of(c): return c.width if hasattr(c, "width") else ...`
    m.dut = leaf(p=m.b.x[0])
    pkg = h.to_proto(m)
    t = pkg.modules[-1].instances[0].connections[0].target
    return (t.slice.signal, t.slice.bot, t.slice.top)


ref = design("none")
print("without a width probe:", ref)
for probe in ["width", "hasattr"]:
    try:
        got = design(probe)
        print(f"after probe `{probe}`:", got)
        if got != ref:
            problems.append(f"after probe `{probe}` the design exports {got} instead of {ref}")
    except Exception as e:
        problems.append(f"after probe `{probe}` the valid design m.b.x[0] is rejected: {type(e).__name__}: {str(e)[:100]}")

if problems:
    print("C03 VIOLATED (bundle reference width):")
    for p in problems:
        print("  -", p)
    sys.exit(1)
print("no violation observed")
sys.exit(0)
