"""
C03 finding 5: some ports / bundle members cannot be referenced (hence not indexed) at all, because the
reference-generating `__getattr__` is only reached when ordinary attribute lookup fails.

  (a) InstanceArray stores its size as the plain attribute `n`; `n` is also the negative terminal of every
      two-terminal primitive (R, C, L, D, V/I sources).  `arr = 2 * h.R(r=1)(...)`: `arr.p` is a PortRef,
      `arr.n` is the integer 2, `arr.n[0]` -> TypeError: 'int' object is not subscriptable.
      (The same expression on a scalar Instance works.)
  (b) BundleInstance attributes `src`, `dest`, `port`, `role`, `desc`, `name`, `of`, `flipped`, `props`
      shadow bundle signals of those names: `m.b.src[0]` -> 'NoneType' object is not subscriptable.
  (c) BundleRef attributes/methods `parent`, `path`, `root`, `resolved`, `attrname` shadow members of nested
      bundles: `m.o.inner.parent` is the BundleInstance `o` itself, `m.o.inner.path` a bound method.
The property demands that every in-range index is accepted on port references and bundle references alike.
Run with cwd = worktree root.
"""
import os, sys; sys.path.insert(0, os.getcwd())
import hdl21 as h

problems = []


def check(label, thunk, want_type):
    try:
        sl = thunk()
        if not isinstance(sl, want_type):
            problems.append(f"{label} -> {type(sl).__name__} {sl!r:.40}")
        else:
            print("ok:", label)
    except Exception as e:
        problems.append(f"{label} raises {type(e).__name__}: {e}")


# (a)
m = h.Module(name="F5a")
m.vss = h.Signal()
m.r = h.R(r=1)(p=m.vss)
m.rs = 2 * h.R(r=1)(p=m.vss)
check("scalar instance  r.n[0]", lambda: m.r.n[0], h.Slice)
check("instance array  rs.p[0]", lambda: m.rs.p[0], h.Slice)
check("instance array  rs.n[0]", lambda: m.rs.n[0], h.Slice)
check("instance array  Concat(rs.n)", lambda: h.Concat(m.rs.n), h.Concat)

# (b)
B = h.Bundle(name="F5Link")
for nm in ["data", "src", "dest", "port"]:
    B.add(h.Signal(name=nm, width=2))
mb = h.Module(name="F5b")
mb.b = B()
for nm in ["data", "src", "dest", "port"]:
    check(f"bundle member  b.{nm}[0]", lambda nm=nm: getattr(mb.b, nm)[0], h.Slice)

# (c)
I = h.Bundle(name="F5Inner")
for nm in ["x", "parent", "path", "root", "resolved"]:
    I.add(h.Signal(name=nm, width=2))
O = h.Bundle(name="F5Outer")
O.inner = I()
mc = h.Module(name="F5c")
mc.o = O()
for nm in ["x", "parent", "path", "root", "resolved"]:
    check(f"nested member  o.inner.{nm}[0]", lambda nm=nm: getattr(mc.o.inner, nm)[0], h.Slice)

if problems:
    print("C03 VIOLATED (references shadowed by ordinary attributes):")
    for p in problems:
        print("  -", p)
    sys.exit(1)
print("no violation observed")
sys.exit(0)
