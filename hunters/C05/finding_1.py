"""
C05 finding 1: on an InstanceArray, a flattened bundle-member port name (`b_x`) silently
captures / replaces a connection the designer made under that very name.

`Inner` has ONE port, the bundle-valued `b` (members x, y).  The designer writes

    arr = 2 * Inner(b=pb, b_x=s)

`b_x` is not a port of `Inner`.  On a plain Instance this is (correctly) rejected:
"Connection to non-existent Port `b_x`".  On an InstanceArray nothing checks connections before
bundle flattening, and `BundleFlattener.replace_bundle_conn` does `inst.connect("b_x", pb_x)`,
which *replaces* the designer's `b_x=s` connection without a word.  The design elaborates,
exports, and signal `s` is connected to nothing.

The same hole lets a designer connect straight to invented names (`2 * Inner1(b_x=s)` with no
connection to `b` at all is accepted for arrays, rejected for instances).
"""
import os, sys; sys.path.insert(0, os.getcwd())
import hdl21 as h


def build(kind: str, tag: str):
    @h.bundle
    class B:
        x = h.Signal()
        y = h.Signal()

    Inner = h.Module(name=f"Inner_{tag}")
    Inner.b = B(port=True)

    M = h.Module(name=f"M_{tag}")
    M.s = h.Signal()
    M.pb = B()
    i = Inner(b=M.pb, b_x=M.s)  # `b_x` is NOT a port of Inner
    M.arr = (2 * i) if kind == "array" else i
    return M


def nets_of(pkg, modname):
    mod = [m for m in pkg.modules if m.name.endswith(modname)][0]
    out = {}
    for inst in mod.instances:
        for c in inst.connections:
            t = c.target
            w = t.WhichOneof("stype")
            sig = t.sig if w == "sig" else (t.slice.signal if w == "slice" else str(t))
            out[(inst.name, c.portname)] = sig
    return out


def main():
    bad = []

    # Reference behaviour: the plain Instance is rejected
    try:
        h.to_proto(build("inst", "i"))
        inst_result = "accepted"
    except RuntimeError as e:
        inst_result = "rejected: " + str(e).strip().splitlines()[-1]
    print("plain Instance  Inner(b=pb, b_x=s):", inst_result)

    # The array
    try:
        pkg = h.to_proto(build("array", "a"))
    except RuntimeError as e:
        print("InstanceArray 2*Inner(b=pb, b_x=s): rejected:", str(e).strip().splitlines()[-1])
        print("OK - no violation")
        return 0

    nets = nets_of(pkg, "M_a")
    print("InstanceArray 2*Inner(b=pb, b_x=s): ACCEPTED, connections:", nets)
    users_of_s = [k for k, v in nets.items() if v == "s"]
    if not users_of_s:
        bad.append(
            "the designer's connection `b_x=s` was silently replaced by the flattened bundle member "
            "`pb_x`: signal `s` is connected to nothing, and no error was raised"
        )

    # Second flavour: connecting *only* to the invented name
    @h.bundle
    class B1:
        x = h.Signal()

    Inner1 = h.Module(name="Inner1")
    Inner1.b = B1(port=True)
    M2 = h.Module(name="M2")
    M2.s = h.Signal()
    M2.arr = 2 * Inner1(b_x=M2.s)  # no connection to `b`, a connection to non-port `b_x`
    try:
        h.to_proto(M2)
        bad.append(
            "`2 * Inner1(b_x=s)` (no connection to port `b`, connection to the non-existent port `b_x`) is accepted: "
            "the designer's name `b_x` is bound to the invented flattened port"
        )
    except RuntimeError:
        pass

    if bad:
        print("\nVIOLATION of C05 ('No existing signal or instance is replaced ... connections made by the designer keep referring to the object they were made to'):")
        for b in bad:
            print(" -", b)
        return 1
    print("OK - no violation")
    return 0


if __name__ == "__main__":
    sys.exit(main())
