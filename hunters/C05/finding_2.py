"""
C05 finding 2: a flattened bundle-member port name coincides with the name of ANOTHER bundle-valued
port of the same module; in the instantiating module the two meanings of that name overwrite each
other in the instance's connection table, and a valid design is rejected in some declaration orders
(with a misleading "Missing connection" error) while it elaborates fine in the others.

    Inner:  a   = BX(port=True)    # member x   -> flattened port `a_x`
            a_x = BY(port=True)    # member y   -> flattened port `a_x_y`
    Outer:  i = Inner(a=pa, a_x=pax)

* In `Inner`, `BundleFlattener.elaborate_module` pops bundle `a_x` from `module.namespace` before naming
  the members of `a`, so `a.x` gets the name `a_x` - the designer's name for the other port
  (no fresh name is chosen, nothing is raised).
* In `Outer`, `replace_bundle_conn(i, "a", ...)` then does `i.connect("a_x", pa_x)`, which *replaces* the designer's
  still-pending connection `a_x=pax`; `pax` is never connected and the post-flattening check fails with
  "Missing connection to Port `a_x_y`".

All four declaration orders describe the same valid circuit; the property is quantified over every order of declaration.
"""
import os, sys; sys.path.insert(0, os.getcwd())
import hdl21 as h


@h.bundle
class BX:
    x = h.Signal()


@h.bundle
class BY:
    y = h.Signal()


def build(inner_order: int, outer_order: int):
    Inner = h.Module(name=f"Inner{inner_order}{outer_order}")
    if inner_order == 0:
        Inner.a = BX(port=True)
        Inner.a_x = BY(port=True)
    else:
        Inner.a_x = BY(port=True)
        Inner.a = BX(port=True)

    Outer = h.Module(name=f"Outer{inner_order}{outer_order}")
    if outer_order == 0:
        Outer.pa = BX()
        Outer.pax = BY()
    else:
        Outer.pax = BY()
        Outer.pa = BX()
    Outer.i = Inner(a=Outer.pa, a_x=Outer.pax)
    return Inner, Outer


def main():
    results = {}
    for io_ in (0, 1):
        for oo in (0, 1):
            Inner, Outer = build(io_, oo)
            try:
                pkg = h.to_proto(Outer)
                mod = [m for m in pkg.modules if m.name.endswith(Outer.name)][0]
                conns = {c.portname: c.target.sig for c in mod.instances[0].connections}
                inner = [m for m in pkg.modules if m.name.endswith(Inner.name)][0]
                results[(io_, oo)] = ("ok", sorted(p.signal for p in inner.ports), conns)
            except Exception as e:
                results[(io_, oo)] = ("error", str(e).strip().splitlines()[-1])

    for k, v in results.items():
        print(f"Inner order {k[0]}, Outer order {k[1]}: {v}")

    bad = []
    statuses = {v[0] for v in results.values()}
    if statuses != {"ok"}:
        bad.append("a valid design is rejected in some declaration orders and accepted in others: "
                   + str({k: v[0] for k, v in results.items()}))
    for k, v in results.items():
        if v[0] == "ok" and "a_x" in v[1]:
            # (the naming half of the mechanism; reported on its own in finding_3.py)
            print(f"note: order {k}: flattened member `a.x` of Inner was named `a_x`, the designer's name of the other bundle port")
    if bad:
        print("\nVIOLATION of C05 ('a clash is resolved by choosing a fresh name or by raising ... connections made by the designer keep referring to the object they were made to', 'in every order of declaration'):")
        for b in bad:
            print(" -", b)
        return 1
    print("OK - no violation")
    return 0


if __name__ == "__main__":
    sys.exit(main())
