"""
C05 finding 3: names invented for array elements, instance-bundle (Pair) members and flattened bundle
members DO coincide with names the designer chose - whenever the designer's name belongs to another
array / Pair / bundle instance that the same pass has already dissolved.  Which of the two gets the
designer's name depends on the order of declaration.

`ArrayFlattener`, `InstBundleElabPass` and `BundleFlattener` all do

    while module.<kind>: name, obj = module.<kind>.popitem(); module.namespace.pop(name); ...flatname(avoid=module.namespace)

i.e. a designer's name is forgotten as soon as its object is popped, and is handed out again to
the pieces of the next object:

    M.arr   = 2 * A(...)        # elements should be arr_0, arr_1
    M.arr_0 = 2 * Bm(...)       # designer's name `arr_0` denotes an array of **Bm**

  declared in this order -> the package has instance `arr_0` of module **A** (element 0 of `arr`);
  the designer's `arr_0` only survives as `arr_0_0`, `arr_0_1`.
  declared the other way round -> `arr` becomes `arr_0_`, `arr_1` (clash detected, fresh name chosen).
"""
import os, sys; sys.path.insert(0, os.getcwd())
import hdl21 as h


def leaf(name):
    m = h.Module(name=name)
    m.p = h.Port()
    return m


def insts(pkg, modname):
    mod = [m for m in pkg.modules if m.name.endswith(modname)][0]
    return {i.name: i.module.local.split(".")[-1] for i in mod.instances}, [s.name for s in mod.signals]


def arrays(order, tag):
    A, Bm = leaf(f"A{tag}"), leaf(f"Bm{tag}")
    M = h.Module(name=f"MA{tag}")
    M.s = h.Signal()
    if order == 0:
        M.arr = 2 * A(p=M.s)
        M.arr_0 = 2 * Bm(p=M.s)
    else:
        M.arr_0 = 2 * Bm(p=M.s)
        M.arr = 2 * A(p=M.s)
    return insts(h.to_proto(M), M.name)[0], f"A{tag}", f"Bm{tag}"


def pairs(order, tag):
    A, Bm = leaf(f"PA{tag}"), leaf(f"PB{tag}")
    M = h.Module(name=f"MP{tag}")
    M.d = h.Diff()
    if order == 0:
        M.pr = h.Pair(A)(p=M.d)
        M.pr_p = h.Pair(Bm)(p=M.d)
    else:
        M.pr_p = h.Pair(Bm)(p=M.d)
        M.pr = h.Pair(A)(p=M.d)
    return insts(h.to_proto(M), M.name)[0], f"PA{tag}", f"PB{tag}"


def bundles(order, tag):
    @h.bundle
    class BX:
        x = h.Signal()

    @h.bundle
    class BW:
        y = h.Signal(width=3)

    M = h.Module(name=f"MB{tag}")
    if order == 0:
        M.a = BX()
        M.a_x = BW()
    else:
        M.a_x = BW()
        M.a = BX()
    M.i = leaf(f"LB{tag}")(p=M.a.x)
    pkg = h.to_proto(M)
    mod = [m for m in pkg.modules if m.name.endswith(M.name)][0]
    return {s.name: s.width for s in mod.signals}


def crosspass(order, tag):
    """Bundle instance `arr_0` (dissolved by BundleFlattener) vs. the elements of array `arr` (named later by ArrayFlattener),
    and Pair `x_p` (dissolved by InstBundleElabPass) vs. the implicit signal behind port reference `x.p`."""

    @h.bundle
    class BY:
        y = h.Signal()

    A = leaf(f"CA{tag}")
    M = h.Module(name=f"MC{tag}")
    M.s = h.Signal()
    M.d = h.Diff()
    if order == 0:
        M.arr_0 = BY()
        M.x_p = h.Pair(leaf(f"CP{tag}"))(p=M.d)
        M.arr = 2 * A(p=M.s)
        M.x = A()
        M.z = A(p=M.x.p)
    else:
        M.x = A()
        M.z = A(p=M.x.p)
        M.arr = 2 * A(p=M.s)
        M.x_p = h.Pair(leaf(f"CP{tag}"))(p=M.d)
        M.arr_0 = BY()
    M.u = leaf(f"CU{tag}")(p=M.arr_0.y)
    i, sigs = insts(h.to_proto(M), M.name)
    return i, sigs


def main():
    bad = []

    for order in (0, 1):
        i, sigs = crosspass(order, f"o{order}")
        print(f"cross-pass, order {order}: instances {i} signals {sigs}")
        if "arr_0" in i:
            bad.append(f"cross-pass, order {order}: element 0 of array `arr` is named `arr_0`, the designer's name of a bundle instance")
        if "x_p" in sigs:
            bad.append(f"cross-pass, order {order}: the implicit signal behind port reference `x.p` is named `x_p`, the designer's name of a Pair")

    for order in (0, 1):
        names, A, Bm = arrays(order, f"o{order}")
        print(f"arrays,  order {order}: {names}")
        # The designer's name `arr_0` denotes (an array of) Bm. Nothing named `arr_0` may be an instance of A.
        if names.get("arr_0") == A:
            bad.append(f"arrays, order {order}: invented element name `arr_0` (element 0 of `arr`, module {A}) is the designer's name of the array of {Bm}")

    for order in (0, 1):
        names, A, Bm = pairs(order, f"o{order}")
        print(f"pairs,   order {order}: {names}")
        if names.get("pr_p") == A:
            bad.append(f"pairs, order {order}: invented member name `pr_p` (member p of Pair `pr`, module {A}) is the designer's name of the Pair of {Bm}")

    for order in (0, 1):
        sigs = bundles(order, f"o{order}")
        print(f"bundles, order {order}: {sigs}")
        # The designer's name `a_x` denotes the bundle with the 3-bit member. A 1-bit signal `a_x` is member x of bundle `a`.
        if sigs.get("a_x") == 1:
            bad.append(f"bundles, order {order}: invented member name `a_x` (member x of bundle `a`) is the designer's name of another bundle instance")

    if bad:
        print("\nVIOLATION of C05 ('Names that elaboration invents ... never coincide with a name already present in the module: "
              "a clash is resolved by choosing a fresh name or by raising'; 'in every order of declaration'):")
        for b in bad:
            print(" -", b)
        return 1
    print("OK - no violation")
    return 0


if __name__ == "__main__":
    sys.exit(main())
