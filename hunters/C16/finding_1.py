"""C16 finding 1: flatten() does not keep m's ports unchanged: port `usage` (POWER / GROUND / CLOCK),
`props` and `related_*` attributes are reset to their defaults on the flattened module's ports."""
import os, sys; sys.path.insert(0, os.getcwd())
import hdl21 as h
from hdl21.flatten import flatten


@h.module
class Inv:
    vdd = h.Power()
    vss = h.Ground()
    i = h.Input()
    o = h.Output()
    p = h.Pmos()(d=o, g=i, s=vdd, b=vdd)
    n = h.Nmos()(d=o, g=i, s=vss, b=vss)


Top = h.Module(name="Top")
Top.vdd = h.Power()
Top.vss = h.Ground()
Top.clk = h.Clock()
Top.d = h.Input(related_clk=Top.clk, related_pwr=Top.vdd, related_gnd=Top.vss)
Top.d.props.set("keep", 1)
Top.q = h.Output()
Top.i1 = Inv(vdd=Top.vdd, vss=Top.vss, i=Top.d)
Top.i2 = Inv(vdd=Top.vdd, vss=Top.vss, i=Top.i1.o, o=Top.q)
Top.i3 = Inv(vdd=Top.vdd, vss=Top.vss, i=Top.clk, o=h.NoConn())

m = h.elaborate(Top)
flat = flatten(Top)

bad = []
for name, port in m.ports.items():
    fport = flat.ports[name]
    if fport.usage != port.usage:
        bad.append(f"port {name}: usage {port.usage} -> {fport.usage}")
    for rel in ("related_clk", "related_pwr", "related_gnd"):
        a, b = getattr(port, rel), getattr(fport, rel)
        if (a is None) != (b is None) or (a is not None and a.name != b.name):
            bad.append(f"port {name}: {rel} {a} -> {b}")
    if port.props != fport.props:
        bad.append(f"port {name}: props {port.props} -> {fport.props}")

if bad:
    print("VIOLATION of `has m's ports unchanged`: the ports of flatten(Top) differ from Top's:")
    for b in bad:
        print("  ", b)
    sys.exit(1)
print("ok")
sys.exit(0)
