"""C16 finding 2: a module with Bundle-valued ports does not keep those ports through flatten().
The elaborated module `m` still accepts `m(bb=<bundle>)` (its bundle-valued IO is retained for parents),
the module returned by flatten(m) has lost that IO and is rejected in the same place: m's ports are not unchanged."""
import os, sys; sys.path.insert(0, os.getcwd())
import hdl21 as h
from hdl21.flatten import flatten


@h.bundle
class B:
    u, v = h.Signals(2)


@h.module
class Leaf:
    bb = B(port=True)
    z = h.Port()
    r1 = h.Res(r=1)(p=bb.u, n=bb.v)
    r2 = h.Res(r=1)(p=bb.v, n=z)


@h.module
class Mid:
    bb = B(port=True)
    z = h.Port()
    l1 = Leaf(bb=bb, z=z)
    l2 = Leaf(bb=bb, z=l1.z)


h.elaborate(Mid)
flat = flatten(Mid)
assert not flat is Mid and set(flat.ports) == set(Mid.ports)


def parent(child, name):
    """A parent that connects `child` by its (bundle-valued) port `bb`"""
    p = h.Module(name=name)
    p.b = B()
    p.z = h.Signal()
    p.i = child(bb=p.b, z=p.z)
    return p


# The original (elaborated) module can be instantiated through its bundle port
pkg = h.to_proto(parent(Mid, "ParentOfOrig"))
assert len(pkg.modules) == 3

try:
    h.to_proto(parent(flat, "ParentOfFlat"))
except Exception as e:
    print("VIOLATION of `has m's ports unchanged`: bundle port `bb` of Mid is gone from flatten(Mid).")
    print("Connecting it exactly as Mid is connected fails with:")
    print("   ", str(e).strip().splitlines()[-1])
    sys.exit(1)
print("ok")
sys.exit(0)
