import os, sys; sys.path.insert(0, os.getcwd())
import hdl21 as h
from hdl21.flatten import flatten
import itertools

def _mods(pkg):
    return {m.name: m for m in pkg.modules}

def connectivity(pkg, topname):
    """Returns (table, ports) where table maps (leafpath, portname, bit)->netid and ("<PORT>", name, bit)->netid.
    leaves: leafpath -> (ref, params)"""
    mods = _mods(pkg)
    ctr = itertools.count()
    table = {}
    leaves = {}
    def bits_of(target, env):
        k = target.WhichOneof("stype")
        if k == "sig":
            return list(env[target.sig])
        if k == "slice":
            s = target.slice
            b = env[s.signal]
            return [b[i] for i in range(s.bot, s.top + 1)]
        if k == "concat":
            out = []
            for p in reversed(target.concat.parts):  # LSB first
                out.extend(bits_of(p, env))
            return out
        raise Exception(k)
    def expand(mod, path, binding):
        env = {}
        portnames = [p.signal for p in mod.ports]
        for s in mod.signals:
            if s.name in portnames:
                assert len(binding[s.name]) == s.width, (path, s.name, len(binding[s.name]), s.width)
                env[s.name] = binding[s.name]
            else:
                env[s.name] = [next(ctr) for _ in range(s.width)]
        for inst in mod.instances:
            ipath = path + (inst.name,)
            conns = {c.portname: bits_of(c.target, env) for c in inst.connections}
            which = inst.module.WhichOneof("to")
            if which == "local":
                sub = mods[inst.module.local]
                assert set(conns) == set(p.signal for p in sub.ports), (ipath, set(conns), [p.signal for p in sub.ports])
                expand(sub, ipath, conns)
            else:
                ref = (inst.module.external.domain, inst.module.external.name)
                params = tuple(sorted((p.name, p.value.SerializeToString()) for p in inst.parameters))
                assert ipath not in leaves
                leaves[ipath] = (ref, params)
                for pn, bs in conns.items():
                    for i, b in enumerate(bs):
                        table[(ipath, pn, i)] = b
    top = mods[topname]
    binding = {}
    sigs = {s.name: s for s in top.signals}
    for p in top.ports:
        binding[p.signal] = [next(ctr) for _ in range(sigs[p.signal].width)]
        for i, b in enumerate(binding[p.signal]):
            table[("<PORT>", p.signal, i)] = b
    expand(top, (), binding)
    ports = [(p.signal, p.direction, sigs[p.signal].width) for p in top.ports]
    return table, leaves, ports

def canon(table, rename=lambda k: k):
    t = {rename(k): v for k, v in table.items()}
    assert len(t) == len(table), "rename collision"
    ids = {}
    out = {}
    for k in sorted(t, key=repr):
        out[k] = ids.setdefault(t[k], len(ids))
    return out

def qname(m):
    pkg = h.to_proto(m)
    for mm in pkg.modules:
        if mm.name.endswith("." + m.name) or mm.name == m.name:
            cand = mm.name
    return pkg, cand

def check(m, verbose=False, positional=True):
    """Flatten m, compare. Returns list of problems (strings)."""
    m = h.elaborate(m)
    pkg0 = h.to_proto(m)
    top0 = [x.name for x in pkg0.modules][-1]
    t0, l0, p0 = connectivity(pkg0, top0)
    f = flatten(m)
    pkg1 = h.to_proto(f)
    top1 = [x.name for x in pkg1.modules][-1]
    probs = []
    if len(pkg1.modules) != 1:
        probs.append(f"flat package has {len(pkg1.modules)} modules")
    t1, l1, p1 = connectivity(pkg1, top1)
    if p0 != p1:
        probs.append(f"ports differ: {p0} vs {p1}")
    if len(l0) != len(l1):
        probs.append(f"leaf count differs {len(l0)} {len(l1)}")
        return probs, f
    idx0 = {k: i for i, k in enumerate(l0)}
    idx1 = {k: i for i, k in enumerate(l1)}
    def ren0(k):
        if k[0] == "<PORT>": return k
        return (idx0[k[0]],) + k[1:]
    def ren1(k):
        if k[0] == "<PORT>": return k
        return (idx1[k[0]],) + k[1:]
    c0 = canon(t0, ren0); c1 = canon(t1, ren1)
    if c0 != c1:
        probs.append("connectivity differs")
        if verbose:
            for k in sorted(set(c0) | set(c1), key=repr):
                print(k, c0.get(k), c1.get(k))
    if list(l0.values()) != list(l1.values()):
        probs.append("leaf kinds/params differ")
    names0 = [":".join(k) for k in l0]; names1 = [k[0] for k in l1]
    for a, b in zip(names0, names1):
        if not (b.startswith(a) and set(b[len(a):]) <= {"_"}):
            probs.append(f"leaf name {a} -> {b}")
    if len(set(names1)) != len(names1): probs.append("dup flat names")
    if names0 != names1 and verbose:
        print("renamed leaves:", [(a,b) for a,b in zip(names0,names1) if a!=b])
    return probs, f
