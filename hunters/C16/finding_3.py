"""C16 finding 3: flatten() of a primitive / external-module call - the trivially flat `Instantiable`s which
`flatten(m: h.Instantiable)` and `is_flat` are written to accept - crashes with an undescriptive AttributeError."""
import os, sys; sys.path.insert(0, os.getcwd())
import hdl21 as h
from hdl21.flatten import flatten, is_flat

E = h.ExternalModule(name="E", port_list=[h.Port(name="a"), h.Port(name="b")], desc="ext")
bad = []
for call in (h.Res(r=1), h.Nmos(), E()):
    assert is_flat(call)  # `is_flat` knows these are flat
    try:
        rv = flatten(call)
        if rv is not call:
            bad.append(f"flatten({call}) returned {rv}")
    except AttributeError as e:
        bad.append(f"flatten({type(call).__name__}) raised AttributeError: {e}")
if bad:
    print("VIOLATION: leaf-only `Instantiable`s are neither flattened (returned as they are) nor rejected descriptively:")
    for b in bad:
        print("  ", b)
    sys.exit(1)
print("ok")
sys.exit(0)
