"""C04 finding 12 (lower confidence - depends on the intended meaning of a reference to an array port).

a2.q = a1.q  with a1.q tied to the 2-bit signal `u`   -> element-wise: a1_k.q and a2_k.q share u[k]; elements are NOT shorted.
Then `a1.disconnect("q")`: a1.q is now only "referenced by a connection that is still live". The net created for it is
one bit wide and broadcast: a1_0.q, a1_1.q, a2_0.q, a2_1.q are all shorted together - nets merge because a connection
was removed. (A NoConn on an array port, by contrast, gets one net per element.)
"""
import os, sys; sys.path.insert(0, os.getcwd())
import hdl21 as h


@h.module
class Inner:
    p = h.Port()
    q = h.Port()


def build(disconnect):
    m = h.Module(name=f"Top{int(disconnect)}")
    m.s = h.Signal()
    m.u = h.Signal(width=2)
    m.a1 = h.InstanceArray(of=Inner, n=2, name="a1")(p=m.s, q=m.u)
    m.a2 = h.InstanceArray(of=Inner, n=2, name="a2")(p=m.s, q=m.a1.q)
    if disconnect:
        m.a1.disconnect("q")
    pkg = h.to_proto(m)
    top = [x for x in pkg.modules if x.name.endswith(m.name)][0]

    def t(c):
        k = c.target.WhichOneof("stype")
        return c.target.sig if k == "sig" else (c.target.slice.signal, c.target.slice.bot)

    return {i.name: {c.portname: t(c) for c in i.connections} for i in top.instances}


before = build(False)
after = build(True)
sep_before = before["a1_0"]["q"] != before["a1_1"]["q"]
sep_after = after["a1_0"]["q"] != after["a1_1"]["q"]
paired = after["a1_0"]["q"] == after["a2_0"]["q"] and after["a1_1"]["q"] == after["a2_1"]["q"]
if sep_before and not sep_after:
    print("VIOLATION (C04): disconnecting a1.q (still referenced by a2.q) merges the nets of the array elements:")
    print("  before:", {k: v["q"] for k, v in before.items()})
    print("  after: ", {k: v["q"] for k, v in after.items()})
    sys.exit(1)
print("ok", paired)
