"""C04 finding 5: per-element connection attempts on an InstanceArray are silently ignored.

`InstanceArray.__getitem__` / `__setitem__` *return* a RuntimeError("Illegal indexing into Array ...") instead of
raising it. `arr[0].q = t` therefore sets an attribute on a throw-away exception object, and `arr[1] = ...` is a no-op.
No error, and the design is built with the earlier connections: the last connection made is not the one built
(nor is the ill-formed operation rejected).
"""
import os, sys; sys.path.insert(0, os.getcwd())
import hdl21 as h


@h.module
class Inner:
    p = h.Port()
    q = h.Port()


m = h.Module(name="Top")
m.s, m.t = h.Signal(), h.Signal()
m.arr = 2 * Inner(p=m.s, q=m.s)
raised = False
try:
    m.arr[0].q = m.t  # connect-by-assignment on element 0
    m.arr[1] = Inner(p=m.t, q=m.t)
except Exception as e:
    raised = True
    print("rejected:", type(e).__name__, e)

if not raised:
    pkg = h.to_proto(m)
    top = [x for x in pkg.modules if x.name.endswith("Top")][0]
    got = {i.name: {c.portname: c.target.sig for c in i.connections} for i in top.instances}
    print("VIOLATION (C04): `arr[0].q = t` and `arr[1] = ...` were accepted without error and silently ignored;")
    print(f"  built: {got}")
    sys.exit(1)
print("ok")
