"""C04 finding 9 (boundary): a chain of ~1000 port references (i_k.q = i_{k-1}.q) makes `ResolvePortRefs.follow`
(a recursive closure) overflow the Python stack: RecursionError instead of the (single-net) design.
"""
import os, sys; sys.path.insert(0, os.getcwd())
import hdl21 as h


@h.module
class Inner:
    p = h.Port()
    q = h.Port()


n = 1200
m = h.Module(name="Chain")
m.s = h.Signal()
prev = m.add(Inner(p=m.s, q=m.s), name="i0")
for k in range(1, n):
    prev = m.add(Inner(p=m.s, q=prev.q), name=f"i{k}")
try:
    pkg = h.to_proto(m)
except RecursionError as e:
    print(f"VIOLATION (C04): a {n}-long chain of port references cannot be elaborated: RecursionError: {e}")
    sys.exit(1)
top = [x for x in pkg.modules if x.name.endswith("Chain")][0]
qs = {c.target.sig for i in top.instances for c in i.connections if c.portname == "q"}
if qs != {"s"}:
    print("VIOLATION: wrong connectivity", qs)
    sys.exit(1)
print("ok")
