"""C04 finding 10 (borderline: the history replaces the *Instance*, not just a port connection).

An Instance that was connected to a bundle and then dropped from the Module (its name re-assigned to another Instance,
whose ports are all properly connected) stays registered on the bundle. Bundle flattening then tries to re-connect the
dropped Instance, whose target Module was never elaborated: "Invalid Port Connection to b on Instance ...".
"""
import os, sys; sys.path.insert(0, os.getcwd())
import hdl21 as h


@h.bundle
class B:
    x = h.Signal()
    y = h.Signal()


@h.module
class Old:
    b = B(port=True)
    p = h.Port()


@h.module
class New:
    b = B(port=True)
    p = h.Port()


m = h.Module(name="Top")
m.b = B()
m.s = h.Signal()
m.i = Old(b=m.b, p=m.s)
m.i = New(b=m.b, p=m.s)  # `i` re-assigned; the old instance is gone from the Module

try:
    pkg = h.to_proto(m)
except Exception as e:
    print("VIOLATION (C04): a connection of an Instance that is no longer part of the Module breaks elaboration:")
    print(f"  {type(e).__name__}: {str(e).splitlines()[-1]}")
    sys.exit(1)
top = [x for x in pkg.modules if x.name.endswith("Top")][0]
got = {i.name: {c.portname: c.target.sig for c in i.connections} for i in top.instances}
if got != {"i": {"b_x": "b_x", "b_y": "b_y", "p": "s"}}:
    print("VIOLATION: wrong connectivity", got)
    sys.exit(1)
print("ok")
