"""C04 finding 6: connect-by-call returns the Instance itself; binding that result to a second Module attribute
puts the *same* Instance in the Module twice. It is renamed to the second name, and exported twice under that name:
the netlist contains two identically named instances.

    i1 = Inner(p=s, q=s)
    i2 = i1(q=t)      # re-connect `q` by call ...
"""
import os, sys; sys.path.insert(0, os.getcwd())
import hdl21 as h


@h.module
class Inner:
    p = h.Port()
    q = h.Port()


@h.module
class Top:
    s, t = h.Signals(2)
    i1 = Inner(p=s, q=s)
    i2 = i1(q=t)


try:
    pkg = h.to_proto(Top)
except Exception as e:
    print("rejected:", type(e).__name__, str(e).splitlines()[-1])
    sys.exit(0)
top = [x for x in pkg.modules if x.name.endswith("Top")][0]
names = [i.name for i in top.instances]
if len(names) != len(set(names)):
    print("VIOLATION (C04): after re-connecting by call, the exported module has duplicate instances:", names)
    print("  ", [(i.name, {c.portname: c.target.sig for c in i.connections}) for i in top.instances])
    sys.exit(1)
print("ok", names)
