"""C04 finding 3: connections made by call on an Instance *before* it is multiplied into an InstanceArray
stay registered (on the connected objects) for the throw-away scalar Instance. Replacing them on the array
does not remove that registration, and elaboration then trips over the dead connection.

(a) `2 * Inner(p=i1.q, ...)`, then `arr.p = s` and `i1.q = NoConn()`:
    final mapping arr.p=s, arr.q=s, i1.p=s, i1.q=<no-connect> is valid, but elaboration reports a
    "multiply-connected NoConn" naming the port `p` of an Instance named `None`.
(b) `2 * HasB(b=<bundle of the wrong type>)`, then `arr.b = <right bundle>`:
    elaboration fails with "Connection to non-existent members ... on Instance `None`".
"""
import os, sys; sys.path.insert(0, os.getcwd())
import hdl21 as h


@h.module
class Inner:
    p = h.Port()
    q = h.Port()


@h.bundle
class B:
    x = h.Signal()
    y = h.Signal()


@h.bundle
class B3:
    x = h.Signal()
    y = h.Signal()
    z = h.Signal()


@h.module
class HasB:
    b = B(port=True)
    p = h.Port()


def conns(m):
    pkg = h.to_proto(m)
    top = [x for x in pkg.modules if x.name.endswith(m.name)][0]
    return {i.name: {c.portname: c.target.WhichOneof("stype") == "sig" and c.target.sig for c in i.connections} for i in top.instances}


bad = []

# (a)
m = h.Module(name="TopA")
m.s = h.Signal()
m.i1 = Inner(p=m.s)
m.arr = 2 * Inner(p=m.i1.q, q=m.s)  # connect-by-call, then `*`
m.arr.p = m.s  # the port reference is replaced
m.i1.q = h.NoConn()  # so `i1.q` can be left unconnected
try:
    got = conns(m)
    if got["arr_0"] != {"p": "s", "q": "s"} or got["arr_1"] != {"p": "s", "q": "s"} or got["i1"]["p"] != "s" or got["i1"]["q"] in ("s", False):
        bad.append(f"(a) wrong connectivity {got}")
except Exception as e:
    bad.append(f"(a) valid final mapping rejected: {type(e).__name__}: {str(e).splitlines()[-1][:230]}")

# (b)
m = h.Module(name="TopB")
m.s = h.Signal()
m.b3 = B3()
m.b = B()
m.arr = 2 * HasB(b=m.b3, p=m.s)
m.arr.b = m.b  # replaced by a bundle of the right type
try:
    got = conns(m)
    want = {"b_x": "b_x", "b_y": "b_y", "p": "s"}
    if got != {"arr_0": want, "arr_1": want}:
        bad.append(f"(b) wrong connectivity {got}")
except Exception as e:
    bad.append(f"(b) valid final mapping rejected: {type(e).__name__}: {str(e).splitlines()[-1][:230]}")

if bad:
    print("VIOLATION (C04): connections replaced on an array made by `n * Instance(...)` leave a trace:")
    print("\n".join(bad))
    sys.exit(1)
print("ok")
