"""C04 finding 1: a port reference that was connected and then replaced still takes part in elaboration.

History: i2.p is first (by mistake) tied to the port reference `i1.qq` (no such port), then re-connected to `i1.q`.
The final mapping is complete and valid (i1: p=s, q=t ; i2: p=i1.q -> t, q=t), yet elaboration fails on the replaced reference.
The same happens if the reference was only looked at, e.g. by `hasattr(i1, "qq")`.
"""
import os, sys; sys.path.insert(0, os.getcwd())
import hdl21 as h


def build(variant):
    @h.module
    class Inner:
        p = h.Port()
        q = h.Port()

    m = h.Module(name=f"Top_{variant}")
    m.s, m.t = h.Signal(), h.Signal()
    m.i1 = Inner(p=m.s, q=m.t)
    if variant == "replaced":
        m.i2 = Inner(p=m.i1.qq, q=m.t)  # wrong reference ...
        m.i2.p = m.i1.q  # ... replaced by the right one
    elif variant == "disconnected":
        m.i2 = Inner(p=m.i1.qq, q=m.t)
        m.i2.disconnect("p")
        m.i2.connect("p", m.s)
    else:  # never connected at all, only inspected
        hasattr(m.i1, "qq")
        m.i2 = Inner(p=m.i1.q, q=m.t)
    return m


bad = []
for variant in ("replaced", "disconnected", "hasattr"):
    m = build(variant)
    try:
        pkg = h.to_proto(m)
    except Exception as e:
        bad.append(f"[{variant}] elaboration of a complete, valid final mapping failed: {type(e).__name__}: {str(e).splitlines()[-1]}")
        continue
    top = [x for x in pkg.modules if x.name.endswith(m.name)][0]
    got = {i.name: {c.portname: c.target.sig for c in i.connections} for i in top.instances}
    want_p = "s" if variant == "disconnected" else "t"
    if got != {"i1": {"p": "s", "q": "t"}, "i2": {"p": want_p, "q": "t"}}:
        bad.append(f"[{variant}] wrong connectivity {got}")

if bad:
    print("VIOLATION (C04): a replaced / disconnected port-reference connection leaves a trace:")
    print("\n".join(bad))
    sys.exit(1)
print("ok")
