"""C04 finding 4: connect-by-assignment to a port whose name starts with an underscore is silently dropped.

`Module.add(h.Port(name="_en"))` (or an ExternalModule port list) happily creates such ports, connect-by-call and
`connect()` connect them, and they are exported. But `inst._en = sig` is swallowed by the `key.startswith("_")`
bootstrapping branch of `_Instance.__setattr__`: it just sets a Python attribute. No error is raised, and the
*previous* connection is the one that gets built.
"""
import os, sys; sys.path.insert(0, os.getcwd())
import hdl21 as h

U = h.ExternalModule(name="U", port_list=[h.Port(name="_en"), h.Port(name="q")])()

m = h.Module(name="Top")
m.s, m.t = h.Signal(), h.Signal()
m.i = U(q=m.s, _en=m.s)  # connect-by-call: works
m.i._en = m.t  # connect-by-assignment: the last connection made to `_en`

pkg = h.to_proto(m)
top = [x for x in pkg.modules if x.name.endswith("Top")][0]
got = {i.name: {c.portname: c.target.sig for c in i.connections} for i in top.instances}
if got["i"]["_en"] != "t":
    print("VIOLATION (C04): `i._en = t` was the last connection made to port `_en`, but the built design has")
    print(f"  {got}  (the earlier connection to `s`); no error was raised.")
    sys.exit(1)
print("ok")
