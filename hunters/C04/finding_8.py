"""C04 finding 8: anonymous bundle x port reference x bundle reference.

i1.q is tied to the bundle member `b.x` (a BundleRef); i2's bundle port is re-connected to
`AnonymousBundle(x=i1.q, y=s)`. `ResolvePortRefs` resolves `i1.q` to the (still unresolved) BundleRef, and
`BundleFlattener.flatten_anonymous_bundle` takes `PortRef.resolved` as final: it dies with a bare
`TypeError: Invalid AnonBundle attribute BundleRef(...)`.
Tying `i2.b` to `AnonymousBundle(x=b.x, y=s)` directly (the same nets) works.
"""
import os, sys; sys.path.insert(0, os.getcwd())
import hdl21 as h


@h.bundle
class B:
    x = h.Signal()
    y = h.Signal()


@h.module
class Inner:
    p = h.Port()
    q = h.Port()


@h.module
class HasB:
    b = B(port=True)


m = h.Module(name="Top")
m.b = B()
m.s = h.Signal()
m.i1 = Inner(p=m.s, q=m.b.x)
m.i2 = HasB(b=m.b)
m.i2.b = h.AnonymousBundle(x=m.i1.q, y=m.s)  # re-connect: anonymous bundle replaces bundle

try:
    pkg = h.to_proto(m)
except Exception as e:
    print("VIOLATION (C04): valid final mapping rejected with an undescriptive error:")
    print(f"  {type(e).__name__}: {str(e).splitlines()[-1]}")
    sys.exit(1)
top = [x for x in pkg.modules if x.name.endswith("Top")][0]
got = {i.name: {c.portname: c.target.sig for c in i.connections} for i in top.instances}
if got != {"i1": {"p": "s", "q": "b_x"}, "i2": {"b_x": "b_x", "b_y": "s"}}:
    print("VIOLATION: wrong connectivity", got)
    sys.exit(1)
print("ok")
