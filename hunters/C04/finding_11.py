"""C04 finding 11 (lower confidence - may be read as a feature gap): an InstanceBundle (`h.Pair`) port accepts a `Diff`
only when it is handed the BundleInstance (or an AnonymousBundle) itself. Re-connecting the same port to a *reference*
to a Diff - a sub-bundle reference `outer.d`, or a port reference `inst.d` to a Diff-valued port - is treated as a
scalar connection and elaboration fails, although the final mapping denotes exactly the same nets.
"""
import os, sys; sys.path.insert(0, os.getcwd())
import hdl21 as h


@h.module
class Inner:
    p = h.Port()
    q = h.Port()


@h.bundle
class Outer:
    d = h.Diff()
    z = h.Signal()


@h.module
class HasD:
    d = h.Diff(port=True)
    q = h.Port()


def conns(m):
    pkg = h.to_proto(m)
    top = [x for x in pkg.modules if x.name.endswith(m.name)][0]
    return {i.name: {c.portname: c.target.sig for c in i.connections} for i in top.instances}


bad = []

m = h.Module(name="TopA")
m.s = h.Signal()
m.d = h.Diff()
m.o = Outer()
m.pr = h.Pair(Inner)(p=m.d, q=m.s)
m.pr.p = m.o.d  # a Diff again, this time a sub-bundle of `o`
try:
    got = conns(m)
    if got != {"pr_p": {"p": "o_d_p", "q": "s"}, "pr_n": {"p": "o_d_n", "q": "s"}}:
        bad.append(f"(sub-bundle ref) wrong connectivity {got}")
except Exception as e:
    bad.append(f"(sub-bundle ref) {type(e).__name__}: {str(e).splitlines()[-1][:200]}")

m = h.Module(name="TopB")
m.s = h.Signal()
m.d = h.Diff()
m.hd = HasD(q=m.s)
m.pr = h.Pair(Inner)(p=m.d, q=m.s)
m.pr.p = m.hd.d  # a Diff again, this time the Diff-valued port of `hd`
try:
    got = conns(m)
    if (got["pr_p"]["p"], got["pr_n"]["p"]) != (got["hd"]["d_p"], got["hd"]["d_n"]):
        bad.append(f"(port ref) wrong connectivity {got}")
except Exception as e:
    bad.append(f"(port ref) {type(e).__name__}: {str(e).splitlines()[-1][:200]}")

if bad:
    print("VIOLATION (C04): Pair port re-connected to a reference to a Diff is not built:")
    print("\n".join(bad))
    sys.exit(1)
print("ok")
