"""C04 finding 7: a port reference to a port of an InstanceBundle (e.g. `h.Pair`) is never resolved.

`InstBundleElabPass` replaces the InstanceBundle by scalar Instances before `ResolvePortRefs` runs, and drops the
references the InstanceBundle handed out. Any port tied to `pair.<port>` keeps an unresolved PortRef, and elaboration
dies with "Internal error: PortRef remaining in connection-types check" - both when the referenced port is explicitly
connected, and when it is only "referenced by a connection that is still live".
"""
import os, sys; sys.path.insert(0, os.getcwd())
import hdl21 as h


@h.module
class Inner:
    p = h.Port()
    q = h.Port()


def build(explicit):
    m = h.Module(name=f"Top{int(explicit)}")
    m.d = h.Diff()
    m.s, m.t = h.Signal(), h.Signal()
    m.pr = h.Pair(Inner)(p=m.d)
    if explicit:
        m.pr.q = m.t
    m.i = Inner(p=m.s, q=m.s)
    m.i.q = m.pr.q  # re-connect to a port reference of the instance bundle
    return m


bad = []
for explicit in (True, False):
    m = build(explicit)
    try:
        pkg = h.to_proto(m)
    except Exception as e:
        bad.append(f"explicit={explicit}: {type(e).__name__}: {str(e).splitlines()[-1]}")
        continue
    top = [x for x in pkg.modules if x.name.endswith(m.name)][0]
    got = {i.name: {c.portname: c.target.sig for c in i.connections} for i in top.instances}
    if not (got["i"]["q"] == got["pr_p"]["q"] == got["pr_n"]["q"]) or (explicit and got["i"]["q"] != "t"):
        bad.append(f"explicit={explicit}: wrong connectivity {got}")
if bad:
    print("VIOLATION (C04): final mapping with a port reference to an InstanceBundle port is not built:")
    print("\n".join(bad))
    sys.exit(1)
print("ok")
