"""C04 finding 2: a bundle-member reference that was connected and then replaced still takes part in elaboration.

History: i.p is first tied to `b.typo` (no such member of bundle `B`), then re-connected to `b.x`.
Final mapping is complete and valid, but bundle flattening resolves *every* reference the bundle instance ever handed out.
"""
import os, sys; sys.path.insert(0, os.getcwd())
import hdl21 as h


@h.bundle
class B:
    x = h.Signal()
    y = h.Signal()


@h.module
class Inner:
    p = h.Port()
    q = h.Port()


m = h.Module(name="Top")
m.b = B()
m.s = h.Signal()
m.i = Inner(p=m.b.typo, q=m.s)  # wrong member ...
m.i.p = m.b.x  # ... replaced by a right one

try:
    pkg = h.to_proto(m)
except Exception as e:
    print("VIOLATION (C04): the replaced connection `b.typo` makes elaboration of a valid final mapping fail:")
    print(f"  {type(e).__name__}: {str(e).splitlines()[-1]}")
    sys.exit(1)
top = [x for x in pkg.modules if x.name.endswith("Top")][0]
got = {i.name: {c.portname: c.target.sig for c in i.connections} for i in top.instances}
if got != {"i": {"p": "b_x", "q": "s"}}:
    print("VIOLATION: wrong connectivity", got)
    sys.exit(1)
print("ok")
