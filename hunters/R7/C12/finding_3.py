"""
C12 finding 3 (lower severity): the qualified names of exported Modules are looked up through
`inspect.getmodule(frame)` (hdl21/source_info.py), i.e. through the interpreter-wide cache that maps a source FILE
to the first module NAME it was seen under - not through the module whose code is actually running
(`frame.f_globals["__name__"]`). If anything earlier in the process has imported the same file under another
name (a test collector importing by base name, a script that is also imported as a package member, ...),
every Module the design program defines is exported under that other path: `des.Top` instead of `pk.des.Top`.
The package bytes and all netlists (module names) then differ between processes running the same design program.

Exit code 1 if the exported names depend on the earlier import, 0 otherwise.
"""
import os, sys, subprocess, tempfile, textwrap
WT = os.getcwd()
with tempfile.TemporaryDirectory() as tmp:
    os.makedirs(os.path.join(tmp, "pk"))
    open(os.path.join(tmp, "pk", "__init__.py"), "w").close()
    with open(os.path.join(tmp, "pk", "des.py"), "w") as f:
        f.write("import hdl21 as h\n@h.module\nclass Top:\n    a = h.Port()\n")
    CHILD = textwrap.dedent(f'''
        import os, sys, io; sys.path.insert(0, {WT!r}); sys.path.insert(0, {tmp!r})
        if os.environ.get("PRE") == "1":
            sys.path.append({os.path.join(tmp, "pk")!r})
            import des                      # earlier work: the same file, under its base name
        import hdl21 as h
        # ---- the design program
        from pk.des import Top
        s = io.StringIO(); h.netlist(Top, s, fmt="spice")
        print([m.name for m in h.to_proto(Top).modules]); print(s.getvalue())
    ''')
    def run(pre):
        r = subprocess.run([sys.executable, "-c", CHILD], cwd=WT, env=dict(os.environ, PRE=pre), capture_output=True, text=True)
        if r.returncode: print(r.stderr[-2000:]); raise SystemExit(2)
        return r.stdout
    a, b = run("0"), run("1")
if a != b:
    print("VIOLATION: same design program (`from pk.des import Top; to_proto / netlist`), different output:")
    print("  fresh process        :", a.splitlines()[0])
    print("  after `import des`   :", b.splitlines()[0])
    sys.exit(1)
print("ok: identical"); sys.exit(0)
