"""
C12 finding 2: state leaks between unrelated designs through shared, MUTABLE `Prefixed` defaults.

`Prefixed` is an un-frozen pydantic model, and the library hands one and the same `Prefixed` object to
every parameter set that takes a default:
  * paramclass defaults written as `Prefixed` values (e.g. the sample PDK's `Nmos()` : w = l = 1 * MICRO),
  * the default-size tables of the PDK packages (Sky130 `default_xtor_size`, ... : `compile` puts the table's own
    objects into the parameters of the compiled instances).
The parameter classes are frozen, but `inst.of.params.w.number = ...` is accepted silently - and edits the default
of every later call / compile in the process. An unrelated earlier design whose author tweaked a size that way
changes what the design program exports afterwards.

Exit code 1 if the program's output depends on the unrelated earlier work, 0 otherwise.
"""
import os, sys, subprocess, textwrap
WT = os.getcwd()
PP = os.pathsep.join([os.path.join(WT, "pdks", "Sky130")])
CHILD = textwrap.dedent('''
    import os, sys; sys.path.insert(0, os.getcwd())
    import io
    import hdl21 as h
    import sky130_hdl21
    from hdl21.pdk import sample_pdk

    def build(name):
        m = h.Module(name=name)
        m.d, m.g, m.s, m.b = h.Ports(4)
        m.mn = h.Mos(tp=h.MosType.NMOS)(d=m.d, g=m.g, s=m.s, b=m.b)      # sizes left to the PDK
        return m

    if os.environ.get("PRE") == "1":
        # ---- unrelated earlier work: somebody else's design, sized after the fact
        other = build("Other")
        sky130_hdl21.compile(other)
        other.mn.of.params.w.number *= 2                   # "make this one twice as wide"
        other2 = h.Module(name="Other2")
        other2.d, other2.g, other2.s, other2.b = h.Ports(4)
        other2.mn = sample_pdk.Nmos()(d=other2.d, g=other2.g, s=other2.s, b=other2.b)
        other2.mn.of.params.l.number *= 3
        h.to_proto([other, other2])

    # ---- the design program
    mine = build("Mine")
    sky130_hdl21.compile(mine)
    mine2 = h.Module(name="Mine2")
    mine2.d, mine2.g, mine2.s, mine2.b = h.Ports(4)
    mine2.mn = sample_pdk.Nmos()(d=mine2.d, g=mine2.g, s=mine2.s, b=mine2.b)
    s = io.StringIO()
    h.netlist([mine, mine2], s, fmt="spice")
    print(s.getvalue())
''')
def run(pre):
    env = dict(os.environ, PRE=pre, PYTHONPATH=PP + os.pathsep + os.environ.get("PYTHONPATH", ""))
    r = subprocess.run([sys.executable, "-c", CHILD], cwd=WT, env=env, capture_output=True, text=True)
    if r.returncode:
        print(r.stderr[-2000:]); raise SystemExit(2)
    return r.stdout
a, b = run("0"), run("1")
if a != b:
    import difflib
    print("VIOLATION: the netlist of the design program differs after unrelated earlier work")
    print("(an earlier design edited the `Prefixed` sizes of ITS devices in place; they are the library's shared defaults):")
    for line in difflib.unified_diff(a.splitlines(), b.splitlines(), "fresh process", "after unrelated work", lineterm="", n=0):
        print("   ", line)
    sys.exit(1)
print("ok: identical")
sys.exit(0)
