"""
C12 finding 1: unordered collections are silently accepted where hdl21 keeps an ORDERED field
(pydantic's lax validation turns a `set` / `frozenset` into a list / tuple in iteration order).
Iteration order of a set of strings depends on PYTHONHASHSEED; that of a set of Signals (hashed by id)
on the allocation history. So the SAME design program exports different packages / netlists in
different processes:

  (a) ExternalModule(port_list={...})     -> declared port order, i.e. the pin order of every instance line
  (b) paramclass field Tuple[str, ...]     -> the md5 name of the generated module (the route the repair
                                              0d803d7 for set-valued parameters has missed)
  (c) Series(conns={"p", "n"})             -> which end of the series stack is which (connectivity)
  (d) h.sim.Save({...})                    -> order of saved signals in the SimInput

Exit code 1 (and an explanation) if any of the outputs differs between processes, 0 otherwise.
"""
import os, sys, subprocess, textwrap

WT = os.getcwd()
CHILD = textwrap.dedent('''
    import os, sys; sys.path.insert(0, os.getcwd())
    import random
    _junk = [object() for _ in range(int(os.environ.get("JUNK", "0")))]   # unrelated allocation
    import io, hashlib
    from typing import Tuple
    import hdl21 as h
    import hdl21.sim as hs
    from hdl21.generators import Series

    # (a) an external module whose ports are given as a set
    E = h.ExternalModule(name="E", domain="ext",
        port_list={h.Port(name="a"), h.Port(name="b"), h.Port(name="c"), h.Port(name="d")})

    # (b) a generator with a tuple-typed parameter, called with a set
    @h.paramclass
    class P:
        tags = h.Param(dtype=Tuple[str, ...], desc="tags", default=())
    @h.generator
    def G(p: P) -> h.Module:
        m = h.Module()
        m.x = h.Port()
        return m

    @h.module
    class Top:
        a, b, c, d = h.Signals(4)
        e = E()(a=a, b=b, c=c, d=d)
        g = G(tags={"alpha", "beta", "gamma", "delta"})(x=a)
        # (c) series ports given as a set
        s = Series(unit=h.R(r=1 * h.prefix.K), conns={"p", "n"}, nser=2)(p=a, n=b)

    pkg = h.to_proto(Top)
    print("PKG", hashlib.md5(pkg.SerializeToString(deterministic=True)).hexdigest())
    print("EXT-PORTS", [p.signal for p in pkg.ext_modules[0].ports])
    print("GEN-NAMES", sorted(m.name for m in pkg.modules))
    ser = [m for m in pkg.modules if "Series" in m.name][0]
    print("SERIES", str(ser.instances[0].connections).replace("\\n", " "))
    s = io.StringIO(); h.netlist(pkg, s, fmt="spice"); print("SPICE", hashlib.md5(s.getvalue().encode()).hexdigest())
    line = [l for l in s.getvalue().splitlines() if l.startswith("xe") or l.startswith("+ a") or l.startswith("+ b") or l.startswith("+ c") or l.startswith("+ d")]
    # (d) Save targets given as a set
    @h.module
    class Tb:
        VSS = h.Port()
        a, b, c, dd = h.Signals(4)
        r1 = h.R(r=1 * h.prefix.K)(p=a, n=b); r2 = h.R(r=1 * h.prefix.K)(p=c, n=dd); r3 = h.R(r=1 * h.prefix.K)(p=a, n=VSS)
    sim = hs.Sim(tb=Tb, attrs=[hs.Op(), hs.Save({"a", "b", "c", "dd"})])
    print("SAVE", hs.to_proto(sim).ctrls[0].save.signal)
''')

def run(seed, junk):
    env = dict(os.environ, PYTHONHASHSEED=str(seed), JUNK=str(junk))
    r = subprocess.run([sys.executable, "-c", CHILD], cwd=WT, env=env, capture_output=True, text=True)
    if r.returncode:
        print(r.stderr[-2000:]); raise SystemExit(2)
    return dict(l.split(" ", 1) for l in r.stdout.splitlines() if " " in l)

runs = [run(seed, junk) for seed, junk in [(0, 0), (1, 0), (2, 1000), (3, 12345), (4, 7), (5, 100000)]]
bad = False
for key in runs[0]:
    vals = sorted({r[key] for r in runs})
    if len(vals) > 1:
        bad = True
        print(f"VIOLATION ({key}): {len(vals)} different results over 6 processes running the same program, e.g.")
        for v in vals[:3]: print("     ", v[:200])
if bad:
    print("\nProperty C12 demands byte-identical packages and character-identical netlists in every process;")
    print("a set given for an ordered field (port_list, Tuple parameter, Series conns, Save targets) is accepted")
    print("silently and ordered by hash / address.")
    sys.exit(1)
print("ok: all outputs identical")
sys.exit(0)
