"""C19 finding 2: in the exported package, Wrapper(m) / Series(m) do NOT expose exactly m's ports when m has a
bundle-valued port one of whose flattened names (`<port>_<member>`) is taken inside m by an internal signal or instance.
m's own port is then exported under a mangled name (`b_x_`), the wrapper's under the plain one (`b_x`):
the wrapper's port `b_x` is wired to the inner instance's port `b_x_`.

Property: "Wrapper(m) exposes exactly m's ports - signal and bundle valued - each wired to the same-named port of its
single inner instance"; Series: "every other unit port is wired in parallel to the same-named module port".
Exit 1 when the violation occurs."""
import os, sys; sys.path.insert(0, os.getcwd())
import hdl21 as h
from hdl21.generators import Series, Wrapper


@h.bundle
class B:
    x = h.Signal()
    y = h.Signal()


def unit(name):
    m = h.Module(name=name)
    m.a, m.c = h.Ports(2)
    m.b = B(port=True)
    m.b_x = h.Signal()  # an internal net which happens to be called like the flattened member `b.x`
    m.r1 = h.R(r=1)(p=m.a, n=m.b_x)
    m.r2 = h.R(r=1)(p=m.b_x, n=m.b.x)
    m.r3 = h.R(r=1)(p=m.c, n=m.b.y)
    return m


bad = False
for label, make in [
    ("Wrapper", lambda u: Wrapper(u)),
    ("Series nser=1", lambda u: Series(unit=u, conns=("a", "c"), nser=1)),
    ("Series nser=3", lambda u: Series(unit=u, conns=("a", "c"), nser=3)),
]:
    u = unit("U_" + label.replace(" ", "_").replace("=", ""))
    g = make(u)
    pkg = h.to_proto(g)
    pu = next(m for m in pkg.modules if m.name.endswith(u.name))
    pg = pkg.modules[-1]
    uports = [p.signal for p in pu.ports]
    gports = [p.signal for p in pg.ports]
    print(f"{label}: unit ports {uports}; generated module ports {gports}")
    if sorted(uports) != sorted(gports):
        bad = True
        print(f"  VIOLATION: the generated module does not expose exactly the unit's ports")
    for inst in pg.instances:
        for c in inst.connections:
            if c.portname not in ("a", "c") and c.target.sig != c.portname:
                bad = True
                print(f"  VIOLATION: {inst.name}.{c.portname} is wired to module port `{c.target.sig}`, not to the same-named port")
sys.exit(1 if bad else 0)
