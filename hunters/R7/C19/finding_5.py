"""C19 finding 5 (what the copied ports carry): (a) a bundle-valued port copied by Wrapper / Series loses its
properties, while signal-valued ports keep theirs (the repair "copies of ports keep their usage, properties and related
signals" covered `Signal.__copy__` only; `BundleInstance.__copy__` still drops `props`); (b) the related clock / power /
ground of a copied port is the *unit's* signal, not the generated module's own same-named port - the wrapper's port is
"related" to a signal of another module.

Property: "Wrapper(m) exposes exactly m's ports - signal and bundle valued".
Exit 1 when the violation occurs."""
import os, sys; sys.path.insert(0, os.getcwd())
import hdl21 as h
from hdl21.generators import Series, Wrapper


@h.bundle
class B:
    x = h.Signal()


u = h.Module(name="U")
u.VDD = h.Power()
u.VSS = h.Ground()
u.a = h.Input(related_pwr=u.VDD, related_gnd=u.VSS)
u.b = h.Output(related_pwr=u.VDD, related_gnd=u.VSS)
u.a.props["k"] = 1
u.bb = B(port=True, desc="bundle port")
u.bb.props["k"] = 1

bad = False
for label, g in [("Wrapper", Wrapper(u)), ("Series nser=2", Series(unit=u, conns=("a", "b"), nser=2))]:
    print(f"{label}: a.props={g.a.props} bb.props={g.bb.props} (unit: {u.bb.props}), bb.desc={g.bb.desc!r}")
    if g.a.props.get("k") == 1 and g.bb.props.get("k") != 1:
        bad = True
        print("  VIOLATION (a): the signal port kept its properties, the bundle port lost them")
    rp = g.a.related_pwr
    print(f"  a.related_pwr is the generated module's own VDD: {rp is g.VDD}; is the unit's VDD: {rp is u.VDD}")
    if rp is not None and rp is not g.VDD:
        bad = True
        print("  VIOLATION (b): port `a` of the generated module is related to a signal of another module (the unit)")
sys.exit(1 if bad else 0)
