"""C19 finding 4 (state shared between a unit and everything generated from it): the ports which Wrapper / Series /
MosStack copy from the unit share the unit port's property table. `Signal.__copy__` does `props=copy(self.props)`, a
shallow copy of the `Properties` wrapper whose `inner` dict stays shared - so annotating a port of one generated module
annotates the unit's port, and the ports of every other module generated from that unit (before or afterwards).
(The list of known defects says "Signal.__copy__ shares the inner props dict (repaired since)"; at this HEAD it still does.)

Property: "Wrapper(m) exposes exactly m's ports ..." - as ports of its own, not aliases of m's.
Exit 1 when the violation occurs."""
import os, sys; sys.path.insert(0, os.getcwd())
import hdl21 as h
from hdl21.generators import Series, Wrapper

u = h.Module(name="U")
u.a, u.b, u.g = h.Ports(3)
u.g.props["layer"] = "met1"

w1 = Wrapper(u)
s3 = Series(unit=u, conns=("a", "b"), nser=3)
w1.g.props["layer"] = "met5"      # annotate the wrapper's port only
w1.g.props["note"] = "wrapper only"
w2 = Wrapper(u)                   # a later call

print("unit      g.props:", u.g.props)
print("Series(3) g.props:", s3.g.props)
print("2nd wrap  g.props:", w2.g.props)
bad = False
if u.g.props["layer"] != "met1" or "note" in u.g.props:
    print("VIOLATION: editing a property of the Wrapper's port edited the unit's port")
    bad = True
if s3.g.props["layer"] != "met1" or "note" in s3.g.props:
    print("VIOLATION: ... and the port of a Series module generated earlier from the same unit")
    bad = True
if w2.g.props["layer"] != "met1" or "note" in w2.g.props:
    print("VIOLATION: ... and a Wrapper made afterwards starts out with the edited values")
    bad = True

# The same through a library primitive, whose port objects are module-level state of hdl21.primitives:
from hdl21.generators import MosStack
st = MosStack(unit=h.Nmos(), nser=2)
st.d.props["seen"] = "stack"
leaked = h.primitives.Mos.ports["d"].props
fresh = Wrapper(h.Pmos(w=1)).d.props
print("h.primitives.Mos port d props:", leaked, "| a fresh Wrapper(h.Pmos(w=1)).d.props:", fresh)
if "seen" in leaked or "seen" in fresh:
    print("VIOLATION: annotating port `d` of one MosStack annotated the library's Mos primitive, and every later copy of it")
    bad = True
sys.exit(1 if bad else 0)
