"""C19 finding 1: Series accepts an UNORDERED set as its (ordered) series pair `conns`;
which port becomes the "first" series port then depends on the string-hash seed of the process.

Property: "...all ordered pairs of distinct unit ports as the series pair..."; "unit 0's first series port and
unit n-1's second series port are the module's two series ports".
Run with cwd = the worktree. Exit 1 when the violation occurs."""
import os, sys; sys.path.insert(0, os.getcwd())
import subprocess

CHILD = r'''
import os, sys; sys.path.insert(0, os.getcwd())
import hdl21 as h
from hdl21.generators import Series
try:
    m = Series(unit=h.Mos(), conns={"d", "s"}, nser=2)   # a set: no order
except Exception as e:
    print("REJECTED", type(e).__name__); sys.exit(0)
pkg = h.to_proto(m)
top = pkg.modules[-1]
u0 = {c.portname: c.target.sig for c in top.instances[0].connections}
# which port of unit 0 is tied to the module's own same-named port?
print("ACCEPTED", "d-first" if u0["d"] == "d" else "s-first", top.name)
'''
results = {}
for seed in range(8):
    env = dict(os.environ, PYTHONHASHSEED=str(seed))
    out = subprocess.run([sys.executable, "-c", CHILD], env=env, cwd=os.getcwd(), capture_output=True, text=True)
    results[seed] = out.stdout.strip() or out.stderr.strip()[-200:]
for k, v in results.items():
    print(f"PYTHONHASHSEED={k}: {v}")
accepted = [v for v in results.values() if v.startswith("ACCEPTED")]
orients = set(v.split()[1] for v in accepted)
if accepted:
    print("\nVIOLATION: Series(conns={'d','s'}) is accepted although a set is not an ordered pair.")
    if len(orients) > 1:
        print("The stack's orientation (and the generated module's name) differs from process to process:", orients)
    sys.exit(1)
print("ok: set-valued conns are refused")
sys.exit(0)
