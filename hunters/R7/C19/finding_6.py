"""C19 finding 6 (generators x caching, history dependence; naming + value form only - the topology is right):
unit cells whose parameters are equal but written differently (1, 1.0, True in a dict-parametrized ExternalModule)
are ONE cached Series / MosStack call - but the name of the generated module, and the form in which the unit's
parameter is exported, are those of whichever spelling was used FIRST in the process.
(Sibling of the repaired 0.0 / -0.0 and zero-Prefixed cases.)
Runs three child processes with different call orders. Exit 1 when the results depend on the order."""
import os, sys; sys.path.insert(0, os.getcwd())
import subprocess

CHILD = r'''
import os, sys; sys.path.insert(0, os.getcwd())
import hdl21 as h
from hdl21.generators import MosStack
Y = h.ExternalModule(name="Y", port_list=[h.Port(name="d"), h.Port(name="s")], paramtype=dict, domain="q")
vals = {"1": 1, "1.0": 1.0, "True": True}
res = {}
for key in sys.argv[1:]:
    m = MosStack(unit=Y({"a": vals[key]}), nser=2)
    pkg = h.to_proto(m)
    p = pkg.modules[-1].instances[0].parameters[0]
    res[key] = (m.name, p.value.WhichOneof("value"))
for key in sorted(res):
    print(key, res[key][0], res[key][1])
'''
outs = []
for order in (["1", "1.0", "True"], ["1.0", "True", "1"], ["True", "1", "1.0"]):
    out = subprocess.run([sys.executable, "-c", CHILD] + order, cwd=os.getcwd(), capture_output=True, text=True)
    print("call order", order); print(out.stdout or out.stderr[-300:])
    outs.append(out.stdout)
if len(set(outs)) > 1:
    print("VIOLATION: MosStack(unit=Y({'a': 1.0}), nser=2) has a different module name / exported parameter form depending on earlier calls")
    sys.exit(1)
sys.exit(0)
