"""C19 finding 3: a unit port whose visibility was set by attribute after it was added (`m.c.vis = INTERNAL`) is still
a port of m everywhere (m.ports, the exported package) - but Wrapper / Series copy it as an internal signal:
the generated module silently loses port `c`, and the inner instances' `c` ports dangle together on a private net.

Property: "Wrapper(m) exposes exactly m's ports ... each wired to the same-named port of its single inner instance";
Series: "every other unit port is wired in parallel to the same-named module port".
(A cousin of the on-record plain-attribute edits, but of a Module nobody has elaborated yet, and before any generator call.)
Exit 1 when the violation occurs."""
import os, sys; sys.path.insert(0, os.getcwd())
import hdl21 as h
from hdl21.generators import Series, Wrapper


def unit(name):
    m = h.Module(name=name)
    m.a, m.b, m.c = h.Ports(3)
    m.r1 = h.R(r=1)(p=m.a, n=m.c)
    m.r2 = h.R(r=1)(p=m.b, n=m.c)
    m.c.vis = h.Visibility.INTERNAL  # attribute edit after the port has been filed under `m.ports`
    return m


bad = False
for label, make in [("Wrapper", lambda u: Wrapper(u)), ("Series nser=2", lambda u: Series(unit=u, conns=("a", "b"), nser=2))]:
    u = unit("V_" + label.split()[0])
    assert "c" in u.ports
    try:
        pkg = h.to_proto(make(u))
    except Exception as e:
        print(label, "refused loudly:", type(e).__name__)
        continue
    pu = next(m for m in pkg.modules if m.name.endswith(u.name))
    pg = pkg.modules[-1]
    uports = [p.signal for p in pu.ports]
    gports = [p.signal for p in pg.ports]
    print(f"{label}: unit exported with ports {uports}; generated module with ports {gports}")
    if sorted(uports) != sorted(gports):
        bad = True
        print("  VIOLATION: generated module lacks unit port(s)", sorted(set(uports) - set(gports)),
              "- connected inside to an internal net instead")
sys.exit(1 if bad else 0)
