"""
C07 finding 1 - Signals of an elaborated Module: `width` and `name` edits are exported unchecked.

Clauses violated: "The package exported for a design is a function of the design alone: it is the same whether its
sub-modules were elaborated or exported earlier ... or never"; "[an elaborated module] refuses further additions"
(widening a port adds bits to it).

History:   h.elaborate(C)  (or h.to_proto(C), or as part of any parent);  C.p.width = 2  /  C.p.name = "q";  h.to_proto(P)
Observed:  exported. (a) C.p is 2 bits wide and tied to the 1-bit terminal of a resistor; (b) C declares ports
           ['q', 'q'] / signals ['q', 'q'] while its parent connects port 'p'.
Demanded:  what happens WITHOUT the first call: the identical statements are refused
           ("width mismatch: 1 != 2" by ConnTypes; "was re-named `q` after being added ... as `p`" by Orphanage).
           I.e. the edit must be refused (as `C.add(...)` and `C.r.connect(...)` are) or be checked again.

Responsible (guess): hdl21/signal.py:Signal is a plain, non-validating dataclass with no notion of its Module being
closed; hdl21/elab/passes/base.py:ElabPass.elaborate_module_base returns early for modules in CLASS_LEVEL_CACHE.done,
so ConnTypes / Orphanage never see the edit; hdl21/proto/exporting.py:ProtoExporter.export_module exports name / width
as found. Unrepaired sibling of a309854 (connections of an elaborated module can no longer be edited) and 9225655.
Same mechanism, not scripted: `vis` / `direction` of ports; ExternalModule.port_list.append(...) after a user of it
was elaborated.
"""
import os, sys; sys.path.insert(0, os.getcwd())
import hdl21 as h


def design():
    @h.module
    class C:
        p = h.Port()
        q = h.Port()
        r = h.R(r=1)(p=p, n=q)

    @h.module
    class P:
        s = h.Signal(width=2)
        t = h.Signal()
        c = C(p=s, q=t)

    return C, P


def attempt(f):
    try:
        return ("exported", f())
    except Exception as e:
        return ("refused", type(e).__name__ + ": " + str(e).strip().splitlines()[-1][:160])


bad = []

# (a) width ---------------------------------------------------------------------------------------------
C, P = design()
C.p.width = 2  # edit first, elaborate afterwards
fresh = attempt(lambda: h.to_proto(P))

C, P = design()
h.elaborate(C)  # history: the sub-module was elaborated (or exported) earlier
C.p.width = 2  # the same edit
hist = attempt(lambda: h.to_proto(P))
print("(a) width edit, no history :", fresh[0], fresh[1] if fresh[0] == "refused" else "")
print("(a) width edit, C elaborated before:", hist[0])
if fresh[0] != hist[0]:
    pkg = hist[1]
    cmod = [m for m in pkg.modules if m.name.endswith(".C")][0]
    w = {s.name: s.width for s in cmod.signals}
    print("    exported module C has signal widths", w, "with `p` tied to the 1-bit terminal `p` of a resistor")
    bad.append("width")

# (b) name ----------------------------------------------------------------------------------------------
C, P = design()
P.s.width = 1
C.p.name = "q"
fresh = attempt(lambda: h.to_proto(P))

C, P = design()
P.s.width = 1
h.to_proto(C)
C.p.name = "q"
hist = attempt(lambda: h.to_proto(P))
print("(b) port re-named, no history :", fresh[0], fresh[1] if fresh[0] == "refused" else "")
print("(b) port re-named, C exported before:", hist[0])
if fresh[0] != hist[0]:
    pkg = hist[1]
    cmod = [m for m in pkg.modules if m.name.endswith(".C")][0]
    pmod = [m for m in pkg.modules if m.name.endswith(".P")][0]
    print("    exported module C declares ports", [p.signal for p in cmod.ports], "and signals", [s.name for s in cmod.signals])
    print("    while P connects its instance to ports", [c.portname for c in pmod.instances[0].connections])
    bad.append("name")

if bad:
    print("VIOLATION: edits of", bad, "after elaboration are accepted and exported unchecked; the same design is refused without the history")
    sys.exit(1)
print("no violation")
sys.exit(0)
