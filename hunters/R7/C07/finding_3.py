"""
C07 finding 3 - an elaborated Module accepts additions through its `literals` list.

Clauses violated: "An already elaborated module ... refuses further additions"; "elaborating or exporting again
changes nothing".

`Module.literals` is a plain list; appending to it is the only (documented, tested) way to give a Module a Literal.
History:   h.to_proto(Top)  (elaborates and exports Leaf as a sub-module);  Leaf.literals.append(h.Literal(...));  h.to_proto(Top)
Observed:  the addition is accepted, and the second export of the same objects differs from the first.
           (`Leaf.add(h.Signal(...))` at the same point is refused: "Cannot add ... after elaboration.")
Demanded:  refusal, like every other addition.

Responsible (guess): hdl21/module.py:Module.__init__ (`self.literals: List[Literal] = list()`), not covered by
`_assert_addable`; exported by hdl21/proto/exporting.py:ProtoExporter.export_module.
"""
import os, sys; sys.path.insert(0, os.getcwd())
import hdl21 as h


@h.module
class Leaf:
    p = h.Port()


@h.module
class Top:
    s = h.Signal()
    l = Leaf(p=s)


first = h.to_proto(Top)  # elaborates and exports Leaf as part of a parent
added = None
try:
    Leaf.add(h.Signal(name="extra"))
    added = "Signal accepted (!)"
except RuntimeError as e:
    added = "Signal refused: " + str(e)
print("Leaf.add(Signal) after elaboration ->", added)

try:
    Leaf.literals.append(h.Literal("generate_something_else"))
    lit = "accepted"
except Exception as e:
    lit = "refused"
print("Leaf.literals.append(Literal) after elaboration ->", lit)

second = h.to_proto(Top)
l1 = [list(m.literals) for m in first.modules if m.name.endswith(".Leaf")][0]
l2 = [list(m.literals) for m in second.modules if m.name.endswith(".Leaf")][0]
print("literals of Leaf in the first export :", l1)
print("literals of Leaf in the second export:", l2)
if lit == "accepted" and first != second:
    print("VIOLATION: the elaborated (and exported) module accepted an addition, and exporting again gave another package")
    sys.exit(1)
print("no violation")
sys.exit(0)
