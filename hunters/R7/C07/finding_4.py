"""
C07 finding 4 - Slices (and Concats) connected in an elaborated Module follow later edits of their `index` / `parts`
into the exported package, past every (cached) check.

Clauses violated: "The package exported for a design is a function of the design alone ... whether its sub-modules were
elaborated or exported earlier ... or never"; "elaborating or exporting again changes nothing".

SliceResolver leaves a Slice that needs no rewriting in `inst.conns` as the very object the designer holds, and a Slice
re-resolves its bounds whenever its index changes (d30da3c / c8bd03a).
History:   sl = m.w[0:2]; m.i = Two(a=sl);  h.to_proto(m)  -> a = w[1:0];   sl.index = slice(0, 3);  h.to_proto(m) -> a = w[2:0]
Observed:  3 bits exported on the 2-bit port `a`.
Demanded:  what happens WITHOUT the first export: "width mismatch: 2 != 3".
(A Concat behaves alike through the resolved object in `inst.conns['a']`: `c.parts = c.parts + (sig,)`.)

Responsible (guess): hdl21/slice.py:_get_inner (follows edits; no closed state); hdl21/concat.py:Concat
(`only_set_known_attrs` lets `parts` be re-assigned); hdl21/elab/passes/base.py:elaborate_module_base (done-cache).
"""
import os, sys; sys.path.insert(0, os.getcwd())
import hdl21 as h


def design():
    @h.module
    class Two:
        a = h.Port(width=2)

    m = h.Module(name="M")
    m.w = h.Signal(width=4)
    sl = m.w[0:2]
    m.i = Two(a=sl)
    return m, sl


def attempt(f):
    try:
        return ("exported", f())
    except Exception as e:
        return ("refused", type(e).__name__ + ": " + str(e).strip().splitlines()[-1][:160])


m, sl = design()
sl.index = slice(0, 3)
fresh = attempt(lambda: h.to_proto(m))

m, sl = design()
before = h.to_proto(m)
sl.index = slice(0, 3)
hist = attempt(lambda: h.to_proto(m))

print("edit before any elaboration:", fresh)
print("edit after an export       :", hist[0])
if hist[0] == "exported":
    def conn(pkg):
        mm = [x for x in pkg.modules if x.name.endswith(".M")][0]
        s = mm.instances[0].connections[0].target.slice
        return f"{s.signal}[{s.top}:{s.bot}]"
    print("   connection of i.a (2 bits wide) in the first export :", conn(before))
    print("   connection of i.a (2 bits wide) in the second export:", conn(hist[1]))
    if fresh[0] == "refused" and before != hist[1]:
        print("VIOLATION: an edit after elaboration is exported unchecked; the same design is refused without the history")
        sys.exit(1)
print("no violation")
sys.exit(0)
