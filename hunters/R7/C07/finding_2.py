"""
C07 finding 2 - Instances of an elaborated Module can be re-targeted (`inst.of = ...`) and re-named (`inst.name = ...`)
by plain attribute assignment; the result is exported unchecked.

Clauses violated: "The package exported for a design is a function of the design alone ... whether its sub-modules were
elaborated or exported earlier ... or never"; "elaborating or exporting again changes nothing".

History:   h.elaborate(M);  M.r1.of = Three;  M.r2.name = "r1";  h.to_proto(M)
Observed:  exported: instance r1 of `Three` (ports a, b, c) with connections p, n; two instances named r1.
           (Variation, checked by hand: if the new target was never elaborated it is exported raw - its instance arrays
           are silently dropped - because the done-cache also skips the walk over M's instance targets.)
Demanded:  what happens WITHOUT the first call: both edits are refused ("Missing connection to Port `a` ...",
           "... was re-named `r1` after being added ... as `r2`"). `M.r1.connect(...)` after elaboration IS refused.

Responsible (guess): hdl21/instance.py:_Instance.__setattr__ - `of` and `name` are in `_specialcases` and written with
object.__setattr__, bypassing `_check_editable` which a309854 added to connect / replace / disconnect;
hdl21/elab/passes/base.py:ElabPass.elaborate_module_base (done-cache short-circuit).
(HierarchyWalker.visit_instance relies on assigning `inst.of` of elaborated modules, so a repair must tell the two apart.)
Same family, not scripted: `inst.conns[...] = sig` on the public connections dict; `arr.n = k` on an array of a
module whose elaboration began and failed in a parent.
"""
import os, sys; sys.path.insert(0, os.getcwd())
import hdl21 as h


def design():
    @h.module
    class Three:
        a = h.Port()
        b = h.Port()
        c = h.Port()

    @h.module
    class M:
        p = h.Port()
        q = h.Port()
        r1 = h.R(r=1)(p=p, n=q)
        r2 = h.R(r=2)(p=p, n=q)

    return Three, M


def attempt(f):
    try:
        return ("exported", f())
    except Exception as e:
        return ("refused", type(e).__name__ + ": " + str(e).strip().splitlines()[-1][:140])


bad = []

# (a) re-target
Three, M = design()
M.r1.of = Three
fresh = attempt(lambda: h.to_proto(M))
Three, M = design()
h.elaborate(M)
M.r1.of = Three
hist = attempt(lambda: h.to_proto(M))
print("(a) r1.of = Three, no history       :", fresh)
print("(a) r1.of = Three, after elaboration:", hist[0])
if hist[0] == "exported" and fresh[0] == "refused":
    m = [m for m in hist[1].modules if m.name.endswith(".M")][0]
    i = m.instances[0]
    print("    exported: instance", i.name, "of", i.module.local, "connects ports", [c.portname for c in i.connections], "- Three has ports a, b, c")
    bad.append("of")

# (b) re-name onto a sibling's name
Three, M = design()
M.r2.name = "r1"
fresh = attempt(lambda: h.to_proto(M))
Three, M = design()
h.elaborate(M)
M.r2.name = "r1"
hist = attempt(lambda: h.to_proto(M))
print("(b) r2.name = 'r1', no history       :", fresh)
print("(b) r2.name = 'r1', after elaboration:", hist[0])
if hist[0] == "exported" and fresh[0] == "refused":
    m = [m for m in hist[1].modules if m.name.endswith(".M")][0]
    print("    exported module M has instances named", [i.name for i in m.instances])
    bad.append("name")

# (c) and the guarded route, for comparison
Three, M = design()
h.elaborate(M)
print("(c) for comparison, r1.connect('p', M.q) after elaboration:", attempt(lambda: M.r1.connect("p", M.q))[0])

if bad:
    print("VIOLATION: Instance fields", bad, "edited after elaboration are exported unchecked")
    sys.exit(1)
print("no violation")
sys.exit(0)
