"""C11 finding 3 (a repair reached by another route: attribute instead of constructor).
`ExternalModule(domain="hdl21.primitives")` is refused (repair f371c4e), but `emod.domain = "hdl21.primitives"` is not:
to_proto silently produces a package which DECLARES an external module in the primitives' reserved domain and
instantiates it with parameters of its own. Such a package cannot survive a round trip: from_proto refuses it
(and any reader that resolves `hdl21.primitives.Mos` by name, as from_proto does for instances, takes the built-in Mos).
Run with cwd = the worktree. Exit 1 = violation observed."""
import os, sys; sys.path.insert(0, os.getcwd())
import hdl21 as h

ports = lambda: [h.Port(name="d"), h.Port(name="g"), h.Port(name="s"), h.Port(name="b")]
try:
    h.ExternalModule(name="Mos", domain="hdl21.primitives", port_list=ports(), paramtype=dict)
    print("constructor route: accepted (!)")
except Exception as e:
    print("constructor route: refused -", str(e).splitlines()[1].strip()[:110])

e = h.ExternalModule(name="Mos", domain="mine", port_list=ports(), paramtype=dict)
e.domain = "hdl21.primitives"  # attribute route
m = h.Module(name="Uses")
m.s = h.Signal(width=4)
m.i = e(fins=3)(d=m.s[0], g=m.s[1], s=m.s[2], b=m.s[3])

P = h.to_proto(m)  # accepted, silently
decl = [(x.name.domain, x.name.name) for x in P.ext_modules]
print("attribute route: to_proto accepted; external modules declared by P:", decl)
bad = ("hdl21.primitives", "Mos") in decl
try:
    ns = h.from_proto(P)
    P2 = h.to_proto(ns.__main__.Uses)
    print("round trip equal:", P2 == P)
    bad = bad and P2 != P
except Exception as ex:
    print("from_proto(P) raises:", type(ex).__name__, str(ex).splitlines()[1].strip()[:110])
if bad:
    print("VIOLATION: a package produced by to_proto does not survive the round trip; the ill-formed input was accepted")
sys.exit(1 if bad else 0)
