"""C11 finding 2: the namespace returned by from_proto silently loses entries, so "the imported top-level modules"
(and the package's domain) cannot be taken from it for the re-export:
 (a) a Module called `name` (qualified name `name`, e.g. defined in a notebook cell / exec / `python -c`) replaces the
     namespace's own `name` attribute, which is documented to hold the package domain;
 (b) a Module whose qualified name equals the path of a namespace created earlier for one of its sub-modules
     (Python package `pk` defining Module `amp`, Python module `pk.amp` defining Module `X` - no dotted Module names)
     silently replaces that namespace: `pk.amp.X`, a module of P, is no longer reachable. (In the opposite order the
     importer raises "Invalid namespace path ... overwriting"; in this order it says nothing.)
Run with cwd = the worktree. Exit 1 = violation observed."""
import os, sys, tempfile, textwrap; sys.path.insert(0, os.getcwd())
import hdl21 as h

bad = False

# (a) ---------------------------------------------------------------
g = {}
exec(textwrap.dedent("""
    import hdl21 as h
    m = h.Module(name="name")
    m.add(h.Signal(name="s"))
"""), g)
P = h.to_proto(g["m"], domain="mydomain")
ns = h.from_proto(P)
print("(a) modules of P:", [m.name for m in P.modules], " P.domain:", repr(P.domain))
print("(a) from_proto(P).name =", repr(ns.name))
if ns.name != P.domain:
    bad = True
    print("(a) VIOLATION: the namespace no longer carries the domain of P, so a re-export cannot reproduce P.domain")

# (b) ---------------------------------------------------------------
d = tempfile.mkdtemp()
os.makedirs(os.path.join(d, "pk_c11"))
open(os.path.join(d, "pk_c11", "amp.py"), "w").write(textwrap.dedent("""
    import hdl21 as h
    @h.module
    class X:
        p = h.Port()
"""))
open(os.path.join(d, "pk_c11", "__init__.py"), "w").write(textwrap.dedent("""
    import hdl21 as h
    from .amp import X
    amp = h.Module(name="amp")
    amp.s = h.Signal()
    amp.x = X(p=amp.s)
"""))
sys.path.insert(0, d)
import pk_c11

P = h.to_proto([pk_c11.X, pk_c11.amp])  # two top-level modules
names = [m.name for m in P.modules]
print("(b) modules of P:", names)
ns = h.from_proto(P)
found = []
for qn in names:
    cur = ns
    try:
        for part in qn.split("."):
            cur = getattr(cur, part)
        found.append(qn)
    except AttributeError as e:
        print(f"(b) `{qn}` is not in the imported namespace: {e}")
if found != names:
    bad = True
    print("(b) VIOLATION: from_proto silently dropped a module of P from the namespace it returns;")
    print("    the top-level modules of P cannot all be exported again")

sys.exit(1 if bad else 0)
