"""C11 finding 4 (same family as the recorded gf180 3T-cap package, opposite direction, other devices, both PDKs):
after `pdk.compile`, to_proto silently produces packages in which an instance leaves a declared port of its external
module unconnected. The only way to reach the PDKs' four-terminal NPN devices through `compile` is `h.Npn(model=...)`
(three terminals c, b, e): the compiled instance keeps three connections on a module declaring `c b e s`.
(Likewise a 2-terminal PhysicalResistor / PhysicalCapacitor with the model of a 3-terminal device.)
from_proto accepts such a package, but its re-export fails, so it does not survive the round trip.
Run with cwd = the worktree and PYTHONPATH=pdks/Sky130:pdks/Gf180. Exit 1 = violation observed."""
import os, sys; sys.path.insert(0, os.getcwd())
for p in ("pdks/Sky130", "pdks/Gf180"):
    sys.path.insert(0, os.path.join(os.getcwd(), p))
import hdl21 as h
import sky130_hdl21, gf180_hdl21

bad = False
cases = [
    ("sky130", sky130_hdl21, h.Npn(model="NPN_5p0V_1x2")),
    ("gf180", gf180_hdl21, h.Npn(model="NPN_10p0x10p0")),
    ("sky130", sky130_hdl21, h.PhysicalResistor(model="GEN_ND")),
    ("gf180", gf180_hdl21, h.PhysicalResistor(model="NWELL")),
]
for k, (pdkname, pdk, call) in enumerate(cases):
    m = h.Module(name=f"T{k}")
    m.z = h.Signal()
    inst = h.Instance(name="q", of=call)
    for port in call.ports:
        inst.connect(port, m.z)
    m.add(inst)
    pdk.compile(m)
    P = h.to_proto(m)  # silently accepted
    pinst = P.modules[-1].instances[0]
    decl = [e for e in P.ext_modules if e.name.name == pinst.module.external.name][0]
    declared = [p.signal for p in decl.ports]
    connected = [c.portname for c in pinst.connections]
    print(f"{pdkname}: {call.prim.name}(model={call.params.model}) -> {decl.name.name}: declares {declared}, instance connects {connected}")
    if set(declared) != set(connected):
        try:
            ns = h.from_proto(P)
            P2 = h.to_proto(getattr(ns.__main__, f"T{k}"))
            same = P2 == P
        except Exception as ex:
            same = False
            print("   round trip fails:", str(ex).strip().splitlines()[-1][:140])
        if not same:
            bad = True
if bad:
    print("VIOLATION: packages produced by to_proto (after pdk.compile) with instances that do not connect the declared ports; they do not survive the round trip")
sys.exit(1 if bad else 0)
