"""C11 finding 1: a user-defined `Primitive` that bears the name of a built-in one is accepted and exported
into the reserved domain `hdl21.primitives` (or `vlsir.primitives`); `from_proto` resolves the reference to the
BUILT-IN primitive, so the re-exported package differs from P (parameters re-typed, foreign defaults added).
Run with cwd = the worktree. Exit 1 = violation observed."""
import os, sys; sys.path.insert(0, os.getcwd())
import dataclasses
import hdl21 as h
import hdl21.primitives as hp
from hdl21.primitives import Primitive, PrimitiveType


def lookup(ns, qn):
    for part in qn.split("."):
        ns = getattr(ns, part)
    return ns


def roundtrip(top):
    P = h.to_proto(top, domain="dom")
    ns = h.from_proto(P)
    P2 = h.to_proto(lookup(ns, P.modules[-1].name), domain="dom")
    return P, P2


@h.paramclass
class MyMosParams:
    w = h.Param(dtype=int, desc="width in fins", default=3)
    l = h.Param(dtype=int, desc="length in gates", default=4)


bad = False

# (a) a Primitive of the designer's own, called "Mos"
MyMos = Primitive(
    name="Mos",
    desc="my own four-terminal device",
    port_list=[h.Port(name="d"), h.Port(name="g"), h.Port(name="s"), h.Port(name="b")],
    paramtype=MyMosParams,
    primtype=PrimitiveType.PHYSICAL,
)
a = h.Module(name="UsesMyMos")
a.s = h.Signal(width=4)
a.i = MyMos(w=7)(d=a.s[0], g=a.s[1], s=a.s[2], b=a.s[3])
P, P2 = roundtrip(a)
fmt = lambda pkg: [(p.name, str(p.value).strip()) for p in pkg.modules[-1].instances[0].parameters]
print("(a) exported reference :", str(P.modules[-1].instances[0].module.external).split())
print("(a) parameters in P    :", fmt(P))
print("(a) parameters in P2   :", fmt(P2))
if P != P2:
    bad = True
    print("(a) VIOLATION: round trip of a package produced by to_proto is not equal to P")

# (b) the same through a copy of a built-in (`dataclasses.replace`)
MyRes = dataclasses.replace(hp.PhysicalResistor, paramtype=MyMosParams)
b = h.Module(name="UsesMyRes")
b.s = h.Signal(width=2)
b.i = MyRes(w=5)(p=b.s[0], n=b.s[1])
P, P2 = roundtrip(b)
print("(b) parameters in P    :", fmt(P))
print("(b) parameters in P2   :", fmt(P2))
if P != P2:
    bad = True
    print("(b) VIOLATION: round trip of a package produced by to_proto is not equal to P")

sys.exit(1 if bad else 0)
