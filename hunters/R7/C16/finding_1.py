"""
C16 finding 1 (borderline): flatten() silently DROPS instance arrays (and everything below them) when the
hierarchy it is handed still contains InstanceArrays, instead of rejecting it.

Clause: "flatten(m) returns a module that contains ... one [instance] per leaf device of m's hierarchy ...
A design it cannot flatten is rejected with an exception, never flattened wrongly."

`flatten.is_flat()` looks at `instances + instarrays + instbundles`, but `flatten.walk()` iterates over
`m.instances` only.  With the default elaborator arrays are always dissolved before `walk` runs, so this is only
reachable when the global elaborator (public API: `h.elab.set_elaborator(h.elab.Elaborator(passes=[...]))`) does
not include `ArrayFlattener`.  flatten() then returns a "flat" module from which the array devices are missing -
no exception.
"""
import os, sys

sys.path.insert(0, os.getcwd())
import hdl21 as h
from hdl21.flatten import flatten
from hdl21.elab import Elaborator, set_elaborator, reset_elaborator
from hdl21.elab.passes import (
    Orphanage,
    InstBundleElabPass,
    ResolvePortRefs,
    ConnTypes,
    BundleFlattener,
    MarkModules,
)


@h.module
class Leaf:
    a, b = h.Ports(2)
    rs = 2 * h.Res(r=1)(p=a, n=b)  # two devices
    r = h.Res(r=2)(p=a, n=b)  # one device


@h.module
class Top:
    a, b = h.Ports(2)
    l = Leaf(a=a, b=b)  # 3 devices
    ls = 2 * Leaf(a=a, b=b)  # 6 devices


EXPECTED = 9

# Everything the default elaborator does, short of dissolving the arrays (and the slice resolution that follows it)
set_elaborator(
    Elaborator(
        passes=[Orphanage, InstBundleElabPass, ResolvePortRefs, ConnTypes, BundleFlattener, MarkModules]
    )
)
try:
    try:
        f = flatten(Top)
    except Exception as e:
        print("OK: rejected with", type(e).__name__, str(e)[:100])
        sys.exit(0)
finally:
    reset_elaborator()

pkg = h.to_proto(f)
fm = [m for m in pkg.modules if m.name.endswith("Top_flat")][0]
names = [i.name for i in fm.instances]
print("flattened instances:", names)
if len(names) != EXPECTED:
    print(
        f"VIOLATION: m's hierarchy has {EXPECTED} leaf resistors (1 + 2 per Leaf, 3 Leafs); flatten() returned "
        f"without an exception a module with {len(names)}: the instance arrays `Top.ls` and `Leaf.rs` were dropped silently."
    )
    sys.exit(1)
sys.exit(0)
