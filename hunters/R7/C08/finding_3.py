"""
C08 finding 3: an elaboration which fails in the part of `ElabPass.elaborate_module_base` that runs BEFORE its
`try:` block leaves the module "pending" for ever - the defect of repair 98841b2 ("a failed elaboration leaves
modules 'pending', so every later attempt reports a circular dependency") reached by another route.

`_close_bundle_definition(bundle_inst.of)` is called after `pending.add(module)` but outside the `try`.
For a bundle instance whose `of` is not a Bundle definition - here the easy slip `h.BundleInstance(of=h.Diff())`,
an *instance* where the definition `h.Diff` was meant - it raises AttributeError. The module is neither taken
out of `pending` nor given its `_elaboration_failure`, so
  * repeating the call reports a spurious, different error: "Invalid self referencing/ circular dependency in M",
  * and so does every other design that instantiates M (reported as a cycle through that design).
(The same un-typed `of` is silently ACCEPTED when it is a Module: `h.BundleInstance(of=SomeModule)` elaborates,
exports SomeModule's internal signals as bundle members, and marks the never-elaborated SomeModule `_elaborated`,
after which it refuses additions.)
"""
import os, sys; sys.path.insert(0, os.getcwd())
import hdl21 as h


def attempt(top):
    try:
        h.elaborate(top)
        return "elaborated"
    except Exception as e:
        return f"{type(e).__name__}: " + str(e).strip().splitlines()[-1][:120]


m = h.Module(name="M")
m.d = h.BundleInstance(of=h.Diff())  # should have been `of=h.Diff`

first = attempt(m)
second = attempt(m)

parent = h.Module(name="Parent")
parent.i = m()
third = attempt(parent)

print("1st attempt           :", first)
print("2nd attempt (same M)  :", second)
print("design containing M   :", third)

if first != second or "circular" in second or "circular" in third:
    print("VIOLATION: repeating the failed call reports a spurious different error (a circular dependency")
    print("that does not exist) instead of the original one: M was left in the pass's `pending` set.")
    sys.exit(1)
print("OK")
sys.exit(0)
