"""
C08 finding 2: failure injected by a custom pass list in which one standard pass is replaced by a subclass of it
(the obvious way to raise "at pass position k, in module M": override `elaborate_module`, raise for M, else `super()`).

Every ElabPass *sub*-class gets a done-cache of its own, so the innocent modules which the failing subclass of
`BundleFlattener` has flattened are flattened AGAIN by `BundleFlattener` proper in the next default elaboration.
The second run overwrites `Module._pre_flattening_io` (the record of the module's Bundle-valued ports) with the
already flattened port list. From then on
  * a valid new design which connects the innocent module through its Bundle port is REJECTED
    ("Connection to non-existent Port `bp`"), although the design shares nothing with the offending module, and
  * an ill-formed one, naming the flattened scalar ports `bp_x` / `bp_y` (which a fresh process refuses), is ACCEPTED.
The first design elaborated after the failure still works - the damage shows from the second one on.
"""
import os, sys; sys.path.insert(0, os.getcwd())
import hdl21 as h
from hdl21.elab import Elaborator
from hdl21.elab.passes import BundleFlattener


def build():
    @h.bundle
    class B:
        x = h.Signal()
        y = h.Signal()

    @h.module
    class Shared:  # innocent, shared by all designs below
        bp = B(port=True)

    @h.module
    class Offender:
        p = h.Port()

    @h.module
    class Failing:
        b = B()
        s = Shared(bp=b)
        o = Offender(p=b.x)

    def user(name: str):
        m = h.Module(name=name)
        m.b = B()
        m.s = Shared(bp=m.b)
        return m

    def illformed(name: str):
        m = h.Module(name=name)
        m.u, m.v = h.Signals(2)
        m.s = Shared(bp_x=m.u, bp_y=m.v)  # `Shared` has ONE port, the bundle `bp`
        return m

    return Failing, user, illformed


def history(fail: bool):
    Failing, user, illformed = build()
    if fail:
        class FailingFlattener(BundleFlattener):
            def elaborate_module(self, module):
                if module.name == "Offender":
                    raise ValueError("injected failure in Offender")
                return super().elaborate_module(module)

        passes = [FailingFlattener if p is BundleFlattener else p for p in Elaborator.default().passes]
        try:
            Elaborator(passes=passes).elaborate(Failing)
            raise SystemExit("UNEXPECTED: no failure")
        except ValueError:
            pass
    results = []
    for k, mk in enumerate([user, user, illformed]):
        try:
            h.to_proto(mk(f"Design{k}"))
            results.append("exported")
        except Exception as e:
            results.append("refused: " + str(e).strip().splitlines()[-1][:110])
    return results


fresh = history(fail=False)
after = history(fail=True)
print("fresh process           :", fresh)
print("after the failed elab.  :", after)
if fresh == after:
    print("OK")
    sys.exit(0)
print("VIOLATION: designs that do not contain the offending module no longer elaborate as in a fresh process:")
print("  Design1 (valid, connects `Shared.bp`) is refused; Design2 (ill-formed, names `bp_x`/`bp_y`) is accepted.")
sys.exit(1)
