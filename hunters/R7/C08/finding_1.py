"""
C08 finding 1: a failed run of a custom pass list that is a *subset* of the default passes
(`Elaborator(passes=[ResolvePortRefs])`, the form the library's own test-suite uses) silently changes
what an innocent module of the failed design is later exported as.

The failed run leaves the innocent module cached as "done" for ResolvePortRefs only. The next default
elaboration then applies Orphanage / InstBundleElabPass *after* ResolvePortRefs has already been applied:
the no-connect on the port of an instance Pair was given ONE net (`pr_b`) while the Pair was still whole,
and is then broadcast to both instances - shorting two ports which a fresh process leaves unconnected
(`pr_p_b`, `pr_n_b`).
"""
import os, sys; sys.path.insert(0, os.getcwd())
import subprocess

CHILD = r'''
import os, sys; sys.path.insert(0, os.getcwd())
import hdl21 as h
from hdl21.elab import Elaborator
from hdl21.elab.passes import ResolvePortRefs
from google.protobuf import text_format

@h.module
class Leaf:
    a = h.Port(width=2)
    b = h.Port()

@h.module
class Innocent:
    w = h.Port(width=2)
    pr = h.Pair(Leaf)(a=w, b=h.NoConn())

@h.module
class Offender:  # design error: `Leaf` has no port `nope`
    w = h.Signal(width=2)
    l = Leaf(a=w)
    l2 = Leaf(a=w, b=l.nope)

@h.module
class Top:
    w = h.Signal(width=2)
    i = Innocent(w=w)
    bad = Offender()

if sys.argv[1] == "history":
    try:
        Elaborator(passes=[ResolvePortRefs]).elaborate(Top)
        print("UNEXPECTED: no failure")
    except RuntimeError as e:
        assert "Invalid port `nope`" in str(e)
sys.stdout.write(text_format.MessageToString(h.to_proto(Innocent)))
'''


def run(mode: str) -> str:
    r = subprocess.run([sys.executable, "-c", CHILD, mode], capture_output=True, text=True, cwd=os.getcwd())
    if r.returncode != 0:
        return "CRASH: " + r.stderr[-500:]
    return r.stdout


def nets(pkg_text: str):
    import re
    return re.findall(r'sig: "([^"]+)"', pkg_text)


fresh = run("fresh")
after = run("history")
if fresh == after:
    print("OK: the innocent module exports the same after the failed elaboration")
    sys.exit(0)
print("VIOLATION: `Innocent` does not contain the offending module, yet after the failed elaboration of `Top`")
print("it is exported differently from what a fresh process gives.")
print("  nets connected in a fresh process :", nets(fresh))
print("  nets connected after the failure  :", nets(after))
print("  (the `b` ports of pr_p and pr_n are shorted together on `pr_b`)")
sys.exit(1)
