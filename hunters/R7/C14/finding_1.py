"""C14 finding 1: the 1e-20 comparison tolerance is applied to the MANTISSA at the smaller of the two prefixes,
not to the value. Whenever both prefixes are above UNIT, numbers whose exact values differ by far more than 1e-20
(up to 1e4) compare equal, and re-spelling the same two values (scale()) changes the outcome of ==, <, >."""
import os, sys; sys.path.insert(0, os.getcwd())
from decimal import Decimal, Context, MAX_PREC, MAX_EMAX, MIN_EMIN
from hdl21.prefix import Prefixed, Prefix

X = Context(prec=MAX_PREC, Emax=MAX_EMAX, Emin=MIN_EMIN)
val = lambda p: X.scaleb(p.number, p.prefix.value)
TOL = Decimal("1e-20")
bad = []

def check(a, b):
    va, vb = val(a), val(b)
    if abs(X.subtract(va, vb)) <= TOL:
        return
    got = (a < b, a == b, a > b)
    want = (va < vb, va == vb, va > vb)
    if got != want:
        bad.append(f"{a!r} (= {va}) vs {b!r} (= {vb}): (<, ==, >) = {got}, exact values give {want}")

# (1) a value reached by rescaling: 50 zepto = 5e-20, which is 5 tolerances away from zero
x = Prefixed(number=Decimal(50), prefix=Prefix.ZEPTO)
zero_k = Prefixed(number=Decimal(0), prefix=Prefix.KILO)
xk = x.scale(Prefix.KILO)  # 5.0E-23*KILO, the same value
assert val(xk) == val(x)
check(x, zero_k)   # fine: compared at ZEPTO
check(xk, zero_k)  # wrong: compared at KILO, mantissa 5e-23 rounds to 0
if (x == zero_k) != (xk == zero_k):
    bad.append(f"x == 0*KILO is {x == zero_k} but x.scale(KILO) == 0*KILO is {xk == zero_k} (same two values)")

# (2) the error grows with the prefix: 4000 compares equal to 0 when both are written in YOTTA
a = Prefixed(number=Decimal("4E-21"), prefix=Prefix.YOTTA)  # = 4000
check(a, Prefixed(number=Decimal(0), prefix=Prefix.YOTTA))
check(a, Prefixed(number=Decimal(1), prefix=Prefix.ZETTA))
check(a, Prefixed(number=Decimal(0), prefix=Prefix.UNIT))   # fine: compared at UNIT

# (3) every pair of prefixes above UNIT
for p1 in Prefix:
    for p2 in Prefix:
        if min(p1.value, p2.value) > 0:
            check(Prefixed(number=Decimal("4E-21"), prefix=p1), Prefixed(number=Decimal(0), prefix=p2))

if bad:
    print(f"VIOLATION: {len(bad)} comparisons of numbers more than 1e-20 apart disagree with their exact values, e.g.")
    for b in bad[:8]:
        print("  ", b)
    sys.exit(1)
print("ok")
