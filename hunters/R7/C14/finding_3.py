"""C14 finding 3 (low severity): ill-formed prefixes are accepted silently. bool / float / Decimal 'prefix' arguments
are coerced to the Prefix with that exponent: prefix=True is DECA (x10), prefix=False is UNIT."""
import os, sys; sys.path.insert(0, os.getcwd())
from decimal import Decimal
from hdl21.prefix import Prefixed, Prefix, Exponent
bad = []
for arg in (True, False, 3.0, Decimal(3)):
    try:
        p = Prefixed(number=1, prefix=arg)
        bad.append(f"Prefixed(number=1, prefix={arg!r}) accepted -> {p!r}")
    except Exception:
        pass
try:
    bad.append(f"Prefix.from_exp(True) -> {Prefix.from_exp(True)!r}") if Prefix.from_exp(True) is not None else None
except Exception:
    pass
try:
    bad.append(f"Exponent(True) accepted -> {Exponent(True)!r}")
except Exception:
    pass
if bad:
    print("VIOLATION (accepted ill-formed input):")
    for b in bad: print("  ", b)
    sys.exit(1)
print("ok")
