"""C14 finding 2: Prefixed == float / str follows the *shortest repr* of the other operand, while hash() follows the
exact value: objects that compare equal hash differently (dict / set lookups miss), and == / < / > disagree with the
exact value of the float by much more than the 1e-20 tolerance."""
import os, sys; sys.path.insert(0, os.getcwd())
from decimal import Decimal
from fractions import Fraction
from hdl21.prefix import Prefixed, Prefix

bad = []
a = Prefixed(number=Decimal(100), prefix=Prefix.MILLI)  # exactly 0.1
if a == 0.1 and hash(a) != hash(0.1):
    bad.append(f"100*MILLI == 0.1 is True but hash(100*MILLI)={hash(a)} != hash(0.1)={hash(0.1)}; {{0.1: 'x'}}.get(100*MILLI) -> { {0.1: 'x'}.get(a)!r}")
k = Prefixed(number=Decimal(1), prefix=Prefix.KILO)
if k == "1000" and hash(k) != hash("1000"):
    bad.append(f"1*KILO == '1000' is True but the hashes differ; {{'1000': 'x'}}.get(1*KILO) -> { {'1000': 'x'}.get(k)!r}")
# the exact value of the float 0.1 is 0.1000000000000000055511151231257827..., 5.5e-18 away from 0.1
exact = Prefixed(number=Decimal(0.1))  # denotes exactly the float 0.1
assert Fraction(exact.number) == Fraction(0.1) and float(exact) == 0.1
if not (exact == 0.1) or exact > 0.1:
    bad.append(f"Prefixed(Decimal(0.1)) denotes exactly the float 0.1 (float() of it is 0.1), yet == 0.1 is {exact == 0.1} and > 0.1 is {exact > 0.1}")
if a == 0.1 and abs(Fraction(0.1) - Fraction(1, 10)) > Fraction(1, 10**20):
    bad.append("100*MILLI == 0.1 is True although the float's exact value differs from 0.1 by 5.5e-18 > 1e-20")
if bad:
    print("VIOLATION:")
    for b in bad: print("  ", b)
    sys.exit(1)
print("ok")
