"""C06 finding 3: `Signal(width=0)` is refused ("Widths of zero or less generate errors, both at construction-time and
later"), but the same width assigned as an attribute before elaboration is never looked at again: elaboration only
compares widths with one another, and the exporter copies them. to_proto returns signals of width 0 / -2 and a
zero-wide port connected to a zero-wide signal; from_proto refuses the package."""
import os, sys; sys.path.insert(0, os.getcwd())
import hdl21 as h

problems = []
try:
    h.Signal(width=0)
    problems.append("constructor accepts width=0 (unexpected)")
except Exception:
    pass

child = h.Module(name="Child")
child.p = h.Port()
child.p.width = 0  # attribute route; nothing has been elaborated yet

top = h.Module(name="Top")
top.s = h.Signal()
top.s.width = 0
top.t = h.Signal(width=2)
top.t.width = -2
top.i = child(p=top.s)

try:
    pkg = h.to_proto(top)
except Exception as e:
    print("refused:", type(e).__name__, str(e)[:150])
    print("no violation")
    sys.exit(0)

for pmod in pkg.modules:
    for s in pmod.signals:
        if s.width < 1:
            problems.append(f"to_proto returned module `{pmod.name}` with signal `{s.name}` of width {s.width}")
try:
    h.from_proto(pkg)
except Exception as e:
    problems.append(f"from_proto rejects that package: {type(e).__name__}: {str(e).splitlines()[1].strip()[:80] if len(str(e).splitlines())>1 else str(e)[:80]}")

if problems:
    print("VIOLATION of C06 ('every connection target names declared signals, stays inside their widths and has the width of the port it feeds'; 'from_proto ... accept it'):")
    for p in problems:
        print("  -", p)
    sys.exit(1)
print("no violation")
sys.exit(0)
