"""C06 finding 1: the checks of ExternalModule (unique port names, no primitive domain, non-empty name) run in the
constructor only. The same ill-formed declarations reached by attribute / list edits BEFORE any export are exported
silently: the package declares an external module with two ports (and two signals) of one name, or an external module
in the `vlsir.primitives` domain, whose instances then connect ports the primitive does not have."""
import os, sys; sys.path.insert(0, os.getcwd())
import io
import hdl21 as h
import vlsirtools

problems = []


def top_for(E, name):
    m = h.Module(name=name)
    conns = {}
    for p in E.port_list:
        if p.name not in conns:
            conns[p.name] = m.add(h.Signal(name="s_" + p.name))
    m.i = E()(**conns)
    return m


def dup_ports(pkg, label):
    for e in pkg.ext_modules:
        ports = [p.signal for p in e.ports]
        sigs = [s.name for s in e.signals]
        if len(set(ports)) != len(ports) or len(set(sigs)) != len(sigs):
            problems.append(f"{label}: to_proto returned ext module `{e.name.name}` with ports {ports}, signals {sigs}")


# (a) port_list.append of a repeated name (the constructor refuses the same list)
try:
    h.ExternalModule(name="Ea0", port_list=[h.Port(name="a"), h.Port(name="b"), h.Port(name="a")])
    problems.append("constructor accepts repeated port names (unexpected)")
except Exception:
    pass
E = h.ExternalModule(name="Ea", port_list=[h.Port(name="a"), h.Port(name="b")])
E.port_list.append(h.Port(name="a"))
try:
    dup_ports(h.to_proto(top_for(E, "Ma")), "(a) port_list.append")
except Exception as e:
    print("(a) refused:", type(e).__name__, str(e)[:100])

# (b) port_list assigned as an attribute
E = h.ExternalModule(name="Eb", port_list=[h.Port(name="a"), h.Port(name="b")])
E.port_list = [h.Port(name="a"), h.Port(name="a")]
try:
    dup_ports(h.to_proto(top_for(E, "Mb")), "(b) port_list = [...]")
except Exception as e:
    print("(b) refused:", type(e).__name__, str(e)[:100])

# (c) a declared port re-named in place
E = h.ExternalModule(name="Ec", port_list=[h.Port(name="a"), h.Port(name="b")])
E.port_list[1].name = "a"
try:
    dup_ports(h.to_proto(top_for(E, "Mc")), "(c) port_list[1].name = 'a'")
except Exception as e:
    print("(c) refused:", type(e).__name__, str(e)[:100])

# (d) domain assigned as an attribute (the constructor refuses domain='vlsir.primitives')
try:
    h.ExternalModule(name="resistor", domain="vlsir.primitives", port_list=[h.Port(name="x")])
    problems.append("constructor accepts the primitives' domain (unexpected)")
except Exception:
    pass
E = h.ExternalModule(name="resistor", port_list=[h.Port(name="x"), h.Port(name="y"), h.Port(name="z")])
E.domain = "vlsir.primitives"
try:
    pkg = h.to_proto(top_for(E, "Md"))
    decl = [(e.name.domain, e.name.name) for e in pkg.ext_modules]
    inst = pkg.modules[0].instances[0]
    conn = [c.portname for c in inst.connections]
    if ("vlsir.primitives", "resistor") in decl or inst.module.external.domain == "vlsir.primitives":
        problems.append(f"(d) domain=: package declares {decl}; instance of vlsir.primitives.resistor (ports p, n) connects {conn}")
    try:
        h.from_proto(pkg)
    except Exception as e:
        problems.append(f"(d) from_proto rejects that package: {type(e).__name__}")
    for fmt in ("spice", "spectre"):
        try:
            vlsirtools.netlist(pkg, io.StringIO(), fmt=fmt)
        except Exception as e:
            problems.append(f"(d) {fmt} netlister rejects that package: {type(e).__name__}: {str(e)[:60]}")
except Exception as e:
    print("(d) refused:", type(e).__name__, str(e)[:100])

# (e) name assigned as an attribute (the constructor refuses an empty name)
E = h.ExternalModule(name="Ee", port_list=[h.Port(name="a")])
E.name = ""
try:
    pkg = h.to_proto(top_for(E, "Me"))
    if any(not e.name.name for e in pkg.ext_modules):
        problems.append("(e) name='': package declares an external module with an empty name")
        try:
            h.from_proto(pkg)
        except Exception as e:
            problems.append(f"(e) from_proto rejects that package: {type(e).__name__}")
except Exception as e:
    print("(e) refused:", type(e).__name__, str(e)[:100])

if problems:
    print("VIOLATION of C06 ('within a module ... port names are unique and every port names a declared signal; every instance")
    print("refers to ... a declared external module or a known primitive, and connects each of that target's ports exactly once'):")
    for p in problems:
        print("  -", p)
    sys.exit(1)
print("no violation")
sys.exit(0)
