"""C06 finding 2: a Signal which is added to its Module again - same object, same name, which `Module.add` / `setattr`
accept - after its visibility was changed, is filed under `ports` as well as `signals` (or vice versa). Nothing in
elaboration compares the two views, and the exporter writes `signals + ports`: the package declares the signal twice."""
import os, sys; sys.path.insert(0, os.getcwd())
import io
import hdl21 as h
import vlsirtools
from hdl21.signal import Visibility

problems = []


def build(first_vis, second_vis, name, how):
    m = h.Module(name=name)
    s = h.Signal(vis=first_vis)
    m.s = s
    s.vis = second_vis  # e.g. the designer decides to expose an internal net as a port
    if how == "setattr":
        m.s = s  # same object, same name: accepted
    else:
        m.add(s)
    m.o = h.Signal()
    m.r = h.R(r=1)(p=s, n=m.o)
    return m


for first, second, name, how in [
    (Visibility.INTERNAL, Visibility.PORT, "Sig2Port", "setattr"),
    (Visibility.PORT, Visibility.INTERNAL, "Port2Sig", "add"),
]:
    try:
        pkg = h.to_proto(build(first, second, name, how))
    except Exception as e:
        print(name, "refused:", type(e).__name__, str(e)[:120])
        continue
    pmod = pkg.modules[0]
    names = [s.name for s in pmod.signals]
    if len(set(names)) != len(names):
        problems.append(f"{name}: to_proto returned module with signals {names}, ports {[p.signal for p in pmod.ports]}")
        for fmt in ("spice", "spectre"):
            try:
                vlsirtools.netlist(pkg, io.StringIO(), fmt=fmt)
            except Exception as e:
                problems.append(f"{name}: {fmt} netlister rejects it: {type(e).__name__}: {str(e)[:70]}")

if problems:
    print("VIOLATION of C06 ('within a module, signal, port and instance names are unique'; 'the vlsirtools spice and spectre netlisters accept it'):")
    for p in problems:
        print("  -", p)
    sys.exit(1)
print("no violation")
sys.exit(0)
