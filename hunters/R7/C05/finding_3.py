"""C05-adjacent finding 3 (NOT elaboration proper; the testbench builder `hdl21.sim.delay.create_sim`):
names invented for the sources / load capacitors of the delay testbench (`v<input>`, `c<output>`, `dut`, `vss`)
capture same-named DUT ports: an existing instance is silently replaced.

DUT with inputs `a` and `va`: the testbench first adds the Vdc source `va` driving input `a`, then copies input `va`
into the testbench as a Signal named `va` - `Module.add` re-uses the name, and the source instance is dropped.
The exported testbench leaves input `a` floating, with no error.
"""
import os, sys; sys.path.insert(0, os.getcwd())
import hdl21 as h
from hdl21.prefix import m
from hdl21.sim.delay import DelaySimParams, create_sim, LogicState, Transition


def main():
    @h.module
    class Dut:
        a = h.Input()
        va = h.Input()
        b = h.Input()
        y = h.Output()
        r1 = h.Resistor(r=1)(p=a, n=y)
        r2 = h.Resistor(r=1)(p=va, n=y)
        r3 = h.Resistor(r=1)(p=b, n=y)

    p = DelaySimParams(
        dut=Dut, primary_input=Dut.b,
        other_inputs={"a": LogicState.HIGH, "va": LogicState.LOW},
        input_trans=Transition.RISING, vlo=0 * m, vhi=1000 * m,
    )
    try:
        sim = create_sim(p)
        pkg = h.to_proto(sim.tb)
    except Exception as e:
        print("OK: refused:", str(e).splitlines()[-1][:150])
        return 0
    tb = pkg.modules[-1]
    driven = set()
    for i in tb.instances:
        if i.module.WhichOneof("to") == "external" and i.module.external.name in ("vdc", "vpulse"):
            for c in i.connections:
                if c.portname == "p":
                    driven.add(c.target.sig)
    print("testbench instances:", [i.name for i in tb.instances])
    print("nets driven by a source:", sorted(driven))
    missing = [n for n in ("a", "va", "b") if n not in driven]
    if missing:
        print(f"VIOLATION: DUT inputs {missing} have no source in the testbench: the instance the testbench invented "
              f"for them was replaced by the copy of a same-named DUT port, silently.")
        return 1
    print("OK: every input is driven")
    return 0


if __name__ == "__main__":
    sys.exit(main())
