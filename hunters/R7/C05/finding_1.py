"""C05 finding 1: one NoConn object connected to two ports is accepted, and silently split into two nets.

`ResolvePortRefs.handle_noconn` promises "that the `NoConn` only connects to *one* port" (and
`test_bad_noconn` requires "a doubly-connected `NoConn` should fail"). That only holds when the second
port reaches the NoConn through a port reference (`i2.p = i1.p`). Connecting the *same NoConn object*
to two ports directly is accepted: each port gets an implicit signal of its own, the second one under an
invented trailing-underscore name. The two connections the designer made to one object no longer refer to
one object, and the named no-connect's name is handed out twice (`x` and `x_`).
"""
import os, sys; sys.path.insert(0, os.getcwd())
import hdl21 as h


def nets(pkg, modname):
    mod = [m for m in pkg.modules if m.name.endswith(modname)][0]
    return {(i.name, c.portname): c.target.sig for i in mod.instances for c in i.connections}, [s.name for s in mod.signals]


def main():
    @h.module
    class Inner:
        p = h.Port()
        r = h.Resistor(r=1)(p=p, n=p)

    # Reference behaviour: the second port reaches the NoConn via a port reference: refused.
    @h.module
    class ViaRef:
        i1 = Inner()
        i2 = Inner()
        i1.p = h.NoConn(name="x")
        i2.p = i1.p

    try:
        h.to_proto(ViaRef)
        ref_refused = False
    except RuntimeError:
        ref_refused = True

    # Same design, with the NoConn object connected to both ports directly
    nc = h.NoConn(name="x")

    @h.module
    class Direct:
        i1 = Inner(p=nc)
        i2 = Inner(p=nc)

    try:
        pkg = h.to_proto(Direct)
    except RuntimeError as e:
        print("OK: doubly-connected NoConn refused:", str(e).splitlines()[-1][:120])
        return 0
    conns, sigs = nets(pkg, "Direct")
    print("doubly-connected via port reference refused:", ref_refused)
    print("doubly-connected directly: accepted; connections:", conns, "signals:", sigs)
    if conns[("i1", "p")] != conns[("i2", "p")]:
        print("VIOLATION: both ports were connected to ONE NoConn object, yet they are exported on two different nets "
              f"({conns[('i1','p')]!r} and {conns[('i2','p')]!r}); no error was raised although a NoConn may connect to one port only.")
        return 1
    print("VIOLATION (shorted): a no-connect shared by two ports was accepted and made into one net")
    return 1


if __name__ == "__main__":
    sys.exit(main())
