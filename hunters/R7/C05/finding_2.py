"""C05 finding 2 (a route repair 192dc05 missed): the exported name of a bundle PORT's leaf still depends on
how an internal connection is spelt, as soon as the leaf's plain name `<bundle>_<member>` is taken by a designer name.

192dc05 ("names invented before bundles are flattened leave the bundles' flattened names to them") reserves the
plain spelling `a_b_x` only. If the designer already uses `a_b_x` (here: an internal Signal), the leaf is bound to
become `a_b_x_` - but that name is not reserved, and an implicit net invented earlier (port reference / nameless
NoConn on port `b_x_` of instance `a`) takes it: the port is exported as `a_b_x__`. The very same module with that
internal net spelt as an explicit Signal exports the port as `a_b_x_`.
"""
import os, sys; sys.path.insert(0, os.getcwd())
import hdl21 as h


def build(explicit: bool, tag: str):
    B = h.Bundle(name="B" + tag)
    B.add(h.Signal(), name="x")

    Inner = h.Module(name="Inner" + tag)
    Inner.add(h.Port(), name="b_x_")
    Inner.add(h.Resistor(r=1)(p=Inner.get("b_x_"), n=Inner.get("b_x_")), name="r")

    M = h.Module(name="M" + tag)
    M.add(B(port=True), name="a_b")  # leaf `x`: plain flattened name `a_b_x`
    M.add(h.Signal(), name="a_b_x")  # ... which the designer uses for an internal net: the leaf becomes `a_b_x_`
    M.add(h.Resistor(r=2)(p=M.a_b.x, n=M.a_b_x), name="r")
    M.add(Inner(), name="a")
    if explicit:
        M.add(h.Signal(), name="s")
        M.a.connect("b_x_", M.s)
    else:
        M.a.connect("b_x_", h.NoConn())  # implicit net, named `a` + `_` + `b_x_`
    return M


def ports(M):
    pkg = h.to_proto(M)
    mod = [m for m in pkg.modules if m.name.endswith(M.name)][0]
    return [p.signal for p in mod.ports], {(i.name, c.portname): c.target.sig for i in mod.instances for c in i.connections}


def main():
    p_explicit, c1 = ports(build(True, "e"))
    p_implicit, c2 = ports(build(False, "i"))
    print("ports with the internal net spelt as a Signal :", p_explicit)
    print("ports with the internal net left to a NoConn  :", p_implicit, " (a.b_x_ ->", c2[("a", "b_x_")], ")")
    if p_explicit != p_implicit:
        print("VIOLATION: the interface (flattened bundle-port name) of the module depends on the spelling of an internal "
              "connection: the implicit net took the name the port's leaf was due, and the leaf was pushed one underscore further.")
        return 1
    print("OK: same interface")
    return 0


if __name__ == "__main__":
    sys.exit(main())
