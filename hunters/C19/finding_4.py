"""C19 finding 4: a PDK compile of one design changes what later, identical Series / MosStack calls return.

MosStack(unit=h.Nmos(...), nser=2) is cached by the generator machinery; `sky130_hdl21.compile(design_A)` rewrites the
cached stack module in place.  Any later `MosStack(unit=h.Nmos(...), nser=2)` - in an unrelated design B - returns that
rewritten module: its "units" are sky130 ExternalModule instances, not instances of the requested unit `h.Nmos(...)`.
Design B exported WITHOUT any compile contains sky130 devices, and compiling B for gf180 leaves sky130 devices in it.
"""
import os, sys; sys.path.insert(0, os.getcwd())
for p in ("Sky130", "Gf180"):
    sys.path.insert(0, os.path.join(os.getcwd(), "pdks", p))
import hdl21 as h
from hdl21.prefix import µ
from hdl21.generators import MosStack
import sky130_hdl21, gf180_hdl21

unit = lambda: h.Nmos(w=1 * µ, l=1 * µ)


def design(name):
    m = h.Module(name=name)
    m.d, m.g, m.s, m.b = h.Signals(4)
    m.add(MosStack(unit=unit(), nser=2)(d=m.d, g=m.g, s=m.s, b=m.b), name="stack")
    return m


def unit_refs(pkg):
    stack = [m for m in pkg.modules if "Series" in m.name][0]
    return [(i.module.external.domain, i.module.external.name) for i in stack.instances]


# Reference: what the call produces in a clean history
before = unit_refs(h.to_proto(MosStack(unit=h.Nmos(w=2 * µ, l=1 * µ), nser=2)))
assert before == [("hdl21.primitives", "Mos")] * 2, before

A = design("A")
sky130_hdl21.compile(A)  # somebody compiles design A ...

B = design("B")  # ... and later an unrelated design B asks for the same stack of generic Nmos
after = unit_refs(h.to_proto(B))
print("units of MosStack(unit=h.Nmos(..), nser=2) in design B, never compiled:", after)

C = design("C")
gf180_hdl21.compile(C)
after_gf = unit_refs(h.to_proto(C))
print("units of the same stack in design C, compiled for gf180:            ", after_gf)

bad = []
if after != [("hdl21.primitives", "Mos")] * 2:
    bad.append(f"uncompiled design B holds {after} instead of 2 instances of the unit hdl21.primitives.Mos")
if any("sky130" in n for _, n in after_gf):
    bad.append(f"design C compiled for gf180 holds sky130 devices {after_gf}")
if bad:
    print("\nVIOLATION (C19: 'Series with nser = n produces n instances of the unit'; state leaks between calls):")
    for b in bad:
        print("  -", b)
    sys.exit(1)
print("no violation")
sys.exit(0)
