"""C19 finding 6: a unit with a port named `self` crashes Series and Wrapper with a Python-internal TypeError.

`self` is a legal port name (Module.add / Instance.connect accept it and such a module instantiates and exports fine by
hand).  Series and Wrapper connect by call, `unit(**conns)` / `Instance(...)(**conns)`, whose signatures are
`__call__(self, **kwargs)`.
"""
import os, sys; sys.path.insert(0, os.getcwd())
import hdl21 as h
from hdl21.generators import Series, Wrapper


def mk(name):
    m = h.Module(name=name)
    for nm in ("self", "x", "y"):
        m.add(h.Port(name=nm))
    return m


# By hand it works
top = h.Module(name="Top")
top.a, top.b, top.c = h.Signals(3)
top.add(h.Instance(of=mk("ByHand"), name="u0").connect("self", top.a).connect("x", top.b).connect("y", top.c))
h.to_proto(top)

E = h.ExternalModule(name="E", desc="e", port_list=[h.Port(name="self"), h.Port(name="x"), h.Port(name="y")])
problems = []
cases = {
    "Series(Module unit, nser=2)": lambda: Series(unit=mk("U2"), conns=("x", "y"), nser=2),
    "Series(Module unit, nser=1)": lambda: Series(unit=mk("U1"), conns=("x", "y"), nser=1),
    "Wrapper(Module unit)": lambda: Wrapper(mk("U0")),
    "Series(ExternalModule unit, ('self','x'), nser=3)": lambda: Series(unit=E(), conns=("self", "x"), nser=3),
}
for label, fn in cases.items():
    try:
        h.to_proto(fn())
        print(label, "-> ok")
    except Exception as e:
        msg = f"{label} -> {type(e).__name__}: {str(e)[:140]}"
        print(msg)
        problems.append(msg)
if problems:
    print("\nVIOLATION (C19: all unit cells / all pairs of unit ports must be accepted; these crash with an undescriptive error)")
    sys.exit(1)
print("no violation")
sys.exit(0)
