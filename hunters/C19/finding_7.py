"""C19 finding 7: series ports given "by Signal" - two equal calls yield two modules with one name, which cannot be exported together.

The generator cache keys `conns` Signals by IDENTITY, the generated module's name is derived from their CONTENT
(and Series itself only ever uses their `.name`).  So giving the series pair as Signals that are equal but not the same
objects - copies of the unit's ports, or the ports of a re-created but identical port list - runs the generator twice and
produces two distinct modules called `Series(<same md5>)`.  A design using both fails to export.
The same two stacks requested by port NAME share one module and export fine.
"""
import os, sys, copy; sys.path.insert(0, os.getcwd())
import hdl21 as h
from hdl21.generators import Series

unit = h.R(r=1)


def by_signal():
    p, n = (copy.copy(s) for s in unit.ports.values())  # equal to the unit's ports `p` and `n`, not identical
    return Series(unit=unit, conns=(p, n), nser=2)


def design(name, mk):
    t = h.Module(name=name)
    t.a, t.b, t.c = h.Signals(3)
    t.add(mk()(p=t.a, n=t.b), name="s0")
    t.add(mk()(p=t.b, n=t.c), name="s1")
    return t


h.to_proto(design("ByName", lambda: Series(unit=unit, conns=("p", "n"), nser=2)))  # fine
s0, s1 = by_signal(), by_signal()
print("two by-Signal calls: same object:", s0 is s1, "; same name:", s0.name == s1.name)
try:
    h.to_proto(design("BySignal", by_signal))
    print("no violation")
    sys.exit(0)
except Exception as e:
    print("VIOLATION (C19: the series pair may be 'given by name or by Signal'): export of a design with two such stacks fails:")
    print("  ", type(e).__name__, str(e).splitlines()[0][:200])
    sys.exit(1)
