"""C19 finding 1: Series / Wrapper of a unit with Bundle-valued ports depend on whether the unit has been elaborated before.

History: the unit Module `U` (a bundle port + scalar ports) is elaborated/exported on its own first (e.g. netlisted for a
unit-level simulation).  Afterwards
  (a) Wrapper(U) and Series(unit=U, nser=1) produce modules which cannot be elaborated at all, and
  (b) Series(unit=U, nser=2) no longer has the Bundle-valued port `bn` of the unit, so the very same parent that works when U is
      fresh fails.
The identical calls on a never-elaborated, identical unit succeed.
"""
import os, sys; sys.path.insert(0, os.getcwd())
import hdl21 as h
from hdl21.generators import Series, Wrapper


@h.bundle
class Bn:
    a = h.Signal()
    b = h.Signal(width=2)


def mk_unit(name):
    m = h.Module(name=name)
    m.x = h.Input()
    m.y = h.Output()
    m.bn = Bn(port=True)
    m.r = h.R(r=1)(p=m.x, n=m.y)
    m.r2 = h.R(r=1)(p=m.bn.a, n=m.bn.b[0])
    m.r3 = h.R(r=1)(p=m.bn.b[1], n=m.y)
    return m


def parent_of(stack, name):
    """A parent connecting the stack the documented way: scalar ports to Signals, the bundle port to a Bundle instance"""
    p = h.Module(name=name)
    p.x, p.y, p.bn = h.Signal(), h.Signal(), Bn()
    p.add(stack(x=p.x, y=p.y, bn=p.bn), name="stack")
    return p


def attempt(label, fn):
    try:
        pkg = fn()
        return None
    except Exception as e:
        return f"{label}: {type(e).__name__}: {str(e).splitlines()[-1][:220]}"


problems = []
for pre_elaborated in (False, True):
    tag = "pre-elaborated unit" if pre_elaborated else "fresh unit"
    for what in ("wrapper", "series1", "series2"):
        U = mk_unit(f"U_{what}_{int(pre_elaborated)}")
        if pre_elaborated:
            h.to_proto(U)  # e.g. the unit was netlisted on its own before
        if what == "wrapper":
            fn = lambda: h.to_proto(parent_of(Wrapper(U), f"P_{what}_{int(pre_elaborated)}"))
        elif what == "series1":
            fn = lambda: h.to_proto(parent_of(Series(unit=U, conns=("x", "y"), nser=1), f"P_{what}_{int(pre_elaborated)}"))
        else:
            fn = lambda: h.to_proto(parent_of(Series(unit=U, conns=("x", "y"), nser=2), f"P_{what}_{int(pre_elaborated)}"))
        err = attempt(f"{tag} / {what}", fn)
        print(f"{tag:22s} {what:8s} ->", "ok" if err is None else "FAILS")
        if err is not None:
            problems.append(err)

if problems:
    print("\nVIOLATION (C19: 'nser = 1 is a plain wrapper', 'Wrapper(m) exposes exactly m's ports - signal and bundle valued'):")
    for p in problems:
        print("  -", p)
    sys.exit(1)
print("no violation")
sys.exit(0)
