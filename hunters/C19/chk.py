import os, sys; sys.path.insert(0, os.getcwd())
import hdl21 as h
from hdl21.generators import Series, MosStack, Wrapper
from hdl21.primitives import PrimitiveCall
from hdl21.external_module import ExternalModuleCall

def bits(t, widths):
    k = t.WhichOneof("stype")
    if k == "sig":
        return [(t.sig, i) for i in range(widths[t.sig])]
    if k == "slice":
        return [(t.slice.signal, i) for i in range(t.slice.bot, t.slice.top + 1)]
    if k == "concat":
        out = []
        for p in reversed(t.concat.parts):
            out += bits(p, widths)
        return out
    raise ValueError(k)

def unit_ports(unit):
    """-> list of (name, width, dirstr) in order, flattened; and the unit's proto reference checker"""
    if isinstance(unit, h.Module):
        pkg = h.to_proto(unit)
        pm = pkg.modules[-1]
        w = {s.name: s.width for s in pm.signals}
        return [(p.signal, w[p.signal], p.direction) for p in pm.ports], ("local", pm.name)
    from hdl21.proto.exporting import export_port_dir
    pl = unit.ports if isinstance(unit.ports, list) else list(unit.ports.values())
    if isinstance(unit, PrimitiveCall):
        ref = ("prim", unit.prim.name)
    else:
        ref = ("ext", unit.module.name)
    return [(p.name, p.width, export_port_dir(p)) for p in pl], ref

def find_mod(pkg, m):
    # the module exported for m: the last in pkg when m is top
    return pkg.modules[-1]

def check(gen_mod, unit, conns, n, errs=None):
    """conns: names (str)."""
    errs = [] if errs is None else errs
    uports, ref = unit_ports(unit)
    pkg = h.to_proto(gen_mod)
    pm = pkg.modules[-1]
    w = {}
    for s in pm.signals:
        if s.name in w: errs.append(f"dup signal {s.name}")
        w[s.name] = s.width
    mports = [(p.signal, w.get(p.signal), p.direction) for p in pm.ports]
    if mports != uports:
        errs.append(f"ports differ: module {mports} unit {uports}")
    if len(pm.instances) != n:
        errs.append(f"{len(pm.instances)} instances, want {n}")
    names = [i.name for i in pm.instances]
    if len(set(names)) != len(names): errs.append(f"dup inst names {names}")
    if set(names) & set(w): errs.append(f"inst names collide with signals {set(names)&set(w)}")
    portnames = {p[0] for p in uports}
    use = {}
    # order instances by name suffix? use as-listed order and also try to find ordering
    insts = list(pm.instances)
    def idx(i):
        try: return int(i.name.rsplit("_",1)[1])
        except Exception: return 0
    if n > 1:
        insts.sort(key=idx)
    for k, inst in enumerate(insts):
        which = inst.module.WhichOneof("to")
        if ref[0] == "local":
            if which != "local" or inst.module.local != ref[1]:
                errs.append(f"inst {inst.name} of {inst.module} not {ref}")
        else:
            if which != "external" or (ref[0]=="ext" and inst.module.external.name != ref[1]):
                errs.append(f"inst {inst.name} of {inst.module} not {ref}")
        cn = {c.portname: bits(c.target, w) for c in inst.connections}
        if set(cn) != portnames:
            errs.append(f"inst {inst.name} connects {sorted(cn)} want {sorted(portnames)}")
        for (pn, pw, _) in uports:
            b = cn.get(pn)
            if b is None: continue
            if len(b) != pw:
                errs.append(f"{inst.name}.{pn} width {len(b)} want {pw}")
            for x in b:
                use.setdefault(x, []).append((k, pn))
            full = [(pn, i) for i in range(pw)]
            if n > 1 and pn == conns[0]:
                if k == 0:
                    if b != full: errs.append(f"{inst.name}.{pn} -> {b}, want module port")
                else:
                    prev = {c.portname: bits(c.target, w) for c in insts[k-1].connections}.get(conns[1])
                    if b != prev: errs.append(f"{inst.name}.{pn} -> {b}, but prev.{conns[1]} -> {prev}")
                    if any(x[0] in portnames for x in b): errs.append(f"{inst.name}.{pn} internal on port {b}")
            elif n > 1 and pn == conns[1]:
                if k == n-1:
                    if b != full: errs.append(f"{inst.name}.{pn} -> {b}, want module port")
                else:
                    if any(x[0] in portnames for x in b): errs.append(f"{inst.name}.{pn} internal on port {b}")
            else:
                if b != full: errs.append(f"{inst.name}.{pn} -> {b}, want module port {pn}")
    # private nets: each internal bit used exactly twice
    for x, us in use.items():
        if x[0] not in portnames:
            if len(us) != 2: errs.append(f"internal bit {x} used by {us}")
            if x[0] not in w: errs.append(f"undeclared signal {x}")
    return errs
