"""C19 finding 9: the ports of Wrapper / Series modules are not "exactly the unit's ports": part of each port's public description is dropped.

`_copy_port` deep-copies Signal ports through `Signal.__copy__`, which keeps name / width / direction / desc / src / dest but
drops `usage` (POWER / GROUND / CLOCK become plain SIGNAL), `props`, and `related_clk` / `related_pwr` / `related_gnd`;
Bundle-valued ports are rebuilt from (name, of, port, flipped, role) only, dropping `desc`, `src`, `dest`, `props`.
Observable on the returned Module (not in the VLSIR package, which has no such fields).
"""
import os, sys; sys.path.insert(0, os.getcwd())
import hdl21 as h
from hdl21.generators import Series, Wrapper


def mk(name):
    m = h.Module(name=name)
    m.VDD, m.VSS = h.Power(), h.Ground()
    m.clk = h.Clock()
    m.a = h.Input(desc="data in", related_clk=m.clk, related_pwr=m.VDD, related_gnd=m.VSS)
    m.b = h.Output(desc="data out")
    m.a.props["pin_layer"] = "met2"
    m.d = h.Diff(port=True, role=h.Diff.Roles.SINK, desc="differential input")
    return m


def describe(mod):
    out = {}
    for nm, p in mod.ports.items():
        rel = {k: (getattr(p, k).name if getattr(p, k) is not None else None) for k in ("related_clk", "related_pwr", "related_gnd")}
        out[nm] = dict(width=p.width, direction=p.direction.name, usage=p.usage.name, desc=p.desc, props=dict(p.props.inner), **rel)
    for nm, b in mod.bundle_ports.items():
        out[nm] = dict(of=b.of.name, role=getattr(b.role, "name", b.role), flipped=b.flipped, desc=b.desc)
    return out


problems = []
for label, make in {
    "Wrapper(U)": lambda u: Wrapper(u),
    "Series(U, nser=1)": lambda u: Series(unit=u, conns=("a", "b"), nser=1),
    "Series(U, nser=2)": lambda u: Series(unit=u, conns=("a", "b"), nser=2),
}.items():
    U = mk("U_" + str(len(problems)))
    want, got = describe(U), describe(make(U))
    for port in want:
        diff = {k: (want[port][k], got.get(port, {}).get(k)) for k in want[port] if want[port][k] != got.get(port, {}).get(k)}
        if diff:
            problems.append(f"{label}: port `{port}` (unit value, generated value): {diff}")

if problems:
    print("VIOLATION (C19: 'Wrapper(m) exposes exactly m's ports - signal and bundle valued'):")
    for p in problems:
        print("  -", p)
    sys.exit(1)
print("no violation")
sys.exit(0)
