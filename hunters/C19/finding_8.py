"""C19 finding 8: ill-formed series pairs are accepted silently.

 (a) a pair that is not two DISTINCT ports - conns=("p","p") - builds, elaborates and exports a module that is no series
     stack at all: all units in parallel on `n`, `p` of the first nser-1 units on floating nets;
 (b) with nser=1 the pair is not looked at at all: non-existent ports, bundle-valued ports, width-mismatched ports are all
     accepted (the same pairs are rejected for nser=2), so a sweep over nser only fails from 2 on;
 (c) a pair given by Signal is resolved by `.name` only: Signals that are no ports of the unit (an internal Signal of an
     unrelated module, a Signal of a different width) are accepted as "the unit's ports".
"""
import os, sys; sys.path.insert(0, os.getcwd())
import hdl21 as h
from hdl21.generators import Series

R = h.R(r=1)
problems = []

# (a)
try:
    m = Series(unit=R, conns=("p", "p"), nser=3)
    pm = h.to_proto(m).modules[-1]
    shape = [{c.portname: str(c.target).split() for c in i.connections} for i in pm.instances]
    problems.append(f"(a) conns=('p','p'), nser=3 accepted; exported instances: {shape}")
except (ValueError, TypeError, RuntimeError) as e:
    print("(a) rejected:", e)

# (b)
@h.bundle
class Bn:
    a = h.Signal()

U = h.Module(name="U")
U.x = h.Input(width=2); U.y = h.Output(); U.bn = Bn(port=True)
for conns in (("nope", "zilch"), ("x", "bn"), ("x", "y")):
    r = {}
    for n in (1, 2):
        try:
            Series(unit=U, conns=conns, nser=n); r[n] = "accepted"
        except (ValueError, TypeError, RuntimeError) as e:
            r[n] = "rejected"
    print("(b)", conns, r)
    if r[1] == "accepted" and r[2] == "rejected":
        problems.append(f"(b) conns={conns}: rejected for nser=2 but accepted for nser=1")

# (c)
Other = h.Module(name="Other")
Other.p = h.Signal(width=7)  # internal, 7 wide, belongs to another module
Other.n = h.Signal()
try:
    m = Series(unit=R, conns=(Other.p, Other.n), nser=2)
    h.to_proto(m)
    problems.append("(c) conns=(Other.p [internal, width 7], Other.n) accepted as ports `p`,`n` of the resistor")
except (ValueError, TypeError, RuntimeError) as e:
    print("(c) rejected:", e)

if problems:
    print("\nVIOLATION (C19 is stated for 'ordered pairs of distinct unit ports'; anything else is ill-formed input and is accepted):")
    for p in problems:
        print("  -", p)
    sys.exit(1)
print("no violation")
sys.exit(0)
