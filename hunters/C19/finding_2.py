"""C19 finding 2: external-module unit cells whose parameters are a `dict` are rejected by Series / MosStack / Wrapper.

`ExternalModule(paramtype=dict)` is a documented parameter style ("Parameter types may be either `hdl21.paramclass`es or the
built-in `dict`"), and it is what every device of the bundled ASAP7 PDK package uses.  Such a call is a perfectly good
`Instantiable`: instantiating it by hand in a Module exports fine.  As the unit of the built-in generators it blows up with
undescriptive errors:
    Series / MosStack  -> TypeError: unhashable type: 'dict'
    Wrapper            -> RuntimeError: Invalid parameter-class instance {...}
"""
import os, sys; sys.path.insert(0, os.getcwd())
import hdl21 as h
from hdl21.generators import Series, MosStack, Wrapper

Fet = h.ExternalModule(
    name="my_fet", desc="foundry fet", port_list=[h.Port(name="d"), h.Port(name="g"), h.Port(name="s"), h.Port(name="b")], paramtype=dict
)
unit = Fet(w=1, l=2)

# Sanity: the unit is fine when instantiated by hand
@h.module
class ByHand:
    d, g, s, b, mid = h.Signals(5)
    m0 = unit(d=d, g=g, s=mid, b=b)
    m1 = unit(d=mid, g=g, s=s, b=b)

pkg = h.to_proto(ByHand)
assert len(pkg.modules[0].instances) == 2

problems = []
cases = {
    "Series(unit, ('d','s'), nser=2)": lambda: Series(unit=unit, conns=("d", "s"), nser=2),
    "Series(unit, ('d','s'), nser=1)": lambda: Series(unit=unit, conns=("d", "s"), nser=1),
    "MosStack(unit, nser=3)": lambda: MosStack(unit=unit, nser=3),
    "Wrapper(unit)": lambda: Wrapper(unit),
}
try:
    sys.path.insert(0, os.path.join(os.getcwd(), "pdks", "Asap7"))
    import asap7_hdl21
    a7 = [v for k, v in vars(asap7_hdl21.modules).items() if isinstance(v, h.ExternalModule)][0]
    cases[f"MosStack(asap7 {a7.name}, nser=2)"] = lambda: MosStack(unit=a7(), nser=2)
except Exception as e:  # PDK package not importable: skip that case
    print("(asap7 case skipped:", e, ")")

for label, fn in cases.items():
    try:
        m = fn()
        h.to_proto(m)
        print(label, "-> ok")
    except Exception as e:
        msg = f"{label} -> {type(e).__name__}: {str(e)[:120]}"
        print(msg)
        problems.append(msg)

if problems:
    print("\nVIOLATION (C19 quantifies over 'external modules' as unit cells; these valid units are not accepted)")
    sys.exit(1)
print("no violation")
sys.exit(0)
