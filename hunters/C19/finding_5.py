"""C19 finding 5: Series / MosStack results are cached on the IDENTITY of a unit Module that is still editable.

A call made after the unit gained a port returns the module generated for the OLD unit: it lacks the new port, and cannot
be elaborated.  (The same call on an identical unit that had its three ports from the start works.)
"""
import os, sys; sys.path.insert(0, os.getcwd())
import hdl21 as h
from hdl21.generators import Series


def mk(name):
    m = h.Module(name=name)
    m.x, m.y = h.Input(), h.Output()
    m.r = h.R(r=1)(p=m.x, n=m.y)
    return m


problems = []
for n in (1, 2):
    U = mk(f"U{n}")
    first = Series(unit=U, conns=("x", "y"), nser=n)  # an early call; its result is not even used
    U.en = h.Input()  # the unit is then completed
    second = Series(unit=U, conns=("x", "y"), nser=n)  # the call that matters, made on the 3-port unit
    want = sorted(U.ports)
    got = sorted(second.ports)
    print(f"nser={n}: unit ports {want}; ports of Series(unit) called now: {got}; same object as the early result: {second is first}")
    if got != want:
        problems.append(f"nser={n}: Series(unit=U) has ports {got}, unit has {want}")
    try:
        h.to_proto(second)
    except Exception as e:
        problems.append(f"nser={n}: export fails: {str(e).splitlines()[-1][:160]}")

if problems:
    print("\nVIOLATION (C19: 'every other unit port is wired in parallel to the same-named module port' / 'exposes exactly m's ports'):")
    for p in problems:
        print("  -", p)
    sys.exit(1)
print("no violation")
sys.exit(0)
