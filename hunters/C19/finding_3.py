"""C19 finding 3: in SPICE / Spectre netlists of a Series stack, the internal series nets are shorted to unit ports named `i_0`, `i_1`, ...

Series creates ONE internal bus `i` of width (nser-1)*w for the series nodes (`_fresh_name` only avoids the exact name `i`).
The netlisters write bit k of a bus `i` as `i_k`.  A unit with (parallel-wired) scalar ports called `i_0`, `i_1` -
current inputs, say - therefore ends up, in the written netlist, with its "private" series nets being the very nets of
those ports.  The VLSIR package is right; every flat netlist format is wrong, silently.
"""
import os, sys, io, re; sys.path.insert(0, os.getcwd())
import hdl21 as h
from hdl21.generators import Series

E = h.ExternalModule(
    name="Cell", desc="unit", port_list=[h.Port(name="a"), h.Port(name="b"), h.Port(name="i_0"), h.Port(name="i_1")]
)
N = 3
stack = Series(unit=E(), conns=("a", "b"), nser=N)

problems = []
for fmt in ("spice", "spectre"):
    s = io.StringIO()
    h.netlist(stack, s, fmt=fmt)
    text = s.getvalue()
    # Pull out the connection lists of the N instances, in order
    if fmt == "spice":
        conns = re.findall(r"xunits_(\d+)\s*\n\+\s*([^\n]*)\n", text)
    else:
        conns = re.findall(r"units_(\d+)\s*\n\s*\+\s*// Ports:\s*\n\s*\+\s*\(([^)]*)\)", text)
    conns = {int(k): v.split() for k, v in conns}
    assert len(conns) == N, text
    # Port order of the unit: a b i_0 i_1
    for k in range(N - 1):
        net = conns[k][1]  # unit k's `b`
        assert net == conns[k + 1][0], "series chain broken?"
        users = [(j, idx) for j in range(N) for idx, nm in enumerate(conns[j]) if nm == net]
        if len(users) != 2:
            problems.append(
                f"{fmt}: series net between unit {k} and {k+1} is written as `{net}`, "
                f"which is also used by {len(users) - 2} other unit ports (the pass-through ports named `{net}`)"
            )
    ports_line = re.search(r"(?:\.SUBCKT|subckt)\s+\S+\s*\n\s*\+\s*([^\n]*)", text).group(1).split()
    shared = set(ports_line) & {conns[k][1] for k in range(N - 1)}
    if shared:
        problems.append(f"{fmt}: internal series net(s) {sorted(shared)} are ports of the generated sub-circuit")

if problems:
    print("VIOLATION (C19: \"unit k's second series port joins unit k+1's first on a private net shared with nothing else\"):")
    for p in problems:
        print("  -", p)
    sys.exit(1)
print("no violation")
sys.exit(0)
