"""C19 finding 10: external-module units with a port named like a Module method/container (`add`, `get`, `ports`, `props`, ...)
cannot be stacked or wrapped.

ExternalModule port names are free (they are dictated by the foreign netlist); such a cell instantiates and exports fine
by hand.  Series / Wrapper copy every unit port onto an `hdl21.Module`, which bans these names, and fail with
"Error attempting to over-write protected attribute add of Module Module(_anon_)".
"""
import os, sys; sys.path.insert(0, os.getcwd())
import hdl21 as h
from hdl21.generators import Series, Wrapper

Alu = h.ExternalModule(name="alu", desc="", port_list=[h.Input(name="a"), h.Output(name="z"), h.Input(name="add"), h.Input(name="get")])

T = h.Module(name="T")
T.a, T.m, T.z, T.add_, T.get_ = h.Signals(5)
T.add(Alu()(**{"a": T.a, "z": T.m, "add": T.add_, "get": T.get_}), name="u0")
T.add(Alu()(**{"a": T.m, "z": T.z, "add": T.add_, "get": T.get_}), name="u1")
h.to_proto(T)  # the hand-made 2-stack is fine

problems = []
for label, fn in {
    "Series(alu, ('a','z'), nser=2)": lambda: Series(unit=Alu(), conns=("a", "z"), nser=2),
    "Series(alu, ('a','z'), nser=1)": lambda: Series(unit=Alu(), conns=("a", "z"), nser=1),
    "Wrapper(alu)": lambda: Wrapper(Alu()),
}.items():
    try:
        h.to_proto(fn())
        print(label, "-> ok")
    except Exception as e:
        msg = f"{label} -> {type(e).__name__}: {str(e)[:140]}"
        print(msg)
        problems.append(msg)
if problems:
    print("\nVIOLATION (C19 quantifies over external modules as unit cells; this valid unit is not accepted)")
    sys.exit(1)
print("no violation")
sys.exit(0)
