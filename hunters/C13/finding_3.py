"""C13 finding 3: the documented `number * e(exp)` way of writing a prefixed number rounds the
mantissa to the 28 digits of the default decimal context (`Exponent.__rmul__`/`__mul__`), whereas
`number * Prefix` keeps every digit. The value that reaches the package lost digits."""
import os, sys; sys.path.insert(0, os.getcwd())
from decimal import Decimal
import hdl21 as h
from hdl21.prefix import e, n

digits = "1.000000000000000000000000000001"  # 31 significant digits

def export_r(val):
    m = h.Module(name="M")
    m.a, m.b = h.Signal(), h.Signal()
    m.r = h.primitives.R(r=val)(p=m.a, n=m.b)
    v = h.to_proto(m).modules[0].instances[0].parameters[0].value.prefixed
    return v.string_value or str(v.int64_value)

ref = export_r(Decimal(digits) * n)          # keeps all digits
bad = []
for name, val in [("Decimal * e(-9)", Decimal(digits) * e(-9)), ("str * e(-9)", digits * e(-9)), ("e(-9) * Decimal", e(-9) * Decimal(digits))]:
    got = export_r(val)
    print(f"{name}: exported mantissa {got} NANO   (Decimal * n exports {ref})")
    if Decimal(got) != Decimal(digits):
        bad.append(name)
if bad:
    print("VIOLATION: mantissa digits lost for", bad)
    sys.exit(1)
sys.exit(0)
