"""C13 finding 11 (minor): a `Prefixed` given to an `int`-typed parameter field is converted via `float`
(pydantic's lax int validator uses `Prefixed.__float__`), so integers above 2**53 silently lose bits."""
import os, sys; sys.path.insert(0, os.getcwd())
from typing import Optional
import hdl21 as h

@h.paramclass
class P:
    i = h.Param(dtype=Optional[int], desc="an integer parameter", default=None)

Y = h.ExternalModule(name="Y", port_list=[h.Port(name="p"), h.Port(name="q")], paramtype=P)
given = 2**53 + 1

def export_i(val):
    m = h.Module(name="M")
    m.a, m.b = h.Signal(), h.Signal()
    m.i = Y(i=val)(p=m.a, q=m.b)
    return h.to_proto(m).modules[0].instances[0].parameters[0].value.int64_value

print("plain int      ->", export_i(given))
try:
    got = export_i(h.Prefixed(number=given))
except Exception as ex:
    print("Prefixed refused:", type(ex).__name__); sys.exit(0)
print("Prefixed(int)  ->", got)
if got != given:
    print(f"VIOLATION: given {given}, exported {got}")
    sys.exit(1)
sys.exit(0)
