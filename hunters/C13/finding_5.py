"""C13 finding 5: string / Literal valued `w` or `l` crash `Bipolar` (and `Npn`, `Pnp`, and the
sample PDK's `Nmos`/`Pmos` external modules): their `__post_init__` compares the value with `<= 0`,
which `Literal` does not support. Every other primitive accepts the same input and exports a literal."""
import os, sys; sys.path.insert(0, os.getcwd())
import hdl21 as h
from hdl21 import primitives as P
from hdl21.pdk import sample_pdk

def export_params(call):
    m = h.Module(name="M")
    m.a, m.b = h.Signal(), h.Signal()
    m.i = call(**{p: (m.a if k % 2 == 0 else m.b) for k, p in enumerate(call.ports)})
    pi = h.to_proto(m).modules[0].instances[0]
    return {p.name: p.value for p in pi.parameters}

# reference: the same thing works on Mos / Diode
assert export_params(P.Mos(w="wparam"))["w"].literal == "wparam"
assert export_params(P.Diode(w=h.Literal("wparam")))["w"].literal == "wparam"

bad = []
for name, mk in [
    ("Bipolar(w='wparam')", lambda: P.Bipolar(w="wparam")),
    ("Npn(l=Literal('lparam'))", lambda: P.Npn(l=h.Literal("lparam"))),
    ("sample_pdk.Nmos(w='wparam')", lambda: sample_pdk.Nmos(w="wparam")),
]:
    try:
        got = export_params(mk())
        print(name, "ok:", {k: v.literal for k, v in got.items() if v.literal})
    except Exception as ex:
        print(name, "raised", type(ex).__name__, ":", str(ex).strip().splitlines()[-1])
        bad.append(name)
if bad:
    print("VIOLATION: literal-valued parameters rejected with an unrelated TypeError for", bad)
    sys.exit(1)
sys.exit(0)
