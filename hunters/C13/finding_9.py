"""C13 finding 9 (minor): plain `int` parameters in [2**63, 2**64) - 64-bit unsigned values - abort the
export with a bare protobuf `ValueError: Value out of range`, naming neither instance nor parameter,
although the very same number is exported fine when it arrives through `Scalar` (as a prefixed string)."""
import os, sys; sys.path.insert(0, os.getcwd())
import hdl21 as h

X = h.ExternalModule(name="X", port_list=[h.Port(name="p"), h.Port(name="q")], paramtype=dict)

def export_params(call):
    m = h.Module(name="M")
    m.a, m.b = h.Signal(), h.Signal()
    m.i = call(**{p: (m.a if k % 2 == 0 else m.b) for k, p in enumerate(call.ports)})
    return {p.name: p.value for p in h.to_proto(m).modules[0].instances[0].parameters}

big = 2**64 - 1
print("through Scalar:", str(export_params(h.primitives.R(r=big))["r"]).replace("\n", " "))
try:
    got = export_params(X(seed=big))["seed"]
    print("plain int:", str(got).replace("\n", " "))
    ok = str(big) in str(got)
except Exception as ex:
    print("plain int raised", type(ex).__name__, ":", ex)
    ok = False
if not ok:
    print("VIOLATION: 64-bit integer parameter not exported")
    sys.exit(1)
sys.exit(0)
