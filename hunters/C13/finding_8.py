"""C13 finding 8: parameters named `self`, `arg` or `callee` cannot be given by keyword to an
ExternalModule (or Primitive): the names collide with the Python parameters of `__call__` / `param_call`.
`callee=` and `self=` die with "got multiple values for argument", `arg=` is mistaken for the whole
parameter object. The same parameters are accepted when given as a ready-made paramclass instance."""
import os, sys; sys.path.insert(0, os.getcwd())
import hdl21 as h

@h.paramclass
class P:
    callee = h.Param(dtype=int, desc="a parameter that happens to be called `callee`", default=0)
    arg = h.Param(dtype=int, desc="a parameter that happens to be called `arg`", default=0)

ports = [h.Port(name="p"), h.Port(name="q")]
Y = h.ExternalModule(name="Y", port_list=ports, paramtype=P)
X = h.ExternalModule(name="X", port_list=ports, paramtype=dict)

def export_params(call):
    m = h.Module(name="M")
    m.a, m.b = h.Signal(), h.Signal()
    m.i = call(p=m.a, q=m.b)
    return {p.name: p.value.int64_value for p in h.to_proto(m).modules[0].instances[0].parameters}

print("reference Y(P(callee=1, arg=2)) ->", export_params(Y(P(callee=1, arg=2))))
bad = []
for em, kw in [(Y, dict(callee=1)), (Y, dict(arg=2)), (X, dict(callee=1)), (X, dict(arg=2)), (X, dict(self=3))]:
    try:
        got = export_params(em(**kw))
        ok = all(got.get(k) == v for k, v in kw.items())
        print(em.name, kw, "->", got)
        if not ok:
            bad.append((em.name, kw))
    except Exception as ex:
        print(em.name, kw, "raised", type(ex).__name__, ":", str(ex)[:110])
        bad.append((em.name, kw))
if bad:
    print("VIOLATION: keyword parameters not exported under their name:", bad)
    sys.exit(1)
sys.exit(0)
