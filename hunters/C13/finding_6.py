"""C13 finding 6: positive widths/lengths below 5e-21 (e.g. `1 * ZEPTO`, `1 * YOCTO`, `Decimal("1E-21")`)
are rejected by `Bipolar` (and the sample PDK MOS) as "invalid width": `Prefixed.__le__` scales both
operands to the prefix of the *larger value's* operand (UNIT, for the literal 0) and rounds to 20 places,
so `1*ZEPTO <= 0` is True. The property quantifies over all 21 prefixes for all primitives."""
import os, sys; sys.path.insert(0, os.getcwd())
from decimal import Decimal
import hdl21 as h
from hdl21 import primitives as P
from hdl21.prefix import y, z, a

def export_w(call):
    m = h.Module(name="M")
    m.a, m.b = h.Signal(), h.Signal()
    m.i = call(**{p: (m.a if k % 2 == 0 else m.b) for k, p in enumerate(call.ports)})
    pi = h.to_proto(m).modules[0].instances[0]
    return {p.name: p.value for p in pi.parameters}["w"].prefixed

bad = []
for val in [1 * a, 1 * z, 1 * y, Decimal("1E-21"), 4 * z]:
    assert export_w(P.Mos(w=val)) is not None  # fine on Mos
    try:
        export_w(P.Bipolar(w=val))
        print("Bipolar(w=%s) ok" % val)
    except Exception as ex:
        print("Bipolar(w=%s) raised %s: ...%s" % (val, type(ex).__name__, str(ex).split("[type")[0][-60:].strip()))
        bad.append(str(val))
if bad:
    print("VIOLATION: positive values rejected as non-positive:", bad)
    sys.exit(1)
sys.exit(0)
