"""C13 finding 1: a `dict` of parameters handed to an ExternalModule is kept by reference.
Editing / re-using that dict for the next instance silently changes the parameters of the
instance created earlier: the value given to instance `i1` (w=1) never reaches the package."""
import os, sys; sys.path.insert(0, os.getcwd())
import hdl21 as h

X = h.ExternalModule(name="X", port_list=[h.Port(name="p"), h.Port(name="q")], paramtype=dict)

m = h.Module(name="M")
m.a, m.b = h.Signal(), h.Signal()
d = {"w": 1}
m.i1 = X(d)(p=m.a, q=m.b)   # given: w=1
d["w"] = 2                   # the usual "re-use the dict in a loop" history
m.i2 = X(d)(p=m.a, q=m.b)   # given: w=2

pkg = h.to_proto(m)
got = {i.name: {p.name: p.value.int64_value for p in i.parameters} for i in pkg.modules[0].instances}
print("exported:", got)
if got != {"i1": {"w": 1}, "i2": {"w": 2}}:
    print("VIOLATION: instance i1 was given w=1 but exports", got["i1"], "- the call aliases the caller's dict")
    sys.exit(1)
sys.exit(0)
