"""C13 finding 2: `Nmos`/`Pmos`/`Npn`/`Pnp` silently overwrite an explicitly given `tp` value.
`Nmos(tp=MosType.PMOS)` is accepted without complaint and exports tp="NMOS":
the value given for parameter `tp` does not appear on the exported instance."""
import os, sys; sys.path.insert(0, os.getcwd())
import hdl21 as h
from hdl21 import primitives as P

def export_tp(call):
    m = h.Module(name="M")
    m.a, m.b = h.Signal(), h.Signal()
    ports = list(call.ports)
    m.i = call(**{p: (m.a if k % 2 == 0 else m.b) for k, p in enumerate(ports)})
    pi = h.to_proto(m).modules[0].instances[0]
    return {p.name: p.value.literal for p in pi.parameters}["tp"]

bad = []
cases = [
    ("Nmos(tp=PMOS)", lambda: P.Nmos(tp=P.MosType.PMOS), "PMOS"),
    ("Pmos(MosParams(tp=NMOS... explicit))", lambda: P.Pmos(P.MosParams(tp=P.MosType.NMOS, w=1)), "NMOS"),
    ("Npn(tp=PNP)", lambda: P.Npn(tp=P.BipolarType.PNP), "PNP"),
    ("Pnp(tp=NPN)", lambda: P.Pnp(tp=P.BipolarType.NPN), "NPN"),
]
for name, mk, given in cases:
    try:
        got = export_tp(mk())
    except Exception as ex:  # rejecting the contradictory input would be fine
        print(name, "rejected:", type(ex).__name__)
        continue
    print(f"{name}: given tp={given}, exported tp={got}")
    if got != given:
        bad.append(name)
if bad:
    print("VIOLATION: explicitly given `tp` silently replaced for", bad)
    sys.exit(1)
sys.exit(0)
