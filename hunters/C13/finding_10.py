"""C13 finding 10 (minor): a `dict` parameter set with the key `None` is accepted and exported under the
empty name "" (protobuf treats None as "unset"), whereas every other non-string key is rejected."""
import os, sys; sys.path.insert(0, os.getcwd())
import hdl21 as h

X = h.ExternalModule(name="X", port_list=[h.Port(name="p"), h.Port(name="q")], paramtype=dict)
m = h.Module(name="M")
m.a, m.b = h.Signal(), h.Signal()
m.i = X({None: 5, "w": 1})(p=m.a, q=m.b)
try:
    names = [p.name for p in h.to_proto(m).modules[0].instances[0].parameters]
except Exception as ex:
    print("rejected:", type(ex).__name__, ex)
    sys.exit(0)
print("exported parameter names:", names)
if "" in names:
    print('VIOLATION: ill-formed parameter name None accepted and exported as ""')
    sys.exit(1)
sys.exit(0)
