"""C13 finding 7: exporting a prefixed number with a large positive exponent takes time quadratic in
the exponent (`export_prefixed` materialises `int(number)`, i.e. 10**exponent, just to test for
integrality). `Decimal("1E+300000")` takes several seconds, `1E+3000000` more than ten minutes and
anything near Decimal's real exponent limit never finishes - although the property demands that
"Decimal mantissas of any length and exponent" reach the package. Negative exponents are instant."""
import os, sys, subprocess, time
sys.path.insert(0, os.getcwd())

CHILD = r'''
import os, sys; sys.path.insert(0, os.getcwd())
from decimal import Decimal
import hdl21 as h
m = h.Module(name="M")
m.a, m.b = h.Signal(), h.Signal()
m.r = h.primitives.R(r=Decimal(sys.argv[1]))(p=m.a, n=m.b)
v = h.to_proto(m).modules[0].instances[0].parameters[0].value.prefixed
assert v.string_value == sys.argv[1], v
'''
def run(num, timeout):
    t = time.time()
    try:
        r = subprocess.run([sys.executable, "-c", CHILD, num], timeout=timeout, capture_output=True, text=True)
        return time.time() - t, r.returncode, r.stderr[-300:]
    except subprocess.TimeoutExpired:
        return None, None, ""

t_small, rc, err = run("1E-3000000", 60)
print("1E-3000000 :", "%.2fs rc=%s" % (t_small, rc) if t_small is not None else "timeout", err)
t_big, rc2, err2 = run("1E+3000000", 30)
print("1E+3000000 :", "%.2fs rc=%s" % (t_big, rc2) if t_big is not None else "no result after 30 s", err2)
if t_big is None or rc2 != 0:
    print("VIOLATION: a valid Decimal exponent cannot be exported (hang / failure)")
    sys.exit(1)
sys.exit(0)
