"""C13 finding 4: `Prefixed.__eq__` rounds to 20 decimal places while `__hash__` is exact-by-value
modulo 2**61-1. Two *different* prefixed numbers whose difference is a multiple of (2**61-1)*10**-k
hash equally AND compare equal, so every hash-table keyed by parameter values (the generator cache,
the PDK compile caches) hands back the entry of the other value. The resistor below is given
r = 1.000000000000000000000000002305843009213693951 K and is exported with r = 1 K."""
import os, sys; sys.path.insert(0, os.getcwd())
from decimal import Decimal
import hdl21 as h
from hdl21.prefix import K

P61 = 2**61 - 1
r1 = h.Prefixed(number=Decimal(1), prefix=K)
r2 = h.Prefixed(number=Decimal("1." + "0" * 26 + str(P61)), prefix=K)

@h.paramclass
class P:
    r = h.Param(dtype=h.Scalar, desc="resistance")

@h.generator
def G(p: P) -> h.Module:
    m = h.Module()
    m.a, m.b = h.Signal(), h.Signal()
    m.r = h.primitives.R(r=p.r)(p=m.a, n=m.b)
    return m

def export_r(mod):
    v = h.to_proto(mod).modules[0].instances[0].parameters[0].value.prefixed
    return Decimal(v.string_value) if v.string_value else Decimal(v.int64_value)

got1 = export_r(G(r=r1))
got2 = export_r(G(r=r2))
print("given", r1.number, "K -> exported", got1, "K")
print("given", r2.number, "K -> exported", got2, "K")
if got2 != r2.number:
    print("VIOLATION: the second resistor's value was replaced by that of an earlier, different call")
    sys.exit(1)
sys.exit(0)
