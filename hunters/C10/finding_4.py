"""C10 finding 4: the flattener names members after the `.name` attribute of the leaf / sub-bundle
OBJECT rather than after the key under which the bundle definition holds it. A Signal (or bundle
instance) object that is also assigned into a second bundle definition is renamed by that second
assignment, so the first bundle's ports silently get the other bundle's member name."""
import os, sys; sys.path.insert(0, os.getcwd())
import hdl21 as h

clk = h.Input()

@h.bundle
class Pair_:
    a = h.Input()

shared_sub = Pair_()

@h.bundle
class B1:
    ck = clk            # member `ck` of B1
    d = h.Output()
    s = shared_sub      # member `s` of B1

@h.bundle
class B2:
    clock = clk         # the same Signal object re-used as member `clock` of another bundle
    q = h.Input()
    other = shared_sub  # the same bundle-instance object re-used as member `other`

@h.module
class M:
    p = B1(port=True)

print("hdl21 from", h.__file__)
print("members of B1:", list(B1.signals), list(B1.bundles))
pkg = h.to_proto(M)
pm = [x for x in pkg.modules if x.name.endswith(".M")][0]
ports = sorted(p.signal for p in pm.ports)
print("ports of M   :", ports)
want = sorted(["p_ck", "p_d", "p_s_a"])
if ports != want:
    print(f"VIOLATION: B1's members are ck, d and s.a, so port `p` must flatten to {want}; got {ports} "
          "(member names of the unrelated bundle B2 leak into M's port names; no error is raised).")
    sys.exit(1)
sys.exit(0)
