"""C10 finding 6 (argument form): `BundleInstance(role=...)` is annotated `Union[Role, Enum, None]`
and a bundle's `roles` may be given as an Enum class (converted in place, with a deprecation
warning). Passing the Enum member as the instance's role is accepted, but it never compares equal
to the converted `Role`s, so every role-carrying leaf silently becomes undirected."""
import os, sys, warnings; sys.path.insert(0, os.getcwd())
import hdl21 as h
from enum import Enum, auto

class HostDevice(Enum):
    HOST = auto()
    DEVICE = auto()

B = h.Bundle(name="B")
with warnings.catch_warnings():
    warnings.simplefilter("ignore")
    B.roles = HostDevice                     # accepted: converted to a RoleSet
B.tx = h.Signal(src=B.roles.HOST, dest=B.roles.DEVICE)
B.rx = h.Signal(src=B.roles.DEVICE, dest=B.roles.HOST)

@h.module
class Host:
    b = B(port=True, role=HostDevice.HOST)   # the Enum member naming the same role

DIRS = {0: "INPUT", 1: "OUTPUT", 2: "INOUT", 3: "NONE"}
pkg = h.to_proto(Host)
pm = [x for x in pkg.modules if x.name.endswith(".Host")][0]
got = {p.signal: DIRS[p.direction] for p in pm.ports}
print("hdl21 from", h.__file__)
print("got :", got)
want = {"b_tx": "OUTPUT", "b_rx": "INPUT"}
print("want:", want)
if got != want:
    print("VIOLATION: the instance's role is HOST, the source of tx and destination of rx, yet both are "
          "exported undirected (the Enum member is accepted but silently matches no Role).")
    sys.exit(1)
sys.exit(0)
