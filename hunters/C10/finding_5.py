"""C10 finding 5: a leaf (or sub-bundle) called `name` in an `@h.bundle` class body is silently
dropped: `Bundle.__setattr__` special-cases the key `name`, so the Signal overwrites the bundle's
name instead of becoming a member. The bundle port then flattens without that leaf, and a parent
connecting the member is told it does not exist. (`Bundle.add(sig, name="name")` does work.)"""
import os, sys; sys.path.insert(0, os.getcwd())
import hdl21 as h

@h.bundle
class Tag:
    name = h.Input(width=8)     # a leaf called `name`
    valid = h.Output()

@h.module
class M:
    t = Tag(port=True)

print("hdl21 from", h.__file__)
print("Tag.name =", repr(Tag.name), " members:", list(Tag.signals))
pkg = h.to_proto(M)
pm = [x for x in pkg.modules if x.name.endswith(".M")][0]
w = {s.name: s.width for s in pm.signals}
ports = {p.signal: w[p.signal] for p in pm.ports}
print("ports of M:", ports)
if ports != {"t_name": 8, "t_valid": 1}:
    print("VIOLATION: 'flattens to one scalar port per leaf signal' - the leaf `name` (width 8) declared in "
          "the bundle body has no flattened port `t_name`, and no error was raised.")
    sys.exit(1)
sys.exit(0)
