"""C10 finding 1: roles created with `h.Role()` / `h.Roles(n)` (the documented "list of Roles" way of
declaring a bundle's roles, e.g. `Host, Device = 2 * h.Role()`) all compare equal, so every
role-carrying leaf is flattened as an OUTPUT, whatever the role of the bundle-port instance."""
import os, sys; sys.path.insert(0, os.getcwd())
import hdl21 as h

@h.bundle
class Link:
    HOST, DEVICE = h.Roles(2)          # same with `2 * h.Role()`
    tx = h.Signal(src=HOST, dest=DEVICE)
    rx = h.Signal(src=DEVICE, dest=HOST, width=3)

@h.module
class Host:
    b = Link(port=True, role=Link.roles.HOST)

@h.module
class Device:
    b = Link(port=True, role=Link.roles.DEVICE)

DIRS = {0: "INPUT", 1: "OUTPUT", 2: "INOUT", 3: "NONE"}
def ports(m):
    pkg = h.to_proto(m)
    pm = [x for x in pkg.modules if x.name.endswith("." + m.name)][0]
    return {p.signal: DIRS[p.direction] for p in pm.ports}

got = {"Host": ports(Host), "Device": ports(Device)}
want = {
    "Host": {"b_tx": "OUTPUT", "b_rx": "INPUT"},    # HOST is the source of tx, the destination of rx
    "Device": {"b_tx": "INPUT", "b_rx": "OUTPUT"},  # DEVICE is the destination of tx, the source of rx
}
print("hdl21 from", h.__file__)
print("got :", got)
print("want:", want)
if got != want:
    print("VIOLATION: role-carrying leaves must be outputs at their source role and inputs at their "
          "destination role; with roles made by h.Roles()/h.Role() both ends drive both signals "
          f"(HOST == DEVICE is {Link.roles.HOST == Link.roles.DEVICE}).")
    sys.exit(1)
sys.exit(0)
