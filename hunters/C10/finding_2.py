"""C10 finding 2: when the joined name `<instance>_<member path>` is already taken in the module
(by a signal, by another bundle's flattened member, or by another member of the same bundle whose
path joins to the same string) the flattener silently appends underscores. The flattened port is
then NOT named by joining instance name and member path, and which of the colliding members gets
the documented name depends on declaration order."""
import os, sys; sys.path.insert(0, os.getcwd())
import hdl21 as h

DIRS = {0: "INPUT", 1: "OUTPUT", 2: "INOUT", 3: "NONE"}
def ports(m):
    pkg = h.to_proto(m)
    pm = [x for x in pkg.modules if x.name.endswith("." + m.name)][0]
    w = {s.name: s.width for s in pm.signals}
    return {p.signal: (w[p.signal], DIRS[p.direction]) for p in pm.ports}

bad = []

# (a) two members of ONE bundle definition: leaf `a_b` and leaf `b` of sub-bundle `a`
@h.bundle
class Inner:
    b = h.Input()
@h.bundle
class Outer:
    a = Inner()
    a_b = h.Output(width=2)
@h.module
class Ma:
    p = Outer(port=True)
got = ports(Ma)
print("(a)", got)
if set(got) != {"p_a_b"} and "p_a_b_" in got:
    bad.append(f"(a) member path a.b of port `p` was exported as `p_a_b_` (not `p_a_b`): {got}")

# (b) two bundle ports of one module: `a` (member path b.c) and `a_b` (member c)
@h.bundle
class Leaf:
    c = h.Input()
@h.bundle
class Mid:
    b = Leaf()
@h.module
class Mb:
    a = Mid(port=True)                      # a.b.c is an input
    a_b = h.flipped(Leaf(port=True))        # a_b.c is an output
got = ports(Mb)
print("(b)", got)
if "a_b_c_" in got:
    bad.append(f"(b) one of a.b.c / a_b.c was exported as `a_b_c_`: {got}; the port called `a_b_c` is the "
               f"{got['a_b_c'][1]} one, i.e. which member gets the name depends on declaration order")

# (c) a plain signal of the module already has the name; the port called `p_x_` carries member `x`, not `x_`
@h.bundle
class B:
    x = h.Input(width=1)
    x_ = h.Output(width=5)
@h.module
class Mc:
    p_x = h.Signal()
    p = B(port=True)
got = ports(Mc)
print("(c)", got)
if got.get("p_x_") != (5, "OUTPUT") or "p_x" not in got:
    bad.append(f"(c) member x_ (width 5, output) should be port `p_x_` and member x port `p_x`; got {got}")

print("hdl21 from", h.__file__)
if bad:
    print("VIOLATION: 'named by joining the instance name and the member path with underscores' -")
    for b in bad: print("  ", b)
    sys.exit(1)
sys.exit(0)
