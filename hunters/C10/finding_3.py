"""C10 finding 3: the documented alternative spelling of the `port` argument, a `hdl21.Visibility`
value, is only tested for truthiness. `port=h.Visibility.INTERNAL` (an internal bundle instance)
is therefore flattened into PORTS of the module."""
import os, sys; sys.path.insert(0, os.getcwd())
import hdl21 as h

@h.bundle
class D:
    p = h.Input()
    n = h.Output(width=2)

@h.module
class M:
    d1 = D(port=h.Visibility.PORT)       # readme: "set the port argument to either True or hdl21.Visibility.PORT"
    d2 = D(port=h.Visibility.INTERNAL)   # an internal (non-port) bundle instance

pkg = h.to_proto(M)
pm = [x for x in pkg.modules if x.name.endswith(".M")][0]
ports = sorted(p.signal for p in pm.ports)
internal = sorted(s.name for s in pm.signals if s.name not in ports)
print("hdl21 from", h.__file__)
print("ports   :", ports)
print("internal:", internal)
want_ports = ["d1_n", "d1_p"]
want_internal = ["d2_n", "d2_p"]
if ports != want_ports or internal != want_internal:
    print("VIOLATION: 'Leaves of non-port bundle instances become internal signals' - the leaves of "
          "`d2 = D(port=h.Visibility.INTERNAL)` were exported as ports", [p for p in ports if p.startswith("d2")])
    sys.exit(1)
sys.exit(0)
