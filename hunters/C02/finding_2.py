"""C02 finding 2: on an InstanceArray, an extra connection to a port that does not exist is accepted
(and silently thrown away) when its name coincides with the flattened name of a bundle-port member.
The identical mutation on a plain Instance raises. Also: a missing connection to an (empty) bundle port
is reported on an Instance but not on an InstanceArray."""
import os, sys; sys.path.insert(0, os.getcwd())
import hdl21 as h


@h.bundle
class B:
    x = h.Signal()
    y = h.Signal(width=2)


def child():
    c = h.Module(name="HasB")
    c.b = B(port=True)
    c.p = h.Port(width=2)
    return c


def build(array: bool, name: str):
    HasB = child()
    m = h.Module(name=name)
    m.b = B()
    m.p = h.Signal(width=2)
    m.other = h.Signal()
    # `HasB` has ports `b` (a bundle) and `p`. It has no port `b_x`: this is an extra connection.
    conns = dict(b=m.b, p=m.p, b_x=m.other)
    m.dut = h.InstanceArray(HasB, 2)(**conns) if array else HasB(**conns)
    return m


bad = False

try:
    h.to_proto(build(False, "extra_on_instance"))
    print("plain Instance: accepted (unexpected)")
except RuntimeError as e:
    print("plain Instance with extra connection `b_x`: raises, as demanded:", str(e).splitlines()[-1][:110])

try:
    pkg = h.to_proto(build(True, "extra_on_array"))
    top = pkg.modules[-1]
    conns = [(i.name, c.portname, c.target.sig) for i in top.instances for c in i.connections]
    print("VIOLATION InstanceArray with extra connection `b_x=other`: to_proto returned a package.")
    print("   connections:", conns)
    print("   signal `other` is connected nowhere any more: the designer's connection was silently dropped")
    bad = True
except RuntimeError as e:
    print("InstanceArray: raises", e)

# Variation: missing connection to a bundle port, visible on an Instance but not on an array
E = h.Bundle(name="E")  # a bundle without members (yet)


def build2(array: bool, name: str):
    c = h.Module(name="HasE" + name)
    c.e = E(port=True)
    c.p = h.Port()
    m = h.Module(name=name)
    m.s = h.Signal()
    m.dut = h.InstanceArray(c, 2)(p=m.s) if array else c(p=m.s)  # port `e` left unconnected
    return m


try:
    h.to_proto(build2(False, "missing_on_instance"))
    print("plain Instance, missing `e`: accepted (unexpected)")
except RuntimeError as e:
    print("plain Instance with bundle port `e` unconnected: raises:", str(e).splitlines()[-1][:110])
try:
    h.to_proto(build2(True, "missing_on_array"))
    print("VIOLATION InstanceArray with bundle port `e` unconnected: to_proto returned a package")
    bad = True
except RuntimeError as e:
    print("InstanceArray missing `e`: raises")

if bad:
    print("\nProperty C02: 'a missing or an extra port connection, a reference to a non-existent port ... "
          "then elaborate, to_proto and netlist raise' - quantified over array connections too.")
    sys.exit(1)
sys.exit(0)
