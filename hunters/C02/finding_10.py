"""C02 finding 10: an anonymous bundle connected to a bundle port may carry a member the port's Bundle does
not have, as long as that member is itself an (anonymous or declared) bundle without signals: the
'non-existent members' check compares flattened signal paths only."""
import os, sys; sys.path.insert(0, os.getcwd())
import hdl21 as h


@h.bundle
class B:
    x = h.Signal()
    y = h.Signal(width=2)


E = h.Bundle(name="E")  # no members

bad = []
for tag in ("anonymous", "declared", "control"):
    HasB = h.Module(name="HasB_" + tag)
    HasB.b = B(port=True)
    m = h.Module(name="Top_" + tag)
    m.x = h.Signal(); m.y = h.Signal(width=2)
    if tag == "anonymous":
        extra = h.AnonymousBundle()
    elif tag == "declared":
        extra = m.add(E(), name="e")
    else:
        extra = m.add(h.Signal(), name="sig")  # a member with content: rejected
    m.i = HasB(b=h.AnonymousBundle(x=m.x, y=m.y, q=extra))  # `B` has no member `q`
    try:
        h.to_proto(m)
        print(f"VIOLATION ({tag}): to_proto returned a package for a connection with non-existent bundle member `q`")
        bad.append(tag)
    except RuntimeError as e:
        print(f"ok   ({tag}): raises:", str(e).splitlines()[-1][:100])

if bad:
    print("Property C02: 'a reference to a non-existent port or bundle member ... then elaborate, to_proto and netlist raise.'")
    sys.exit(1)
sys.exit(0)
