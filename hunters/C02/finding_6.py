"""C02 finding 6 (interpretation-dependent): out-of-range *range* indices are clamped rather than rejected.
`s[2:100]` of a 4-bit signal is exported as s[3:2]. Integer indices (s[100]) are rejected.
The library documents 'Python-style' slicing, so this may be deliberate; the property's clause
'an out-of-range or empty index' does not make the exception."""
import os, sys; sys.path.insert(0, os.getcwd())
import hdl21 as h

Inner = h.Module(name="Inner")
Inner.p = h.Port(width=2)

bad = False
for label, index in (("s[2:100]", slice(2, 100)), ("s[-100:2]", slice(-100, 2))):
    m = h.Module(name="clamp_" + str(abs(index.start)))
    m.s = h.Signal(width=4)
    m.i = Inner(p=m.s[index])
    try:
        pkg = h.to_proto(m)
        c = pkg.modules[-1].instances[0].connections[0].target.slice
        print(f"VIOLATION: {label} of a 4-bit signal accepted, exported as s[{c.top}:{c.bot}]")
        bad = True
    except Exception as e:
        print(label, "raises", type(e).__name__)

m = h.Module(name="int_index")
m.s = h.Signal(width=4)
Inner1 = h.Module(name="Inner1"); Inner1.p = h.Port()
m.i = Inner1(p=m.s[100])
try:
    h.to_proto(m); print("s[100] accepted (unexpected)")
except Exception as e:
    print("control s[100] raises", type(e).__name__)

sys.exit(1 if bad else 0)
