"""C02 finding 7 (history): once a Module has been elaborated, every pass skips it (per-pass class-level
`done` caches), so nothing re-validates it. The library guards `connect/disconnect/replace` and `Module.add`
after elaboration, but a design can still be made ill-formed afterwards, and to_proto then returns a package:
 (a) the edit guard is by-passed by adding the Instance to a second Module (its `_parent_module` moves),
     after which `disconnect` works -> missing port connection in the first (elaborated) Module
 (b) `Signal.width` is a plain attribute                           -> width mismatch
 (c) `Instance.of` is a plain attribute                           -> connections to non-existent ports
 (d) adding a Signal of an elaborated Module to another Module   -> signal owned by another module
"""
import os, sys; sys.path.insert(0, os.getcwd())
import hdl21 as h

bad = []


def child(name):
    c = h.Module(name=name)
    c.p = h.Port(width=2)
    c.q = h.Port()
    return c


def report(tag, f):
    try:
        pkg = f()
    except Exception as e:
        print(f"ok   ({tag}) raises {type(e).__name__}: {str(e).splitlines()[-1][:90]}")
        return
    print(f"VIOLATION ({tag}): to_proto returned a package")
    bad.append(tag)
    return pkg


def a():
    C = child("Ca")
    A = h.Module(name="A_a"); A.s = h.Signal(width=2); A.t = h.Signal(); A.i = C(p=A.s, q=A.t)
    h.to_proto(A)  # valid
    try:
        A.i.disconnect("q")
        print("   (a) direct edit allowed?!")
    except RuntimeError:
        print("   (a) direct `A.i.disconnect('q')` is refused, as the library intends")
    B = h.Module(name="B_a"); B.i = A.i  # the instance is now "owned" by B, which is not elaborated
    A.i.disconnect("q")  # ... so this is accepted
    pkg = h.to_proto(A)
    print("   (a) connections of A.i:", [c.portname for c in pkg.modules[-1].instances[0].connections], "- port `q` missing")
    return pkg


def b():
    C = child("Cb")
    A = h.Module(name="A_b"); A.s = h.Signal(width=2); A.t = h.Signal(); A.i = C(p=A.s, q=A.t)
    h.elaborate(A)
    A.s.width = 7
    pkg = h.to_proto(A)
    print("   (b) signal widths:", {s.name: s.width for s in pkg.modules[-1].signals}, "port `p` of Cb is 2 wide")
    return pkg


def c():
    C = child("Cc")
    Other = h.Module(name="Other_c"); Other.zz = h.Port(width=5)
    A = h.Module(name="A_c"); A.s = h.Signal(width=2); A.t = h.Signal(); A.i = C(p=A.s, q=A.t)
    h.elaborate(A)
    A.i.of = Other
    pkg = h.to_proto(A)
    i = pkg.modules[-1].instances[0]
    print("   (c) instance of", i.module.local, "connected on ports", [c.portname for c in i.connections], "- it has port `zz` only")
    return pkg


def d():
    C = child("Cd")
    T1 = h.Module(name="T1_d"); T1.s = h.Signal(width=2); T1.t = h.Signal(); T1.i = C(p=T1.s, q=T1.t)
    h.to_proto(T1)
    T2 = h.Module(name="T2_d"); T2.s = T1.s; T2.t = h.Signal(); T2.i = C(p=T2.s, q=T2.t)
    # `T1.s` is now owned by T2. Done in the other order (nothing elaborated before), this design raises "Orphanage".
    return h.to_proto([T1, T2])


for tag, f in (("a", a), ("b", b), ("c", c), ("d", d)):
    report(tag, f)

if bad:
    print("\nProperty C02: ill-formed designs never yield a package - for histories too "
          "('calls repeated, objects reused across two designs, edits between calls'). Accepted:", bad)
    sys.exit(1)
sys.exit(0)
