"""C02 finding 8 (PDK compile x cached elaboration): `h.pdk.compile` (Sky130 shown; Gf180 has the same code)
replaces primitive instances by PDK ExternalModules with a different number of terminals and nobody
re-checks the connections: the compiled design has a missing / an extra port connection, and to_proto
returns a package. For the extra connection the SPICE netlist silently drops the terminal.

Run with PYTHONPATH=/tmp/wt4/C02/pdks/Sky130 (cwd /tmp/wt4/C02)."""
import os, sys; sys.path.insert(0, os.getcwd())
sys.path.insert(0, os.path.join(os.getcwd(), "pdks", "Sky130"))
import io
import hdl21 as h
import sky130_hdl21

bad = []


def check(tag, m):
    h.pdk.compile(m, pdk=sky130_hdl21)
    try:
        pkg = h.to_proto(m)
    except Exception as e:
        print(f"ok   {tag}: to_proto raises {type(e).__name__}")
        return
    inst = pkg.modules[-1].instances[0]
    ext = {e.name.name: [p.signal for p in e.ports] for e in pkg.ext_modules}
    ports = ext[inst.module.external.name]
    conns = [c.portname for c in inst.connections]
    if sorted(ports) != sorted(conns):
        print(f"VIOLATION {tag}: to_proto returned a package: instance of {inst.module.external.name} "
              f"with ports {ports} is connected on {conns}")
        bad.append(tag)
        dest = io.StringIO()
        try:
            h.netlist(pkg, dest, fmt="spice")
            lines = [l.strip() for l in dest.getvalue().splitlines() if l.strip() and not l.startswith("*")]
            print("     netlist(spice) returned normally:", " | ".join(lines))
        except Exception as e:
            print("     netlist(spice) raises:", str(e)[:80])
    else:
        print(f"ok   {tag}: connections match")


# (1) two-terminal resistor primitive, Sky130 model with a body terminal -> port `b` unconnected
m = h.Module(name="res2")
m.a, m.b = h.Signals(2)
m.r = h.PhysicalResistor(model="GEN_ND")(p=m.a, n=m.b)
check("PhysicalResistor(model='GEN_ND')", m)

# (2) three-terminal resistor primitive, two-terminal Sky130 model -> extra connection `b`
m = h.Module(name="res3")
m.a, m.b, m.c = h.Signals(3)
m.r = h.ThreeTerminalResistor(model="GEN_PO")(p=m.a, n=m.b, b=m.c)
check("ThreeTerminalResistor(model='GEN_PO')", m)

# (3) the (three-terminal) Bipolar primitive, Sky130 NPNs have four terminals -> port `s` unconnected
m = h.Module(name="npn")
m.c, m.b, m.e = h.Signals(3)
m.q = h.Bipolar(model="NPN_5p0V_1x1")(c=m.c, b=m.b, e=m.e)
check("Bipolar(model='NPN_5p0V_1x1')", m)

if bad:
    print("\nProperty C02: a design with 'a missing or an extra port connection' must make to_proto and netlist raise.")
    sys.exit(1)
sys.exit(0)
