"""C02 finding 1: a NoConn that is connected to more than one port ("a no-connect that is also
referenced elsewhere") is accepted; to_proto returns a package in which every use silently became
a net of its own."""
import os, sys; sys.path.insert(0, os.getcwd())
import hdl21 as h


@h.module
class Inner:
    p = h.Port()
    q = h.Port()


def same_instance():
    m = h.Module(name="nc_same_instance")
    nc = h.NoConn()
    m.i = Inner(p=nc, q=nc)  # one no-connect on two ports
    return h.to_proto(m)


def two_instances():
    m = h.Module(name="nc_two_instances")
    nc = h.NoConn()
    m.i = Inner(p=nc, q=h.NoConn())
    m.j = Inner(p=nc, q=h.NoConn())  # the same no-connect again
    return h.to_proto(m)


def array_and_instance():
    m = h.Module(name="nc_array_and_instance")
    nc = h.NoConn()
    m.s = h.Signal()
    m.a = h.InstanceArray(Inner, 2)(p=nc, q=m.s)
    m.i = Inner(p=nc, q=m.s)
    return h.to_proto(m)


def two_modules():
    a = h.Module(name="nc_mod_a")
    b = h.Module(name="nc_mod_b")
    nc = h.NoConn()
    a.i = Inner(p=nc, q=h.NoConn())
    b.i = Inner(p=nc, q=h.NoConn())  # same no-connect, in another module of the same design
    b.a = a()
    return h.to_proto(b)


def control():
    """The form the library does reject: the second reference goes through a port reference"""
    m = h.Module(name="nc_control")
    m.i = Inner(p=h.NoConn(), q=h.NoConn())
    m.j = Inner(p=m.i.p, q=h.NoConn())
    return h.to_proto(m)


bad = []
for f in (same_instance, two_instances, array_and_instance, two_modules):
    try:
        pkg = f()
    except Exception as e:
        print(f"ok   {f.__name__}: raised {type(e).__name__}")
        continue
    top = pkg.modules[-1]
    conns = [(i.name, c.portname, c.target.sig) for i in top.instances for c in i.connections]
    print(f"VIOLATION {f.__name__}: to_proto returned a package; connections of top: {conns}")
    bad.append(f.__name__)

try:
    control()
    print("control: accepted (unexpected)")
except RuntimeError as e:
    print("control (no-connect re-used through a port reference) raises as it should")

if bad:
    print("\nProperty C02 demands that a design with 'a no-connect that is also referenced elsewhere' "
          "makes elaborate/to_proto/netlist raise. These were accepted:", bad)
    sys.exit(1)
sys.exit(0)
