"""C02 finding 5: a Slice memoises its resolved bounds the first time they are looked at
(`.width`, `.top`, `.bot`, `repr` of a Concat width, ...). If the sliced Signal is narrowed afterwards
- all of this BEFORE any elaboration - the slice is never re-validated: an out-of-range index reaches the package.
Without the innocent `.width` look-up the very same design raises."""
import os, sys; sys.path.insert(0, os.getcwd())
import hdl21 as h


def build(name: str, peek: bool):
    Inner = h.Module(name="Inner_" + name)
    Inner.p = h.Port(width=2)
    m = h.Module(name=name)
    m.s = h.Signal(width=8)
    sl = m.s[6:8]  # bits 7:6 of an 8-bit bus
    if peek:
        assert sl.width == 2  # e.g. a designer's sanity check, or a print
    m.s.width = 4  # the bus is narrowed: bits 7:6 no longer exist
    m.i = Inner(p=sl)
    return m


try:
    h.to_proto(build("no_peek", peek=False))
    print("without the look-up: accepted (unexpected)")
except Exception as e:
    print("without the `.width` look-up the design raises, as demanded:", type(e).__name__, str(e)[:80])

try:
    pkg = h.to_proto(build("peek", peek=True))
except Exception as e:
    print("with the look-up: raises", type(e).__name__)
    sys.exit(0)

top = pkg.modules[-1]
sig = {s.name: s.width for s in top.signals}
c = top.instances[0].connections[0].target.slice
print(f"VIOLATION: to_proto returned a package: signal `s` has width {sig['s']}, "
      f"but instance `i` port `p` is connected to s[{c.top}:{c.bot}]")
print("Property C02: 'an out-of-range or empty index ... then elaborate, to_proto and netlist raise.'")
sys.exit(1)
