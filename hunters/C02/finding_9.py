"""C02 finding 9 (literal reading of 'elaborate ... raise'): h.elaborate() returns normally for a design with
two different Modules of the same qualified name; only the exporter (to_proto / netlist) notices the clash.
Every other fault class of the property is reported by elaborate() itself."""
import os, sys; sys.path.insert(0, os.getcwd())
import hdl21 as h

a = h.Module(name="Same"); a.p = h.Port()
b = h.Module(name="Same"); b.p = h.Port(); b.q = h.Port()
t = h.Module(name="Top"); t.s = h.Signal()
t.i = a(p=t.s)
t.j = b(p=t.s, q=t.s)

try:
    h.elaborate(t)
except RuntimeError as e:
    print("elaborate raises:", e)
    sys.exit(0)
print("VIOLATION: h.elaborate(Top) returned normally although Top instantiates two different Modules named `Same`")
try:
    h.to_proto(t)
    print("... and so does to_proto")
except RuntimeError as e:
    print("(to_proto does raise: %s)" % str(e).splitlines()[0][:100])
print("Property C02: '... an unnamed or name-clashing module, then elaborate, to_proto and netlist raise.'")
sys.exit(1)
