"""C02 finding 11: connection checking looks ports up by their key in `Module.ports`, the exporter writes
`Signal.name`. When the two differ - `Signal.name` is a plain, public dataclass field; or the same Port
object is stored under two attribute names - the checks pass and the package connects an instance to a
port its module does not have. All before any elaboration."""
import os, sys; sys.path.insert(0, os.getcwd())
import io
import hdl21 as h

bad = []

# (a) rename through the public `name` field
C = h.Module(name="C_a"); C.p = h.Port()
m = h.Module(name="Top_a"); m.s = h.Signal(); m.i = C(p=m.s)
C.p.name = "pp"
try:
    pkg = h.to_proto(m)
    child, top = pkg.modules
    ports = [p.signal for p in child.ports]
    conns = [c.portname for c in top.instances[0].connections]
    if set(ports) != set(conns):
        print(f"VIOLATION (a): package: module {child.name} has ports {ports}; instance `i` connects ports {conns}")
        bad.append("a")
        try:
            h.netlist(pkg, io.StringIO(), fmt="spice"); print("    netlist(spice) returned normally")
        except Exception as e:
            print("    netlist(spice) raises:", str(e)[:80])
except Exception as e:
    print("(a) raises", type(e).__name__, str(e)[:100])

# (b) aliasing: the same Port object under two names
C = h.Module(name="C_b"); C.a = h.Port(); C.b = C.a
m = h.Module(name="Top_b"); m.s = h.Signal(); m.t = h.Signal(); m.i = C(a=m.s, b=m.t)
try:
    pkg = h.to_proto(m)
    child, top = pkg.modules
    ports = [p.signal for p in child.ports]
    conns = [c.portname for c in top.instances[0].connections]
    if set(ports) != set(conns) or len(set(ports)) != len(ports):
        print(f"VIOLATION (b): package: module {child.name} has ports {ports}; instance `i` connects ports {conns}")
        bad.append("b")
except Exception as e:
    print("(b) raises", type(e).__name__, str(e)[:100])

if bad:
    print("Property C02: 'a reference to a non-existent port ... then elaborate, to_proto and netlist raise.'")
    sys.exit(1)
sys.exit(0)
