"""C02 finding 3: a Module and an ExternalModule of the same name in one design ("name-clashing module")
are accepted by to_proto AND by netlist; the SPICE / Spectre netlist then instantiates the external
device as the local sub-circuit, with the wrong number of terminals."""
import os, sys; sys.path.insert(0, os.getcwd())
import io
import hdl21 as h

# An external (e.g. foundry) cell named `MM` with ONE port ...
ExtMM = h.ExternalModule(name="MM", port_list=[h.Port(name="a")])

# ... and an hdl21 Module, also named `MM`, with TWO ports
MM = h.Module(name="MM")
MM.a = h.Port()
MM.b = h.Port()

top = h.Module(name="Top")
top.s = h.Signal()
top.t = h.Signal()
top.i = ExtMM()(a=top.s)
top.j = MM(a=top.s, b=top.t)

bad = False
try:
    pkg = h.to_proto(top)
    print("VIOLATION: to_proto returned a package holding module", [m.name for m in pkg.modules],
          "and external module", [(e.name.domain, e.name.name) for e in pkg.ext_modules])
    bad = True
except RuntimeError as e:
    print("to_proto raises:", e)
    sys.exit(0)

for fmt in ("spice", "spectre"):
    dest = io.StringIO()
    try:
        h.netlist(top, dest, fmt=fmt)
    except Exception as e:
        print(f"netlist({fmt}) raises {type(e).__name__}")
        continue
    text = dest.getvalue()
    ndefs = sum(1 for line in text.lower().splitlines() if line.strip().startswith((".subckt mm", "subckt mm")))
    print(f"VIOLATION: netlist(fmt={fmt}) returned normally. {ndefs} definition(s) of `MM`, which both "
          f"instance `i` (1 terminal, meant for the external cell) and instance `j` (2 terminals) refer to:")
    print("    " + "\n    ".join(l for l in text.splitlines() if l.strip() and not l.strip().startswith(("*", "//"))))

if bad:
    print("\nProperty C02: '... or an unnamed or name-clashing module, then elaborate, to_proto and netlist raise.'")
    sys.exit(1)
