"""C02 finding 4: two different ExternalModules with the same qualified name (same domain and name,
different port lists) in one design: to_proto returns a package declaring the name twice.
(Two Modules of the same name are rejected by to_proto; netlist() of this package does raise, inside vlsirtools.)
Also: an ExternalModule whose name is the empty string is exported."""
import os, sys; sys.path.insert(0, os.getcwd())
import hdl21 as h

X1 = h.ExternalModule(name="X", domain="lib", port_list=[h.Port(name="a")])
X2 = h.ExternalModule(name="X", domain="lib", port_list=[h.Port(name="a"), h.Port(name="b")])

top = h.Module(name="Top")
top.s = h.Signal()
top.t = h.Signal()
top.i = X1()(a=top.s)
top.j = X2()(a=top.s, b=top.t)

bad = False
try:
    pkg = h.to_proto(top)
    decls = [(e.name.domain, e.name.name, [p.signal for p in e.ports]) for e in pkg.ext_modules]
    print("VIOLATION: to_proto returned a package with clashing external modules:", decls)
    bad = True
except RuntimeError as e:
    print("to_proto raises:", str(e)[:100])

# Control: the same situation with Modules is rejected
a = h.Module(name="Same"); a.p = h.Port()
b = h.Module(name="Same"); b.p = h.Port(); b.q = h.Port()
t2 = h.Module(name="Top2"); t2.s = h.Signal(); t2.i = a(p=t2.s); t2.j = b(p=t2.s, q=t2.s)
try:
    h.to_proto(t2)
    print("control (two Modules named `Same`): accepted (unexpected)")
except RuntimeError:
    print("control (two Modules named `Same`): to_proto raises, as demanded")

# Unnamed external module
U = h.ExternalModule(name="", port_list=[h.Port(name="a")])
t3 = h.Module(name="Top3"); t3.s = h.Signal(); t3.i = U()(a=t3.s)
try:
    pkg = h.to_proto(t3)
    print("VIOLATION: to_proto exported an external module with the empty name:",
          [(e.name.domain, e.name.name) for e in pkg.ext_modules], "(a Module named '' is rejected)")
    bad = True
except Exception as e:
    print("unnamed external module raises:", type(e).__name__)

if bad:
    print("\nProperty C02: '... an unnamed or name-clashing module, then elaborate, to_proto and netlist raise. "
          "They never return a package for such a design.'")
    sys.exit(1)
