"""Finding 13: `n * instance` leaves the discarded scalar Instance wired into the design's reference graph.

`_to_array` builds the array with `InstanceArray(...)(**inst.conns)` and never disconnects the original,
nameless Instance, so every connectable it was connected to keeps a port-reference to an object that is in no
module. When such a reference group has no unconnected port to name the new net after (a ring of port references),
`ResolvePortRefs.which_portref_to_name` sorts by instance name and dies with
"TypeError: '<' not supported between instances of 'NoneType' and 'str'".
The same ring written with `h.InstanceArray(Inv, 2)(...)` elaborates fine.
"""
import os, sys; sys.path.insert(0, os.getcwd())
import hdl21 as h

@h.module
class Inv:
    i = h.Input()
    z = h.Output()
    r = h.primitives.R(r=1)(p=i, n=z)

def build(use_mult: bool):
    m = h.Module(name="Ring" + ("M" if use_mult else "A"))
    m.a = Inv()
    if use_mult:
        m.arr = 2 * Inv(i=m.a.z, z=m.a.i)
    else:
        m.arr = h.InstanceArray(Inv, 2)(i=m.a.z, z=m.a.i)
    m.a.i = m.arr.z
    m.a.z = m.arr.i
    return m

ok = h.to_proto(build(False))
print("InstanceArray(...) form: ok,", len(ok.modules[-1].instances), "instances")
try:
    h.to_proto(build(True))
    print("n * Instance form: ok"); sys.exit(0)
except TypeError as e:
    print("VIOLATION: n * Instance form ->", type(e).__name__, e)
    sys.exit(1)
