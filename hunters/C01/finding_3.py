"""Finding 3: Sky130 (and GF180) `compile` swaps in an ExternalModule with other terminals than the primitive's,
keeps the old connections, and nothing re-checks them.

* `ThreeTerminalResistor(model="GEN_PO")(p, n, b)` -> `sky130_fd_pr__res_generic_po` has ports (p, n) only.
  The package keeps a connection to a port `b` the device does not have, and the SPICE/Spectre netlists silently
  drop it: the terminal the designer tied to net `c` is gone.
* `Bipolar(model="NPN_5p0V_1x2")(c, b, e)` -> the npn has 4 ports (c, b, e, s); the package has an instance with
  an unconnected port (no error from compile / to_proto).

Clause: "two device-terminal bits ... lie on one net iff the design's connections join them" (a written connection vanishes).
Responsible: pdks/Sky130/sky130_hdl21/pdk_logic.py: Sky130Walker.res_module_call / bjt_module_call (select by `params.model`,
never compare port lists; same in pdks/Gf180), hdl21/walker.py: HierarchyWalker.visit_instance (replaces `inst.of`, nothing
re-checks the connections; `to_proto` does not compare connections with ports either).
"""
import os, sys, io
sys.path.insert(0, os.getcwd())
for p in ("pdks/Sky130",): sys.path.insert(0, os.path.join(os.getcwd(), p))
import hdl21 as h
import sky130_hdl21 as s
P = h.primitives

@h.module
class Top:
    a, b, c = h.Ports(3)
    r3 = P.ThreeTerminalResistor(model="GEN_PO", w=1, l=1)(p=a, n=b, b=c)

@h.module
class Top2:
    a, b, c = h.Ports(3)
    q = P.Bipolar(model="NPN_5p0V_1x2")(c=a, b=b, e=c)

bad = []
for T in (Top, Top2):
    try:
        s.compile(T)
        pkg = h.to_proto(T)
    except Exception as e:
        print(T.name, "rejected:", type(e).__name__, str(e)[:80]); continue
    exts = {e.name.name: [p.signal for p in e.ports] for e in pkg.ext_modules}
    for inst in pkg.modules[-1].instances:
        conns = [c.portname for c in inst.connections]
        ports = exts[inst.module.external.name]
        print(T.name, inst.name, inst.module.external.name, "device ports", ports, "connections", conns)
        if sorted(conns) != sorted(ports):
            bad.append(f"{T.name}.{inst.name}: connections {conns} vs device ports {ports}")
    if T is Top:
        st = io.StringIO(); h.netlist(pkg, st, fmt="spice")
        line = [l for l in st.getvalue().splitlines() if l.strip().startswith("+ a b")]
        print("spice instance nodes:", line)
        if not any(" c" in l for l in line[1:]):
            bad.append("spice netlist of Top: the connection of terminal b to net c has vanished")
if bad:
    print("VIOLATION:")
    for b in bad: print("   ", b)
    sys.exit(1)
print("OK"); sys.exit(0)
