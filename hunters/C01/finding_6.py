"""Finding 6: an instance-port reference into a `Pair` is lost; elaboration dies with an internal error.

`q = h.Pair(Inv)(i=p.z)` / `x = Inv(i=p.z)` with `p` a `Pair`: `InstBundleElabPass` replaces `p` by `p_p`, `p_n`
and forgets the references `p` has handed out. The error is
"Internal error: PortRef remaining in connection-types check".
"""
import os, sys; sys.path.insert(0, os.getcwd())
import hdl21 as h

@h.module
class Inv:
    i = h.Input()
    z = h.Output()
    r = h.primitives.R(r=1)(p=i, n=z)

@h.module
class Top:
    d = h.Diff(port=True)
    e = h.Diff(port=True)
    p = h.Pair(Inv)(i=d)
    q = h.Pair(Inv)(i=p.z, z=e)

try:
    pkg = h.to_proto(Top)
except Exception as e:
    last = str(e).splitlines()[-1]
    print("elaboration failed:", type(e).__name__, last[:200])
    if "Internal error" in last or not isinstance(e, RuntimeError):
        print("VIOLATION: port reference into a Pair crashes with an internal error")
        sys.exit(1)
    sys.exit(0)  # a descriptive rejection
top = pkg.modules[-1]
got = {i.name: {c.portname: c.target.sig for c in i.connections} for i in top.instances}
print(got)
ok = got["p_p"]["z"] == got["q_p"]["i"] and got["p_n"]["z"] == got["q_n"]["i"] and got["p_p"]["z"] != got["p_n"]["z"]
sys.exit(0 if ok else 1)
