"""Finding 2: misspelt / unknown parameter names are dropped silently; the exported device has default parameters.

`hdl21/datatype.py` configures pydantic with `allow_extra="forbid"` - not a pydantic-v2 option (it is `extra="forbid"`),
so param-classes ignore unknown keyword arguments.  `h.Mos(W=3)`, `ExtMod(nfin=4)` (when the field is `nf`) etc. are accepted
and the package carries the defaults: not "the same leaf devices with the same parameters" the designer wrote.
"""
import os, sys; sys.path.insert(0, os.getcwd())
import hdl21 as h

@h.paramclass
class P:
    nf = h.Param(dtype=int, desc="fingers", default=1)

X = h.ExternalModule(name="Xdev", port_list=[h.Port(name="a")], paramtype=P)

bad = []
try:
    @h.module
    class Top:
        a = h.Port()
        x = X(nfin=4)(a=a)                     # typo for `nf`
        m = h.Mos(W=3, l=1)(d=a, g=a, s=a, b=a)  # typo for `w`
except Exception as e:
    print("OK: unknown parameter rejected:", type(e).__name__)
    sys.exit(0)

pkg = h.to_proto(Top)
for inst in pkg.modules[-1].instances:
    ps = {p.name: p.value for p in inst.parameters}
    print(inst.name, {k: str(v).strip().replace("\n", " ") for k, v in ps.items()})
    if inst.name == "x" and ps["nf"].int64_value == 1 and "nfin" not in ps:
        bad.append("x: wrote nfin=4, package has nf=1 and no nfin")
    if inst.name == "m" and "w" not in ps and "W" not in ps:
        bad.append("m: wrote W=3, package has neither W nor w")
if bad:
    print("VIOLATION: parameters the designer wrote were dropped without any error:")
    for b in bad: print("   ", b)
    sys.exit(1)
print("OK"); sys.exit(0)
