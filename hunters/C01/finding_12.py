"""Finding 12 (netlist level; the name mangling lives in vlsirtools, Hdl21 does nothing to avoid it):
bit 0 of bus `a` and the scalar signal `a_0` become one net in SPICE / Spectre netlists.

The package is right (two different signals), but "and therefore every netlist" does not hold:
both are written `a_0`, so the two resistors below end up in parallel and port `a_0` is listed twice.
"""
import os, sys, io; sys.path.insert(0, os.getcwd())
import hdl21 as h

@h.module
class Top:
    a = h.Inout(width=2)
    a_0 = h.Inout()
    r0 = h.primitives.R(r=1)(p=a[0], n=a[1])
    r1 = h.primitives.R(r=2)(p=a_0, n=a[1])

s = io.StringIO()
h.netlist(Top, s, fmt="spice")
txt = s.getvalue()
lines = [l.strip() for l in txt.splitlines()]
hdr = lines[lines.index(".SUBCKT Top") + 1]
print("subckt ports:", hdr)
nodes = [lines[i + 1] for i, l in enumerate(lines) if l in ("rr0", "rr1")]
print("r0 nodes:", nodes[0], "| r1 nodes:", nodes[1])
if nodes[0] == nodes[1]:
    print("VIOLATION: r0 (on a[0]) and r1 (on a_0) are on the same node in the netlist")
    sys.exit(1)
sys.exit(0)
