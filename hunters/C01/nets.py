"""Helper: flatten a VLSIR package into nets over leaf-terminal bits and top-port bits."""
import vlsir.circuit_pb2 as vckt

class UF:
    def __init__(self): self.p = {}
    def find(self, x):
        self.p.setdefault(x, x)
        while self.p[x] != x:
            self.p[x] = self.p[self.p[x]]
            x = self.p[x]
        return x
    def union(self, a, b):
        a, b = self.find(a), self.find(b)
        if a != b: self.p[a] = b

def target_bits(mod_sigs, t):
    """Bits of a ConnectionTarget, LSB first, as (signame, idx)."""
    k = t.WhichOneof("stype")
    if k == "sig":
        return [(t.sig, i) for i in range(mod_sigs[t.sig])]
    if k == "slice":
        assert t.slice.signal in mod_sigs, f"slice of unknown signal {t.slice.signal}"
        assert 0 <= t.slice.bot <= t.slice.top < mod_sigs[t.slice.signal], "slice OOB"
        return [(t.slice.signal, i) for i in range(t.slice.bot, t.slice.top + 1)]
    if k == "concat":
        bits = []
        for part in reversed(t.concat.parts):  # VLSIR: MSB-first
            bits.extend(target_bits(mod_sigs, part))
        return bits
    raise ValueError(k)

def flatten(pkg, topname=None):
    mods = {m.name: m for m in pkg.modules}
    assert len(mods) == len(pkg.modules), "duplicate module names in package"
    exts = {}
    for e in pkg.ext_modules:
        key = (e.name.domain, e.name.name)
        assert key not in exts, f"duplicate ext module {key}"
        exts[key] = e
    if topname is None:
        topname = pkg.modules[-1].name
    uf = UF()
    leaves = {}  # path -> (ref, params)
    def walk(mname, path):
        m = mods[mname]
        sigs = {}
        for s in m.signals:
            assert s.name not in sigs, f"duplicate signal {s.name} in {mname}"
            sigs[s.name] = s.width
        for p in m.ports:
            assert p.signal in sigs
        inames = set()
        for inst in m.instances:
            assert inst.name not in inames, f"dup instance {inst.name}"
            inames.add(inst.name)
            ipath = path + (inst.name,)
            which = inst.module.WhichOneof("to")
            seen = set()
            if which == "local":
                child = mods[inst.module.local]
                cs = {s.name: s.width for s in child.signals}
                cports = [p.signal for p in child.ports]
                walk(inst.module.local, ipath)
                for c in inst.connections:
                    assert c.portname in cports, f"conn to non-port {c.portname}"
                    assert c.portname not in seen; seen.add(c.portname)
                    bits = target_bits(sigs, c.target)
                    assert len(bits) == cs[c.portname], f"width mismatch {ipath} {c.portname}"
                    for i, (sn, si) in enumerate(bits):
                        uf.union(("S", path, sn, si), ("S", ipath, c.portname, i))
                assert seen == set(cports), f"unconnected ports {set(cports)-seen} on {ipath}"
            else:
                key = (inst.module.external.domain, inst.module.external.name)
                params = tuple((p.name, str(p.value).strip()) for p in inst.parameters)
                leaves[ipath] = (key, params)
                if key in exts:
                    ws = {s.name: s.width for s in exts[key].signals}
                else:
                    ws = None
                for c in inst.connections:
                    assert c.portname not in seen; seen.add(c.portname)
                    bits = target_bits(sigs, c.target)
                    if ws is not None:
                        assert len(bits) == ws[c.portname], f"width mismatch {ipath}.{c.portname}"
                    for i, (sn, si) in enumerate(bits):
                        uf.union(("S", path, sn, si), ("T", ipath, c.portname, i))
                if ws is not None:
                    assert seen == set(ws), f"ext ports mismatch {ipath}: {seen} vs {set(ws)}"
        return sigs
    topsigs = walk(topname, ())
    top = mods[topname]
    for p in top.ports:
        for i in range(topsigs[p.signal]):
            uf.union(("S", (), p.signal, i), ("P", p.signal, i))
    groups = {}
    for x in list(uf.p):
        if x[0] in ("T", "P"):
            groups.setdefault(uf.find(x), set()).add(
                ("/".join(x[1]) + "." + x[2] + f"[{x[3]}]") if x[0] == "T" else f"PORT {x[1]}[{x[2]}]")
    return frozenset(frozenset(g) for g in groups.values()), leaves

def show(nets):
    for g in sorted(sorted(g) for g in nets):
        print("  ", g)
