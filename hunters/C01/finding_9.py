"""Finding 9: hierarchies deeper than ~330 levels cannot be exported (RecursionError), and stay poisoned.

Each hierarchy level costs three Python frames in every elaboration pass (`elaborate_module_base` ->
`elaborate_instance_base` -> `elaborate_instantiable`), so with the default recursion limit a plain chain of
400 nested modules raises RecursionError. The error is then stored as `_elaboration_failure` on every module of
the chain, so raising the limit and retrying fails again with the same RecursionError.
"""
import os, sys; sys.path.insert(0, os.getcwd())
import hdl21 as h

def chain(depth):
    prev = None
    for k in range(depth):
        m = h.Module(name=f"L{k}")
        m.a = h.Port(); m.b = h.Port()
        if prev is None:
            m.r = h.primitives.R(r=1)(p=m.a, n=m.b)
        else:
            m.i = prev(a=m.a, b=m.b)
        prev = m
    return prev

top = chain(400)
try:
    pkg = h.to_proto(top)
    print("OK", len(pkg.modules)); sys.exit(0)
except RecursionError as e:
    print("VIOLATION: 400-level hierarchy -> RecursionError")
sys.setrecursionlimit(100000)
try:
    pkg = h.to_proto(top)
    print("   (retry with a larger recursion limit succeeded)")
except RecursionError:
    print("   and the retry with recursion limit 100000 fails with the stored RecursionError as well")
sys.exit(1)
