"""Finding 10: one Signal object bound to two names is exported as two signals / ports with the same name.

    a = b = h.Port()

`Module.__setattr__` renames the one Signal object to "b" and files it under both keys. `to_proto` then emits
two `signals` and two `ports` entries called "b" (and none called "a") - an ill-formed package, accepted silently
(vlsirtools later complains "Duplicate Port b"). Neither "alias" nor "error" is what comes out.
The same happens with `m.x = m.y = Inv(...)` (two instances named `y`).
Responsible: hdl21/module.py: _add (no check that `val` already is an attribute under another name),
hdl21/proto/exporting.py: ProtoExporter.export_module (no uniqueness check).
"""
import os, sys; sys.path.insert(0, os.getcwd())
import hdl21 as h

try:
    @h.module
    class Top:
        a = b = h.Port()
        c = h.Port()
        r1 = h.primitives.R(r=1)(p=a, n=c)
    pkg = h.to_proto(Top)
except Exception as e:
    print("OK: rejected:", type(e).__name__, str(e)[:100]); sys.exit(0)
pm = pkg.modules[-1]
names = [s.name for s in pm.signals]; ports = [p.signal for p in pm.ports]
print("signals", names, "ports", ports)
if len(set(names)) != len(names) or len(set(ports)) != len(ports):
    print("VIOLATION: duplicate signal / port names in the exported module")
    sys.exit(1)
print("OK"); sys.exit(0)
