"""Finding 8: a port (or bundle signal) called `name` in a class-style definition is silently swallowed.

    @h.module
    class Top:
        name = h.Port()      # a port called "name"
        ...

`Module.__setattr__` special-cases the key "name" *before* looking at the value, so the Signal becomes the module's
name instead of one of its ports (same in `Bundle.__setattr__`, and for `m.name = h.Port()`).
The port vanishes from the design, and export later dies with "'Signal' object has no attribute 'ljust'".
The procedural form `m.add(h.Port(name="name"))` works, so "name" is a legal port name.
"""
import os, sys; sys.path.insert(0, os.getcwd())
import hdl21 as h

R = h.primitives.R(r=1)

@h.module
class Top:
    name = h.Port()
    other = h.Port()
    r = R(p=name, n=other)

@h.bundle
class B:
    name = h.Signal()
    other = h.Signal()

bad = []
if not isinstance(Top.name, str):
    bad.append(f"Module name is now {Top.name!r}; ports are {list(Top.ports)}")
if "name" not in B.signals:
    bad.append(f"Bundle name is now {B.name!r}; signals are {list(B.signals)}")
try:
    pkg = h.to_proto(Top)
    ports = [p.signal for p in pkg.modules[-1].ports]
    if sorted(ports) != ["name", "other"]:
        bad.append(f"exported ports {ports}")
except Exception as e:
    bad.append(f"to_proto: {type(e).__name__}: {str(e)[:120]}")
if bad:
    print("VIOLATION:")
    for b in bad: print("   ", b)
    sys.exit(1)
print("OK"); sys.exit(0)
