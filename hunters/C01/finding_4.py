"""Finding 4: structurally equivalent bundles with a nested sub-bundle cannot be connected.

A bundle port accepts a bundle instance of another, structurally equal, Bundle type (ConnTypes checks names and widths).
As soon as the two types contain a sub-bundle - even the *same* sub-bundle type - elaboration fails with
"Invalid connection-compatibility check between Bundle(name=S) and Bundle(name=S)":
`ConnTypes.check_bundles_compatible` recurses with `other.bundles[key].of` (a `Bundle`) where it handles
`BundleInstance` / `AnonymousBundle` only.
"""
import os, sys; sys.path.insert(0, os.getcwd())
import hdl21 as h

X = h.ExternalModule(name="X", port_list=[h.Port(name="u"), h.Port(name="v")])

@h.bundle
class S:
    u, v = h.Signals(2)

@h.bundle
class B1:
    s = S()

@h.bundle
class B2:
    s = S()

@h.module
class Inner:
    b = B1(port=True)
    x = X()(u=b.s.u, v=b.s.v)

@h.module
class Top:
    b = B2(port=True)
    i = Inner(b=b)

try:
    pkg = h.to_proto(Top)
except Exception as e:
    print("VIOLATION: a valid connection between structurally equal nested bundles is rejected:")
    print("   ", type(e).__name__, str(e).splitlines()[-1])
    sys.exit(1)
top = pkg.modules[-1]
print("OK", [(c.portname, c.target.sig) for c in top.instances[0].connections])
sys.exit(0)
