"""Finding 11: an ExternalModule with two ports of one name is accepted and exported as such.

`ExternalModule.__post_init__` checks that ports are named and have PORT visibility, not that the names differ.
`ports` (a dict) silently keeps the last one, so a 2-bit signal connects to "a" although the first "a" is 1 bit wide,
and the package declares two signals and two ports called "a".
"""
import os, sys; sys.path.insert(0, os.getcwd())
import hdl21 as h
try:
    X = h.ExternalModule(name="XD", port_list=[h.Port(name="a"), h.Port(name="a", width=2)])
    m = h.Module(name="T3")
    m.s = h.Signal(width=2)
    m.x = X()(a=m.s)
    pkg = h.to_proto(m)
except Exception as e:
    print("OK: rejected:", type(e).__name__, str(e)[:100]); sys.exit(0)
ports = [p.signal for p in pkg.ext_modules[0].ports]
print("external module ports:", ports, "signals:", [(s.name, s.width) for s in pkg.ext_modules[0].signals])
if len(set(ports)) != len(ports):
    print("VIOLATION: duplicate port names exported"); sys.exit(1)
sys.exit(0)
