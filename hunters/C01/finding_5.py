"""Finding 5: a `Pair` cannot be connected to a `Diff` that is a member of another bundle.

`h.Pair(M)(i=lane.data)` where `lane.data` is a `h.Diff` sub-bundle (a bundle reference) is treated as a scalar
by `InstBundleElabPass` (only `BundleInstance` and `AnonymousBundle` are split into p/n), so both instances are
connected to the whole `Diff` and elaboration fails: "Invalid connection to non-Signal BundleInstance(name=data ...)".
Connecting the same `Diff` when it is a direct attribute of the module works.
"""
import os, sys; sys.path.insert(0, os.getcwd())
import hdl21 as h

@h.module
class Inv:
    i = h.Input()
    z = h.Output()
    r = h.primitives.R(r=1)(p=i, n=z)

@h.bundle
class Lane:
    data = h.Diff()
    clk = h.Diff()

@h.module
class Top:
    lane = Lane(port=True)
    p = h.Pair(Inv)(i=lane.data, z=lane.clk)

try:
    pkg = h.to_proto(Top)
except Exception as e:
    print("VIOLATION: Pair x nested Diff rejected:")
    print("   ", type(e).__name__, str(e).splitlines()[-1][:300])
    sys.exit(1)
top = pkg.modules[-1]
got = {i.name: {c.portname: c.target.sig for c in i.connections} for i in top.instances}
want = {"p_p": {"i": "lane_data_p", "z": "lane_clk_p"}, "p_n": {"i": "lane_data_n", "z": "lane_clk_n"}}
print(got)
sys.exit(0 if got == want else 1)
