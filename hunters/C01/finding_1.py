"""Finding 1: two different ExternalModules with one qualified name are both exported; the package is ambiguous.

`to_proto` refuses two different `Module`s that share a qualified name (RuntimeError "conflicting name"),
but accepts two different `ExternalModule`s with the same (domain, name) and different port lists / port orders.
The package then holds two `ext_modules` entries called `X`, and every instance just says "external X":
the package no longer says which terminal order / which ports each instance has
(the VLSIR netlisters refuse such a package: "Invalid doubly-defined external module").

Clause: "the package returned by to_proto describes exactly the circuit that was written: the same leaf devices".
Responsible: hdl21/proto/exporting.py: ProtoExporter.export_external_module (caches by id(emod) only; no by-name table
like `modules_by_name` / `export_module_name` for Modules).
"""
import os, sys; sys.path.insert(0, os.getcwd())
import hdl21 as h

X1 = h.ExternalModule(name="X", port_list=[h.Port(name="a"), h.Port(name="b")])
X2 = h.ExternalModule(name="X", port_list=[h.Port(name="b"), h.Port(name="a"), h.Port(name="c")])

@h.module
class Top:
    p, q, r = h.Ports(3)
    x1 = X1()(a=p, b=q)
    x2 = X2()(a=p, b=q, c=r)

try:
    pkg = h.to_proto(Top)
except RuntimeError as e:
    print("OK: conflicting ExternalModules rejected:", str(e)[:100])
    sys.exit(0)

names = [(e.name.domain, e.name.name) for e in pkg.ext_modules]
if len(names) != len(set(names)):
    print("VIOLATION: to_proto returned a package with several external modules of one qualified name:")
    for e in pkg.ext_modules:
        print("   ", (e.name.domain, e.name.name), "ports", [p.signal for p in e.ports])
    print("Instances refer to them by that name only:",
          [(i.name, i.module.external.name) for i in pkg.modules[-1].instances])
    sys.exit(1)
print("OK")
sys.exit(0)
