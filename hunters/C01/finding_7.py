"""Finding 7: a `NoConn` inside a `Concat` raises AttributeError.

`NoConn` is decorated `@concatable`, and `Concat` accepts it as a part - and then crashes on
`part._concats.add(self)`: "'NoConn' object has no attribute '_concats'".
Leaving some bits of a bus port unconnected is therefore impossible, and the error does not say why.
"""
import os, sys; sys.path.insert(0, os.getcwd())
import hdl21 as h

X2 = h.ExternalModule(name="X2", port_list=[h.Port(name="p", width=2)])
try:
    @h.module
    class Top:
        a = h.Input()
        x = X2()(p=h.Concat(a, h.NoConn()))
    pkg = h.to_proto(Top)
except AttributeError as e:
    print("VIOLATION: Concat(sig, NoConn()) ->", type(e).__name__, e)
    sys.exit(1)
except (TypeError, RuntimeError) as e:
    print("OK: rejected descriptively:", type(e).__name__, str(e)[:120])
    sys.exit(0)
print("OK: accepted")
print(pkg.modules[-1].instances[0].connections)
sys.exit(0)
