"""C18 finding 10: `add(val, name=...)` does not validate the name argument.
* `name=""` is accepted on Modules and Bundles (the test `name or val.name` treats it as "no name", the later
  `if name is not None` then uses it): the exported module has a signal / port / instance whose name is the empty string.
* `name=0` / any non-string is accepted as well (the `Signal` constructor rejects `name=0`, plain assignment does not):
  the namespace gets an `int` key, and export dies with "TypeError: bad argument type for built-in operation".
"""
import os, sys; sys.path.insert(0, os.getcwd())
import hdl21 as h

bad = []


@h.module
class Child:
    a = h.Input()


# (a) empty names
m = h.Module(name="Ma")
try:
    m.add(h.Input(), name="")
    m.vss = h.Signal()
    m.add(Child(a=m.vss), name="")  # re-uses "" for another kind: replaces the port
    pm = h.to_proto(m).modules[-1]
    bad.append(f"(a) Module.add(..., name='') accepted; exported ports={[p.signal for p in pm.ports]} signals={[s.name for s in pm.signals]} instances={[i.name for i in pm.instances]}")
except (RuntimeError, TypeError, ValueError) as e:
    print("[a] rejected:", e)

B = h.Bundle(name="B")
try:
    B.add(h.Signal(), name="")
    m = h.Module(name="Mb")
    m.b = B(port=True)
    pm = h.to_proto(m).modules[-1]
    bad.append(f"(b) Bundle.add(..., name='') accepted; a port of B flattens to {[p.signal for p in pm.ports]}")
except (RuntimeError, TypeError, ValueError) as e:
    print("[b] rejected:", e)

# (c) non-string names
m = h.Module(name="Mc")
try:
    m.add(h.Signal(), name=0)
    keys = list(m.namespace)
    try:
        h.to_proto(m)
        after = "export succeeded"
    except Exception as e:
        after = f"export dies with {type(e).__name__}: {e}"
    bad.append(f"(c) Module.add(Signal(), name=0) accepted; namespace keys {keys!r}; {after}")
except (RuntimeError, TypeError, ValueError) as e:
    print("[c] rejected:", e)

if bad:
    print("VIOLATION (C18: non-HDL values [here: ill-formed names] are rejected; each name denotes one object):")
    print("\n".join(bad))
    sys.exit(1)
print("ok")
