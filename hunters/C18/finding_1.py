"""C18 finding 1: the Module attribute `name` is neither reserved nor type-checked.
`m.name = <Signal>` (and the class-style `name = h.Signal()`) silently replaces the module's *name* by the Signal,
which is then not in the namespace at all; `m.add(h.Signal(name="name"))` stores a signal that attribute access cannot see."""
import os, sys; sys.path.insert(0, os.getcwd())
import hdl21 as h

bad = []

# (a) procedural setattr
m = h.Module(name="M")
sig = h.Signal()
try:
    m.name = sig
    if m.get("name") is not sig or not isinstance(m.name, str):
        bad.append(f"(a) m.name = Signal accepted: m.name={m.name!r}, m.get('name')={m.get('name')!r}, signals={list(m.signals)}")
except (RuntimeError, TypeError):
    pass  # rejected - fine

# (b) class-style
try:
    @h.module
    class C:
        name = h.Signal()
        x = h.Input()
    if not isinstance(C.name, str):
        bad.append(f"(b) class-style 'name = h.Signal()' accepted; module name is now {C.name!r}, namespace={list(C.namespace)}")
        try:
            h.to_proto(C)
        except Exception as e:
            bad.append(f"    ... and export then crashes with {type(e).__name__}: {e}")
except (RuntimeError, TypeError):
    pass

# (c) add() under the name "name": get() and attribute access disagree
m = h.Module(name="M")
try:
    s = m.add(h.Signal(name="name"))
    if m.get("name") is not m.name:
        bad.append(f"(c) add(Signal(name='name')) accepted: get('name')={m.get('name')!r} but m.name={m.name!r}")
except (RuntimeError, TypeError):
    pass

# (d) non-string name accepted after construction (constructor rejects it)
m = h.Module(name="M")
try:
    m.name = 5
    bad.append(f"(d) m.name = 5 accepted (Module(name=5) raises TypeError): m.name={m.name!r}")
except (RuntimeError, TypeError):
    pass

if bad:
    print("VIOLATION (C18: reserved names / non-HDL values rejected; get and attribute access agree):")
    print("\n".join(bad))
    sys.exit(1)
print("ok")
