"""C18 finding 7: one object stored under two names of the SAME module.
`m.i1 = inst; m.i2 = inst` is accepted: both keys stay in `namespace` and `instances`, the object is called 'i2'.
`m.get('i1').name == 'i2'`, elaboration passes, and the exported package / SPICE netlist contains two instances
(or two signals, two ports) with the same name. Replacing one of the two keys orphans the object that is still
stored under the other key."""
import os, sys, io; sys.path.insert(0, os.getcwd())
import hdl21 as h

bad = []


@h.module
class Child:
    a = h.Input()
    b = h.Output()
    r = h.R(r=1)(p=a, n=b)


# (a) instance under two names
m = h.Module(name="Ma")
m.x, m.y = h.Signals(2)
inst = Child(a=m.x, b=m.y)
try:
    m.i1 = inst
    m.i2 = inst
    if m.get("i1").name != "i1":
        bad.append(f"(a) m.get('i1').name == {m.get('i1').name!r}; instances view = {list(m.instances)}")
    pm = h.to_proto(m).modules[-1]
    names = [i.name for i in pm.instances]
    if len(set(names)) != len(names):
        bad.append(f"(a) exported module has duplicate instance names {names}")
        out = io.StringIO()
        h.netlist(m, out, fmt="spice")
        bad.append(f"    the SPICE netlist is written without complaint and contains {out.getvalue().count('xi2')} x 'xi2'")
except RuntimeError as e:
    print("[a] rejected:", str(e).splitlines()[-1][:100])

# (b) port under two names
m = h.Module(name="Mb")
s = h.Input()
try:
    m.p1 = s
    m.p2 = s
    pm = h.to_proto(m).modules[-1]
    ports = [p.signal for p in pm.ports]
    if len(set(ports)) != len(ports):
        bad.append(f"(b) exported module has duplicate ports {ports}")
except RuntimeError as e:
    print("[b] rejected:", str(e).splitlines()[-1][:100])

# (c) replacing one alias orphans the other
m = h.Module(name="Mc")
s = h.Signal()
try:
    m.s1 = s
    m.s2 = s
    m.s2 = h.Signal()  # name re-use; `s` is still stored as 's1'
    if m.get("s1") is s and s._parent_module is not m:
        bad.append(f"(c) after replacing 's2', m.get('s1') is still the object but reports parent {s._parent_module!r}")
        try:
            h.elaborate(m)
        except RuntimeError as e:
            bad.append("    elaboration: " + str(e).splitlines()[-1][:120])
except RuntimeError as e:
    print("[c] rejected:", str(e).splitlines()[-1][:100])

if bad:
    print("VIOLATION (C18: each name denotes exactly one object ... and the object reports that module as its parent):")
    print("\n".join(bad))
    sys.exit(1)
print("ok")
