"""C18 finding 9: Bundle has no `__delattr__`; attribute deletion is not rejected.
`Module.__delattr__` refuses every deletion. On a Bundle, `del B.signals` / `del B.namespace` / `del B.name` /
`del B._elaborated` succeed silently and leave a broken object (get() raises AttributeError, elaboration of any module
using the bundle crashes with AttributeError). Deleting an HDL member (`del B.x`) is refused only by accident, with the
false message "'Bundle' object has no attribute 'x'"."""
import os, sys; sys.path.insert(0, os.getcwd())
import hdl21 as h

bad = []

for victim in ["signals", "bundles", "namespace", "name", "props", "roles", "_elaborated"]:
    B = h.Bundle(name="B")
    B.x = h.Signal()
    try:
        delattr(B, victim)
    except (RuntimeError, AttributeError, TypeError):
        continue  # rejected: fine
    # Deletion accepted. Show what it does.
    m = h.Module(name="M_" + victim.strip("_"))
    m.b = B(port=True)
    try:
        h.elaborate(m)
        after = "elaboration still works"
    except Exception as e:
        after = f"elaborating a module with a port of B then dies with {type(e).__name__}: {str(e).splitlines()[-1][:80]}"
    bad.append(f"del B.{victim} accepted; {after}")

# For comparison, Module rejects all of them
m = h.Module(name="M")
for victim in ["signals", "namespace", "name", "_elaborated"]:
    try:
        delattr(m, victim)
        bad.append(f"del Module.{victim} accepted")
    except RuntimeError:
        pass

# HDL member: refused, but with a false statement
B = h.Bundle(name="B")
B.x = h.Signal()
try:
    del B.x
    bad.append("del B.x accepted")
except RuntimeError:
    pass
except AttributeError as e:
    if B.get("x") is not None:
        print(f"note: `del B.x` is refused only incidentally, with the false message: {e}")

if bad:
    print("VIOLATION (C18: attribute deletion is rejected - on Modules and Bundles):")
    print("\n".join(bad))
    sys.exit(1)
print("ok")
