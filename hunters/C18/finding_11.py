"""C18 finding 11: re-using a name moves the entry to the END of its kind-specific view, but keeps its position in `namespace`;
the class-style definition with the same statements keeps the original position.

    @h.module                         P = h.Module(name="M")
    class M:                          P.a = h.Input()
        a = h.Input()                 P.b = h.Input()
        b = h.Input()                 P.a = h.Input(width=2)
        a = h.Input(width=2)

Class-style: ports (a, b).  Procedural: ports (b, a) - while `P.namespace` still says (a, b).
Port order is the positional interface of the exported SPICE sub-circuit."""
import os, sys, io; sys.path.insert(0, os.getcwd())
import hdl21 as h


@h.module
class M:
    a = h.Input()
    b = h.Input()
    a = h.Input(width=2)


P = h.Module(name="M")
P.a = h.Input()
P.b = h.Input()
P.a = h.Input(width=2)

bad = []
if list(P.ports) != [k for k in P.namespace if k in P.ports]:
    bad.append(f"procedural module: ports view order {list(P.ports)} vs namespace order {list(P.namespace)}")

cls_ports = [p.signal for p in h.to_proto(M).modules[-1].ports]
proc_ports = [p.signal for p in h.to_proto(P).modules[-1].ports]
if cls_ports != proc_ports:
    bad.append(f"exported port order: class-style {cls_ports}  !=  procedural {proc_ports}")

if bad:
    print("VIOLATION (C18: the kind-specific views agree with the namespace; a class-style definition equals the equivalent procedural one):")
    print("\n".join(bad))
    sys.exit(1)
print("ok")
