"""C18 finding 13: an ELABORATED module can still lose / have renamed its attributes through an accepted edit of another module.
`m2.x = m1.a` is accepted (m2 is new), renames m1's port object to 'x' and re-parents it to m2.
For a not-yet-elaborated m1 the Orphanage pass reports this. For an elaborated m1 nothing ever looks again
(every pass caches the modules it has seen), so:
* `m1.get('a')` is an object named 'x' whose parent is M2, inside a module that "cannot be edited after elaboration";
* exporting M1 silently produces a sub-circuit with port `x` instead of `a`;
* exporting a parent that was elaborated *successfully* before now fails with "Unconnected Port x on i"."""
import os, sys; sys.path.insert(0, os.getcwd())
import hdl21 as h

m1 = h.Module(name="M1")
m1.a = h.Input()
m1.r = h.R(r=1)(p=m1.a, n=m1.a)
top = h.Module(name="Top")
top.s = h.Signal()
top.i = m1(a=top.s)
h.elaborate(top)
before = [p.signal for p in h.to_proto(m1).modules[-1].ports]

m2 = h.Module(name="M2")
try:
    m2.x = m1.a  # an edit of M2 only
except RuntimeError as e:
    print("rejected:", e)
    print("ok")
    sys.exit(0)

bad = []
obj = m1.get("a")
if obj.name != "a" or obj._parent_module is not m1:
    bad.append(f"m1.get('a') is now {obj!r} with parent {obj._parent_module!r}")
try:
    after = [p.signal for p in h.to_proto(m1).modules[-1].ports]
    if after != before:
        bad.append(f"export of the elaborated M1: ports were {before}, are now {after} (no error)")
except RuntimeError as e:
    print("export of M1 fails loudly:", str(e).splitlines()[-1][:120])
try:
    pkg = h.to_proto(top)
    pm1 = [m for m in pkg.modules if m.name.endswith("M1")][0]
    ptop = [m for m in pkg.modules if m.name.endswith("Top")][0]
    conn = [c.portname for c in ptop.instances[0].connections]
    prt = [p.signal for p in pm1.ports]
    if conn != prt:
        bad.append(f"exported package of Top is inconsistent: M1 has ports {prt}, instance `i` of M1 connects ports {conn}")
    import io
    try:
        h.netlist(top, io.StringIO(), fmt="spice")
    except RuntimeError as e:
        bad.append(f"netlisting the (successfully elaborated) Top now fails: {str(e).splitlines()[-1][:120]}")
except RuntimeError as e:
    bad.append(f"export of the already elaborated Top now fails: {str(e).splitlines()[-1][:120]}")

if bad:
    print("VIOLATION (C18: each name denotes exactly one object, which reports that module as its parent; elaborated modules take no edits):")
    print("\n".join(bad))
    sys.exit(1)
print("ok")
