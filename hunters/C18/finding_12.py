"""C18 finding 12 (borderline - needs an assignment on the Signal, not on the Module):
the `ports` / `signals` views are a snapshot of `Signal.vis` at the time of `_add`.
* `m.a = h.Signal(); m.a.vis = PORT`: the signal has port visibility but is not listed in `m.ports`, and is exported as an
  internal signal (no port). The reverse keeps an INTERNAL signal as an exported port.
* re-assigning the very same object afterwards (`m.a = m.a`) does not move it, it is then listed in BOTH views, and the
  exported module declares the signal twice."""
import os, sys; sys.path.insert(0, os.getcwd())
import hdl21 as h
from hdl21 import Visibility

bad = []

m = h.Module(name="Ma")
m.a = h.Signal()
m.a.vis = Visibility.PORT
in_ports = "a" in m.ports
pm = h.to_proto(m).modules[-1]
if m.get("a").vis == Visibility.PORT and (not in_ports or "a" not in [p.signal for p in pm.ports]):
    bad.append(f"(a) signal `a` has vis=PORT; 'a' in m.ports: {in_ports}; exported ports: {[p.signal for p in pm.ports]}")

m = h.Module(name="Mb")
m.a = h.Input()
m.a.vis = Visibility.INTERNAL
pm = h.to_proto(m).modules[-1]
if "a" in [p.signal for p in pm.ports]:
    bad.append(f"(b) signal `a` has vis=INTERNAL, yet it is exported as a port: {[p.signal for p in pm.ports]}")

m = h.Module(name="Mc")
m.a = h.Signal()
m.a.vis = Visibility.PORT
m.a = m.a  # assignment on the Module: should re-file the signal
if "a" in m.ports and "a" in m.signals:
    pm = h.to_proto(m).modules[-1]
    bad.append(f"(c) after `m.a = m.a`, 'a' is in both m.ports and m.signals; exported signal declarations: {[s.name for s in pm.signals]}")

if bad:
    print("VIOLATION (C18: a signal is listed as a port exactly when it has port visibility):")
    print("\n".join(bad))
    sys.exit(1)
print("ok")
