"""C18 finding 4: Bundle reserves only `signals`, `bundles`, `namespace`.
`add`, `get`, `props`, `roles`, `Roles` and `name` are accepted as member names (Module rejects add/get/props);
the member is stored and flattened into the exported module, but attribute access keeps returning the method / property /
field of the Bundle object. `b.name = <Signal>` replaces the Bundle's name by the Signal."""
import os, sys; sys.path.insert(0, os.getcwd())
import hdl21 as h

bad = []

for nm in ["add", "get", "props", "Roles", "roles", "name"]:
    for how in ["setattr", "add"]:
        b = h.Bundle(name="B")
        s = h.Signal()
        try:
            if how == "setattr":
                setattr(b, nm, s)
            else:
                b.add(s, name=nm)
        except (RuntimeError, TypeError):
            continue  # rejected: fine
        got, attr = b.get(nm), getattr(b, nm)
        if got is not attr or not isinstance(b.name, str):
            bad.append(f"{how:8s} {nm!r}: accepted; get() = {got!r}, attribute = {attr!r}, bundle name = {b.name!r}")

# Observable in an export: the member named "get" is a real port of the flattened module
try:
    @h.bundle
    class B2:
        get = h.Signal()
        add = h.Signal()
    @h.module
    class M:
        b = B2(port=True)
    ports = [p.signal for p in h.to_proto(M).modules[0].ports]
    if callable(B2.get) and "b_get" in ports:
        bad.append(f"class-style bundle members get/add accepted: exported ports {ports}, while B2.get is {B2.get!r}")
except (RuntimeError, TypeError):
    pass

if bad:
    print("VIOLATION (C18 on Bundles: reserved names rejected; get(name) and attribute access agree):")
    print("\n".join(bad))
    sys.exit(1)
print("ok")
