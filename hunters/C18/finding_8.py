"""C18 finding 8: Bundles accept additions (and replacements) after elaboration.
`Bundle._elaborated` is initialised to False and never set by any elaboration pass, so the guard in `bundle._add`
is dead code. A module elaborated (and cached) with the old definition and modules elaborated later disagree about
what "a port of bundle B" is."""
import os, sys; sys.path.insert(0, os.getcwd())
import hdl21 as h

B = h.Bundle(name="B")
B.x = h.Signal()
B.y = h.Signal()

M1 = h.Module(name="M1")
M1.b = B(port=True)
h.elaborate(M1)  # M1 is final now: ports b_x, b_y

accepted = []
try:
    B.z = h.Signal(width=3)  # addition after elaboration
    accepted.append("B.z = Signal(width=3)")
except RuntimeError:
    pass
try:
    B.add(h.Signal(name="x", width=5))  # replacement after elaboration
    accepted.append("B.add(Signal(name='x', width=5))")
except RuntimeError:
    pass

if accepted:
    print("VIOLATION (C18: additions after elaboration are rejected) - accepted on an elaborated Bundle:", accepted)
    M2 = h.Module(name="M2")
    M2.b = B(port=True)
    p1 = [p.signal for p in h.to_proto(M1).modules[-1].ports]
    pkg2 = h.to_proto(M2).modules[-1]
    p2 = [(s.name, s.width) for s in pkg2.signals]
    print(f"  M1.b (port of B) exports as {p1};  M2.b (port of the same B) exports as {p2}")
    Top = h.Module(name="Top")
    Top.b = B()
    Top.i1 = M1(b=Top.b)
    try:
        h.elaborate(Top)
    except RuntimeError as e:
        print("  connecting a B instance to M1.b now fails:", str(e).splitlines()[-1][:150])
    sys.exit(1)
print("ok")
