"""C18 finding 5: a REJECTED addition still renames the object.
`Module.__setattr__` / `Module.add` write `val.name = key` *before* `_add()` decides whether the addition is allowed.
When `_add()` refuses (target module already elaborated, or partially processed by a failed elaboration), the object
- which is still an attribute of ANOTHER module under its old name - keeps the new name.
That other module's namespace is now incoherent (key 'a' -> object named 'x') and it is exported with the wrong port name.
A retry of the failed add on a fresh module fails as well ("conflicting names")."""
import os, sys; sys.path.insert(0, os.getcwd())
import hdl21 as h

bad = []

# --- history 1: setattr on an elaborated module, value owned by another module
m1 = h.Module(name="M1")
m1.a = h.Input()
done = h.Module(name="Done")
done.z = h.Input()
h.elaborate(done)

rejected = False
try:
    done.x = m1.a  # must be (and is) rejected: additions after elaboration
except RuntimeError:
    rejected = True

if rejected:
    if m1.get("a").name != "a":
        bad.append(f"rejected `done.x = m1.a` renamed m1's port: m1.get('a').name == {m1.get('a').name!r}")
    ports = [p.signal for p in h.to_proto(m1).modules[0].ports]
    if ports != ["a"]:
        bad.append(f"M1 (never touched by an accepted edit) is exported with ports {ports}, expected ['a']")

# --- history 2: failure followed by retry, with add(name=...)
s = h.Signal()
try:
    done.add(s, name="first")
except RuntimeError:
    pass
fresh = h.Module(name="Fresh")
try:
    fresh.add(s, name="second")
    if fresh.get("second") is not s:
        bad.append("retry stored something else")
except RuntimeError as e:
    bad.append(f"retry of a rejected add() on another module fails, the rejected call left s.name={s.name!r}: {e}")

if bad:
    print("VIOLATION (C18: each name denotes exactly one object / additions after elaboration are rejected [without side effects]):")
    print("\n".join(bad))
    sys.exit(1)
print("ok")
