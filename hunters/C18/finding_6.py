"""C18 finding 6: Bundles take part in no ownership check; an object shared between a Module and a Bundle
(or between two Bundles) is silently renamed by the later assignment, and both the export of the module and the
flattening of the bundle use the object's `.name`, not the key it is stored under.

Modules detect "the same object in two modules" (Orphanage pass, via `_parent_module`).
`Bundle._add` sets `_parent_bundle`, which nothing ever reads, and `Module._add` ignores it."""
import os, sys; sys.path.insert(0, os.getcwd())
import hdl21 as h

bad = []


def ports_of(m):
    return [p.signal for p in h.to_proto(m).modules[-1].ports]


def attempt(label, fn):
    """Run `fn`; any rejection (RuntimeError/TypeError at edit time) is fine."""
    try:
        fn()
    except (RuntimeError, TypeError) as e:
        print(f"[{label}] rejected/failed loudly: {str(e).splitlines()[-1][:100]}")


# (a) a module port, later also assigned into a bundle: the MODULE's port changes name
def a():
    m = h.Module(name="Ma")
    m.a = h.Input()
    B = h.Bundle(name="Ba")
    B.z = m.a
    p = ports_of(m)
    if p != ["a"] or m.get("a").name != "a":
        bad.append(f"(a) m.a = Input(); B.z = m.a  ->  m.get('a').name = {m.get('a').name!r}; module exported with ports {p} (expected ['a'])")
attempt("a", a)


# (b) two bundles: B1's member `x` is flattened under B2's name for it
def b():
    s = h.Signal()
    B1 = h.Bundle(name="B1"); B1.x = s
    B2 = h.Bundle(name="B2"); B2.y = s
    m = h.Module(name="Mb")
    m.b1 = B1(port=True)
    p = ports_of(m)
    if p != ["b1_x"]:
        bad.append(f"(b) B1.x = s; B2.y = s  ->  module with a B1 port is exported with ports {p} (expected ['b1_x']); B1.namespace = {B1.namespace}")
attempt("b", b)


# (c) a module takes one of the bundle definition's signals: the BUNDLE loses its member `x`
def c():
    B = h.Bundle(name="Bc")
    B.x = h.Signal(); B.y = h.Signal()
    m = h.Module(name="Mc")
    m.clk = B.x
    m.b = B(port=True)
    p = ports_of(m)
    if "b_x" not in p:
        bad.append(f"(c) m.clk = B.x  ->  B.get('x').name = {B.get('x').name!r}; a port of bundle B flattens to {p} (expected b_x, b_y)")
attempt("c", c)


# (d) bundle instance shared between a module and a bundle
def d():
    Sub = h.Bundle(name="Sub"); Sub.p = h.Signal()
    bi = Sub()
    m = h.Module(name="Md")
    m.d = bi
    Outer = h.Bundle(name="Outer")
    Outer.sub = bi
    sigs = [s.name for s in h.to_proto(m).modules[-1].signals]
    if sigs != ["d_p"]:
        bad.append(f"(d) m.d = bi; Outer.sub = bi  ->  module signals {sigs} (expected ['d_p'])")
attempt("d", d)

if bad:
    print("VIOLATION (C18: each name denotes exactly one object; the object reports that module as its parent):")
    print("\n".join(bad))
    sys.exit(1)
print("ok")
