"""C18 finding 3: underscore-prefixed names on a Module.
* `m._x = <HDL object>` is passed to plain object.__setattr__: the object silently does NOT become part of the module
  (no port in the export), attribute access returns it and get() does not.
* the same route overwrites the library's own state, e.g. `m._elaborated = h.Signal()` makes every later addition fail
  with 'after elaboration'.
* `m.add(h.Input(name="_x"))` on the other hand stores and exports it, but attribute access raises AttributeError."""
import os, sys; sys.path.insert(0, os.getcwd())
import hdl21 as h

bad = []

# (a) HDL value silently dropped
m = h.Module(name="Ma")
try:
    m._vdd = h.Input()
    pkg = h.to_proto(m)
    ports = [p.signal for p in pkg.modules[0].ports]
    if "_vdd" not in ports or m.get("_vdd") is not m._vdd:
        bad.append(f"(a) m._vdd = h.Input() accepted, yet exported ports = {ports}, get('_vdd') = {m.get('_vdd')!r}, m._vdd = {m._vdd!r}")
except (RuntimeError, TypeError):
    pass

# (b) internal state overwritten
m = h.Module(name="Mb")
try:
    m._elaborated = h.Signal()
    try:
        m.x = h.Signal()
    except RuntimeError as e:
        bad.append(f"(b) m._elaborated = h.Signal() accepted; the next addition to the (never elaborated) module fails: {e}")
except (RuntimeError, TypeError):
    pass

# (c) add() under an underscore name: get() works, attribute access raises
m = h.Module(name="Mc")
try:
    s = m.add(h.Input(name="_x"))
    try:
        attr = m._x
    except AttributeError as e:
        attr = e
    if attr is not m.get("_x"):
        bad.append(f"(c) add(Input(name='_x')): get('_x') = {m.get('_x')!r}, ports = {list(m.ports)}, but m._x -> {attr!r}")
except (RuntimeError, TypeError):
    pass

if bad:
    print("VIOLATION (C18: each name denotes exactly one object; get and attribute access agree; reserved names rejected):")
    print("\n".join(bad))
    sys.exit(1)
print("ok")
