"""C09 finding 11: the generator is not part of the generated name when the body names its Module, and generators are
told apart by their function's `__name__` only.

(a) Two generators in one file whose bodies use the (very common) `@h.module class Inner:` idiom with the same class name
    produce Modules named `Inner(<params>)` - the generator's own name appears nowhere. With equal parameter values
    the two different generated modules have one export name.
(b) Two Generator objects made by one factory function (closures) share `__module__` and `__name__`: their results share
    a name, and so do the results of a third generator which takes them as a Generator-valued parameter.
In both cases a design that contains both cannot be exported.
"""
import os, sys; sys.path.insert(0, os.getcwd())
import hdl21 as h

bad = []

def export_both(label, m1, m2, port1, port2):
    top = h.Module(name="Top_" + label)
    top.s = h.Signal()
    top.i1 = m1(**{port1: top.s})
    top.i2 = m2(**{port2: top.s})
    try:
        names = [m.name for m in h.to_proto(top).modules]
        if len(set(names)) != len(names):
            bad.append(f"{label}: duplicate names exported {names}")
    except RuntimeError as e:
        bad.append(f"{label}: export raises: " + str(e).splitlines()[0][:150])

# ---- (a)
@h.paramclass
class MosParams:
    nf = h.Param(dtype=int, desc="fingers", default=1)

@h.generator
def NmosArray(p: MosParams) -> h.Module:
    @h.module
    class Array:
        d = h.Port()
        m = h.Nmos(npar=p.nf)(d=d, g=d, s=d, b=d)
    return Array

@h.generator
def PmosArray(p: MosParams) -> h.Module:
    @h.module
    class Array:
        s = h.Port()
        m = h.Pmos(npar=p.nf)(d=s, g=s, s=s, b=s)
    return Array

n, p = NmosArray(nf=2), PmosArray(nf=2)
assert n is not p
if n.name == p.name:
    bad.append(f"(a) NmosArray(nf=2) and PmosArray(nf=2) are different generated Modules, both named {n.name!r}")
export_both("a", n, p, "d", "s")

# ---- (b)
def make_cell(portname):
    @h.generator
    def Cell(_: h.HasNoParams) -> h.Module:
        m = h.Module()
        m.add(h.Port(name=portname))
        return m
    return Cell

CellA, CellB = make_cell("a"), make_cell("b")
ca, cb = CellA(), CellB()
if ca is not cb and ca.name == cb.name:
    bad.append(f"(b) two generators from one factory: different Modules, both named {ca.name!r}")
export_both("b1", ca, cb, "a", "b")

@h.paramclass
class RowParams:
    cell = h.Param(dtype=h.Generator, desc="cell generator")

@h.generator
def Row(p: RowParams) -> h.Module:
    m = h.Module()
    m.s = h.Port()
    c = p.cell()
    m.c = c(**{list(c.ports)[0]: m.s})
    return m

ra, rb = Row(cell=CellA), Row(cell=CellB)
if ra is not rb and ra.name == rb.name:
    bad.append(f"(b) Row(cell=CellA) and Row(cell=CellB): different Modules, both named {ra.name!r}")

if bad:
    print("VIOLATION (C09: 'The name depends only on the generator and the parameter values ... a design never contains two different generated modules under one export name'):")
    for b in bad: print(" -", b)
    sys.exit(1)
print("ok")
