"""C09 finding 12: a keyword which is not a field of the param-class is silently dropped, and the call is memoised as a
different call than the one written.

`G(widht=8)` (typo for `width`) does not fail: the param-class is built by pydantic, whose configuration here
(`allow_extra="forbid"` - not a pydantic-2 option; the option is called `extra`) ignores unknown keywords. The call
is keyed, named and cached as `G()` / `G(width=1)`: the caller silently gets the default-parameter Module,
the identical object that `G()` returns. Calls written with unequal parameters return one Module under one name.
"""
import os, sys; sys.path.insert(0, os.getcwd())
import hdl21 as h

@h.paramclass
class P:
    width = h.Param(dtype=int, desc="bus width", default=1)

@h.generator
def Bus(p: P) -> h.Module:
    m = h.Module()
    m.d = h.Port(width=p.width)
    return m

bad = []
try:
    wide = Bus(widht=8)
except Exception as e:
    print("ok (rejected):", type(e).__name__)
    sys.exit(0)
if wide is Bus():
    bad.append(f"Bus(widht=8) is accepted and returns the very Module of Bus(): name {wide.name!r}, port width {wide.d.width}")
try:
    P(widht=8)
    bad.append("the param-class itself accepts P(widht=8) -> " + repr(P(widht=8)))
except Exception:
    pass
try:
    np_mod = h.generators.Balun(turns=3)   # a HasNoParams generator given a parameter
    bad.append(f"Balun(turns=3) - a generator without parameters - is accepted: {np_mod.name!r}")
except Exception:
    pass

if bad:
    print("VIOLATION (C09: calls with unequal parameters return distinct Modules / accepted ill-formed input):")
    for b in bad: print(" -", b)
    sys.exit(1)
print("ok")
