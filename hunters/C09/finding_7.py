"""C09 finding 7: negative zero is only canonicalised for bare `float` fields.

`-0.0 == 0.0`, so a call with a negative zero is the same (memoised) call as the one with zero. For a top-level float
field the name is canonicalised (`_positive_zero`), but not for
  (a) `Prefixed` / `Scalar` values:  Prefixed(-0) encodes as "-0", Prefixed(0) as "0"   (e.g. `-ac/2` with ac = 0, "-0", `-0.0*m`)
  (b) floats inside tuples:          (0.0, 1.0) encodes as [0.0, 1.0], (-0.0, 1.0) as [-0.0, 1.0]
so the one Module is named after whichever spelling was seen first: the export name depends on call order.
"""
import os, sys, subprocess

PRELUDE = """
import os, sys; sys.path.insert(0, os.getcwd())
import hdl21 as h
from typing import Tuple
from hdl21.prefix import m as milli

@h.paramclass
class P:
    ofs = h.Param(dtype=h.Scalar, desc="offset voltage")

@h.generator
def Src(p: P) -> h.Module:
    mod = h.Module()
    mod.p, mod.n = h.Ports(2)
    mod.v = h.Vdc(dc=p.ofs)(p=mod.p, n=mod.n)
    return mod

@h.paramclass
class T:
    pts = h.Param(dtype=Tuple[float, ...], desc="points")

@h.generator
def Pwl(p: T) -> h.Module:
    mod = h.Module()
    mod.p, mod.n = h.Ports(2)
    return mod

def build(ofs1, ofs2, t1, t2):
    s1, s2 = Src(ofs=ofs1), Src(ofs=ofs2)
    assert s1 is s2, "equal parameters must be one Module"
    p1, p2 = Pwl(pts=t1), Pwl(pts=t2)
    assert p1 is p2, "equal parameters must be one Module"
    top = h.Module(name="Top")
    top.a, top.b = h.Signals(2)
    top.s1 = s1(p=top.a, n=top.b)
    top.s2 = s2(p=top.a, n=top.b)
    top.p1 = p1(p=top.a, n=top.b)
    top.p2 = p2(p=top.a, n=top.b)
    print(sorted(m.name for m in h.to_proto(top).modules))
zero = 0 * milli
"""

def run(call):
    out = subprocess.run([sys.executable, "-c", PRELUDE + call], cwd=os.getcwd(), capture_output=True, text=True)
    if out.returncode:
        print(out.stderr); sys.exit(2)
    return out.stdout.strip()

a = run("build(zero, -(zero / 2), (0.0, 1.0), (-0.0, 1.0))")
b = run("build(-(zero / 2), zero, (-0.0, 1.0), (0.0, 1.0))")
print("run 1 (zero first)         :", a)
print("run 2 (negative zero first):", b)
if a != b:
    print("VIOLATION (C09: 'The name depends only on the generator and the parameter values - not on call order'): "
          "the same design is exported under different module names.")
    sys.exit(1)
print("ok")
