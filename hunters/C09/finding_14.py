"""C09 finding 14: parameters that compare equal (`==`) can still be two calls: `Prefixed.__eq__` is tolerant, the cache key
(hash) and the name are exact.

`Prefixed.__eq__` rounds both sides to 20 decimal places before comparing; `Prefixed.__hash__` and the name encoding use the
exact value. Ordinary Prefixed arithmetic produces such pairs: `(1*µ / 3) * 3` is `0.9999999999999999999999999999*MICRO`,
which `== 1*µ` (and so are the two param-class instances), but hashes differently. The generator body runs twice, two
Modules with two names come back for parameters that are equal.
"""
import os, sys; sys.path.insert(0, os.getcwd())
import hdl21 as h
from hdl21.prefix import µ

@h.paramclass
class P:
    w = h.Param(dtype=h.Scalar, desc="total width")

runs = []

@h.generator
def Mos(p: P) -> h.Module:
    runs.append(p)
    m = h.Module()
    m.d = h.Port()
    return m

total = 1 * µ
finger = total / 3
again = finger * 3      # the total width, recomputed from the finger width

bad = []
if total == again and P(w=total) == P(w=again):
    m1, m2 = Mos(w=total), Mos(w=again)
    if m1 is not m2:
        bad.append(f"P(w={total!r}) == P(w={again!r}) is True, but Mos(...) returned two Modules "
                   f"({m1.name!r}, {m2.name!r}); body ran {len(runs)} times")
if bad:
    print("VIOLATION (C09: calling a generator twice with equal parameters returns the identical Module and runs the body once):")
    for b in bad: print(" -", b)
    sys.exit(1)
print("ok")
