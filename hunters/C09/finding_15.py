"""C09 finding 15: param-classes with a list- or dict-valued field (and ExternalModule calls with `dict` parameters, which
is what `from_proto` produces) are legal parameter values, but any generator call with them dies inside the cache
look-up with a bare `TypeError: unhashable type: ...`.

- `h.Param(dtype=list, ...)` / `List[int]` fields are accepted by `@h.paramclass` (the library's own tests define one);
  `G(weights=[1, 2])` raises `TypeError: unhashable type: 'list'` from `run()`, with no hint what is wrong.
- `Series(unit=X(dict(...)), ...)` for an ExternalModule with `paramtype=dict` - every imported ExternalModule -
  fails the same way; the library's own generators cannot be applied to imported cells.
The property asks for such calls to be memoised and named (or at least refused with a description), for all param-class shapes.
"""
import os, sys; sys.path.insert(0, os.getcwd())
import hdl21 as h
from typing import List
from hdl21.generators import Series

bad = []

@h.paramclass
class P:
    weights = h.Param(dtype=List[int], desc="unit weights", default_factory=list)

@h.generator
def Dac(p: P) -> h.Module:
    m = h.Module()
    m.o = h.Port()
    for k, w in enumerate(p.weights):
        m.add(h.R(r=1000 * w)(p=m.o, n=m.o), name=f"r{k}")
    return m

try:
    d1, d2 = Dac(weights=[1, 2, 4]), Dac(weights=[1, 2, 4])
    if d1 is not d2:
        bad.append("list-valued field: equal parameters, two Modules")
except TypeError as e:
    bad.append(f"list-valued field: Dac(weights=[1, 2, 4]) raises TypeError: {e}")

X = h.ExternalModule(name="cell", port_list=[h.Port(name="a"), h.Port(name="b")], paramtype=dict)
try:
    s1 = Series(unit=X(dict(w=1)), conns=("a", "b"), nser=2)
    s2 = Series(unit=X(dict(w=1)), conns=("a", "b"), nser=2)
    if s1 is not s2:
        bad.append("dict-parameter ExternalModuleCall: equal parameters, two Modules")
except (TypeError, RuntimeError) as e:
    bad.append(f"Series(unit=<ExternalModule with dict params>) raises {type(e).__name__}: {str(e)[:100]}")

if bad:
    print("VIOLATION (C09: memoisation / naming for all param-class shapes - undescriptive crash):")
    for b in bad: print(" -", b)
    sys.exit(1)
print("ok")
