"""C09 finding 9: a NaN-valued float parameter defeats the memoisation, but not the naming.

`float("nan") != float("nan")`, so two param-class instances holding (different) NaN objects are unequal: writing
`G(x=float("nan"))` twice runs the body twice and returns two Modules. Both are named `G(x=nan)`, so a design with
both call sites holds two different generated modules under one export name, and cannot be exported.
(With the *same* NaN object - e.g. `math.nan` - the tuple-identity shortcut makes the calls equal and all is well,
so the behaviour also depends on object identity / memory addresses.)
"""
import os, sys; sys.path.insert(0, os.getcwd())
import hdl21 as h

@h.paramclass
class P:
    vmax = h.Param(dtype=float, desc="clamp level; NaN = no clamp", default=float("nan"))

runs = []

@h.generator
def Clamp(p: P) -> h.Module:
    runs.append(p)
    m = h.Module()
    m.a = h.Port()
    return m

bad = []
c1 = Clamp(vmax=float("nan"))
c2 = Clamp(vmax=float("nan"))
if c1 is not c2:
    bad.append(f"Clamp(vmax=nan) twice: body ran {len(runs)} times, two Modules, named {c1.name!r} and {c2.name!r}")
    @h.module
    class Top:
        s = h.Signal()
        i1 = c1(a=s)
        i2 = c2(a=s)
    try:
        names = [m.name for m in h.to_proto(Top).modules]
        if len(set(names)) != len(names):
            bad.append(f"duplicate names exported {names}")
    except RuntimeError as e:
        bad.append("export raises: " + str(e).splitlines()[0])

if bad:
    print("VIOLATION (C09: a design never contains two different generated modules under one export name; body runs once):")
    for b in bad: print(" -", b)
    sys.exit(1)
print("ok")
