"""C09 finding 1: ExternalModule(-call) valued parameters: two different external modules, one generated-module name.

Every `ExternalModule` is "qualified" as `pydantic._internal._dataclasses.<name>` (its source-info is collected inside
the dataclass machinery) and its `domain` is not part of the encoding at all. Two external modules which share a name
but live in different domains (perfectly exportable side by side) are different parameter values, yet the generated
modules get ONE export name, and a design using both cannot be exported.
"""
import os, sys; sys.path.insert(0, os.getcwd())
import hdl21 as h
from hdl21.generators import Series

@h.paramclass
class XP:
    w = h.Param(dtype=int, desc="w", default=1)

ports = lambda: [h.Port(name="a"), h.Port(name="b")]
InvA = h.ExternalModule(name="inv", port_list=ports(), domain="libA", paramtype=XP)
InvB = h.ExternalModule(name="inv", port_list=ports(), domain="libB", paramtype=XP)

bad = []

# Sanity: the two external modules coexist in one exported design
@h.module
class Both:
    x, y = h.Signals(2)
    ia = InvA()(a=x, b=y)
    ib = InvB()(a=x, b=y)
pkg = h.to_proto(Both)
assert sorted((e.name.domain, e.name.name) for e in pkg.ext_modules) == [("libA", "inv"), ("libB", "inv")]

# (a) the library's own `Series` generator, `unit` = an ExternalModuleCall
sa = Series(unit=InvA(), conns=("a", "b"), nser=2)
sb = Series(unit=InvB(), conns=("a", "b"), nser=2)
if sa is not sb and sa.name == sb.name:
    bad.append(f"Series(unit=libA.inv) and Series(unit=libB.inv) are distinct Modules, both named {sa.name!r}")

@h.module
class Top:
    x, y = h.Signals(2)
    ia = sa(a=x, b=y)
    ib = sb(a=x, b=y)
try:
    names = [m.name for m in h.to_proto(Top).modules]
    if len(set(names)) != len(names):
        bad.append(f"duplicate module names exported: {names}")
except RuntimeError as e:
    bad.append("exporting a design with both raises: " + str(e).splitlines()[0])

# (b) an ExternalModule-valued field of a user generator
@h.paramclass
class P:
    cell = h.Param(dtype=h.ExternalModule, desc="cell to wrap")

@h.generator
def Wrap(p: P) -> h.Module:
    m = h.Module()
    m.x, m.y = h.Signals(2)
    m.i = p.cell()(a=m.x, b=m.y)
    return m

wa, wb = Wrap(cell=InvA), Wrap(cell=InvB)
if wa is not wb and wa.name == wb.name:
    bad.append(f"Wrap(cell=libA.inv) and Wrap(cell=libB.inv) are distinct Modules, both named {wa.name!r}")

if bad:
    print("VIOLATION (C09: unequal parameters -> distinct Modules whose exported names differ):")
    for b in bad: print(" -", b)
    sys.exit(1)
print("ok")
