"""C09 finding 2: a generator whose param-class has a field called `arg` (or `self`) cannot be called by keywords.

`Generator.__call__(self, arg=Default, **kwargs)` takes the keyword `arg` (and `self`) for itself, so
`G(arg=5)` is read as "the already-built param-class instance is 5". The param-class itself accepts `P(arg=5)`,
and `G(P(arg=5))` works; the property says that the by-keywords and the by-instance call are the same call.
"""
import os, sys; sys.path.insert(0, os.getcwd())
import hdl21 as h

bad = []
for fieldname in ("arg", "self", "callee"):
    ns = {}
    exec(
        "import hdl21 as h\n"
        "@h.paramclass\n"
        "class P:\n"
        f"    {fieldname} = h.Param(dtype=int, desc='a perfectly legal field name', default=0)\n"
        "@h.generator\n"
        "def G(p: P) -> h.Module:\n"
        "    m = h.Module()\n"
        f"    m.add(h.Port(name='p', width=p.{fieldname}))\n"
        "    return m\n",
        ns,
    )
    G, P = ns["G"], ns["P"]
    by_instance = G(P(**{fieldname: 5}))
    try:
        by_keyword = G(**{fieldname: 5})
    except Exception as e:
        bad.append(f"field {fieldname!r}: G({fieldname}=5) raises {type(e).__name__}: {str(e).splitlines()[0][:140]}   (G(P({fieldname}=5)) -> {by_instance.name})")
        continue
    if by_keyword is not by_instance:
        bad.append(f"field {fieldname!r}: keyword and instance calls returned different modules")

if bad:
    print("VIOLATION (C09: equal parameters 'by keywords or by param-class instance' -> the identical Module):")
    for b in bad: print(" -", b)
    sys.exit(1)
print("ok")
