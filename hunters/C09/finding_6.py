"""C09 finding 6: equal numbers of different Python types are one (memoised) call, but the name is that of whichever
spelling came first - so the export name depends on call order / differs from run to run of one design.

`1 == 1.0 == True == Decimal("1.0")` (with equal hashes), so in a field which admits more than one number type
(`Union[int, float]`, `Any`, `Decimal`, ...) `G(x=1)` and `G(x=1.0)` are correctly the same cached Module.
The name is computed from the JSON text of the first spelling (`1` vs `1.0` vs `true`), so two runs that make the
same calls in a different order export the same design under different module names.
"""
import os, sys, subprocess, textwrap

PRELUDE = """
import os, sys; sys.path.insert(0, os.getcwd())
import hdl21 as h
from typing import Union
from decimal import Decimal

@h.paramclass
class P:
    gain = h.Param(dtype=Union[int, float], desc="gain, any number")

@h.generator
def Amp(p: P) -> h.Module:
    m = h.Module()
    m.i, m.o, m.vss = h.Ports(3)
    m.e = h.Vcvs(gain=p.gain)(p=m.o, n=m.vss, cp=m.i, cn=m.vss)
    return m

@h.paramclass
class D:
    r = h.Param(dtype=Decimal, desc="a Decimal")

@h.generator
def Res(p: D) -> h.Module:
    m = h.Module()
    m.a, m.b = h.Ports(2)
    m.r = h.R(r=p.r)(p=m.a, n=m.b)
    return m

def build(first, second, dfirst, dsecond):
    m1, m2 = Amp(gain=first), Amp(gain=second)
    assert m1 is m2, "equal parameters must be one Module"
    r1, r2 = Res(r=Decimal(dfirst)), Res(r=Decimal(dsecond))
    assert r1 is r2, "equal parameters must be one Module"
    top = h.Module(name="Top")
    top.a, top.b, top.vss = h.Signals(3)
    top.x1 = m1(i=top.a, o=top.b, vss=top.vss)
    top.x2 = m2(i=top.b, o=top.a, vss=top.vss)
    top.r1 = r1(a=top.a, b=top.b)
    top.r2 = r2(a=top.a, b=top.b)
    print(sorted(m.name for m in h.to_proto(top).modules))
"""

def run(call):
    out = subprocess.run([sys.executable, "-c", PRELUDE + call], cwd=os.getcwd(), capture_output=True, text=True)
    if out.returncode:
        print(out.stderr); sys.exit(2)
    return out.stdout.strip()

a = run("build(2, 2.0, '1.0', '1')")
b = run("build(2.0, 2, '1', '1.0')")
print("run 1 (calls written 2 then 2.0 ; Decimal('1.0') then Decimal('1')):", a)
print("run 2 (calls written 2.0 then 2 ; Decimal('1') then Decimal('1.0')):", b)
if a != b:
    print("VIOLATION (C09: 'The name depends only on the generator and the parameter values - not on call order'; "
          "'differently written equal numbers'): the same design is exported under different module names.")
    sys.exit(1)
print("ok")
