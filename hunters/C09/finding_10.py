"""C09 finding 10: readable names contain the characters of the value verbatim - in particular '.', the path separator
of qualified module names. Netlisting (and `from_proto`) cut the name at its last '.'.

`G(x=1.5)` is exported as `<pymodule>.G(x=1.5)`. VLSIR module names are dot-separated paths: `vlsirtools` netlisters name
a module by the part after the last '.', and `hdl21.from_proto` does the same (`path = pmod.name.split(".")`).
Hence in every netlist format `G(x=1.5)` becomes subckt `5_` and `G(x=2.5)` becomes subckt `5_` as well:
 - a design with two float-parameterised instances of one generator cannot be netlisted ("Module 5_ doubly defined"),
 - two *different generators* collide the same way,
 - and where only one is present, its netlist name has lost the generator name and the integer part.
The same happens for str-valued parameters containing '.', e.g. corner="v1.2".
"""
import os, sys, io; sys.path.insert(0, os.getcwd())
import hdl21 as h

@h.paramclass
class P:
    vdd = h.Param(dtype=float, desc="supply", default=1.5)

@h.generator
def Ldo(p: P) -> h.Module:
    m = h.Module()
    m.a = h.Port()
    m.r = h.R(r=p.vdd)(p=m.a, n=m.a)
    return m

@h.generator
def Bias(p: P) -> h.Module:
    m = h.Module()
    m.a = h.Port()
    m.c = h.C(c=p.vdd)(p=m.a, n=m.a)
    return m

bad = []

def try_netlist(label, *mods):
    top = h.Module(name="Top_" + label)
    top.s = h.Signal()
    for k, mod in enumerate(mods):
        top.add(mod(a=top.s), name=f"i{k}")
    pkg = h.to_proto(top)
    names = [m.name for m in pkg.modules]
    assert len(set(names)) == len(names)  # the package itself is fine
    dest = io.StringIO()
    try:
        h.netlist(top, dest, fmt="spice")
    except Exception as e:
        bad.append(f"{label}: package modules {names} -> netlisting raises {type(e).__name__}: {str(e).splitlines()[0]}")
        return
    subckts = [l.split()[1] for l in dest.getvalue().splitlines() if l.upper().startswith(".SUBCKT")]
    if len(set(subckts)) != len(subckts):
        bad.append(f"{label}: duplicate subckt names {subckts}")
    lost = [s for s in subckts if not any(s.startswith(g) for g in ("Ldo", "Bias", "Top"))]
    if lost:
        bad.append(f"{label}: package modules {names} are netlisted as subckts {subckts}")

try_netlist("one_generator_two_values", Ldo(vdd=1.5), Ldo(vdd=2.5))
try_netlist("two_generators", Ldo(vdd=1.5), Bias(vdd=1.5))
try_netlist("single", Ldo(vdd=3.5))

if bad:
    print("VIOLATION (C09: distinct Modules whose exported names differ / never two different generated modules under one export name):")
    for b in bad: print(" -", b)
    sys.exit(1)
print("ok")
