"""C09 finding 3: Module-valued fields are named by the module's (current) name only.

Modules compare by identity, so two different Modules are two different parameter values (and the generator is run
for each, and may well build different hardware from each). The name however encodes a Module-valued field as its
qualified *name*: every anonymous Module encodes as `null`, and two Modules which share a name encode identically.
The generated modules - different content - then get one export name. The "template" modules need never be exported
themselves, so nothing else would object to them.
"""
import os, sys; sys.path.insert(0, os.getcwd())
import hdl21 as h

@h.paramclass
class P:
    like = h.Param(dtype=h.Module, desc="Module whose port-list is copied")

@h.generator
def Dummy(p: P) -> h.Module:
    """A dummy load with the same ports as `like`"""
    m = h.Module()
    for port in p.like.ports.values():
        m.add(h.Port(name=port.name, width=port.width))
    return m

bad = []

def check(label, t1, t2):
    d1, d2 = Dummy(like=t1), Dummy(like=t2)
    assert d1 is not d2 and list(d1.ports) != list(d2.ports)
    if d1.name == d2.name:
        bad.append(f"{label}: distinct generated Modules (ports {list(d1.ports)} vs {list(d2.ports)}) both named {d1.name!r}")
    top = h.Module(name="Top_" + label)
    for iname, d in (("i1", d1), ("i2", d2)):
        conns = {pn: top.add(h.Signal(name=f"{iname}_{pn}", width=p.width)) for pn, p in d.ports.items()}
        top.add(d(**conns), name=iname)
    try:
        names = [m.name for m in h.to_proto(top).modules]
        if len(set(names)) != len(names):
            bad.append(f"{label}: duplicate names exported {names}")
    except RuntimeError as e:
        bad.append(f"{label}: export raises: " + str(e).splitlines()[0])

# (a) two anonymous modules
a1 = h.Module(); a1.inp = h.Port()
a2 = h.Module(); a2.out = h.Port(width=4)
check("anonymous", a1, a2)

# (b) two modules with the same name (e.g. produced by one helper function)
def template(portname):
    t = h.Module(name="Template")
    t.add(h.Port(name=portname))
    return t
check("same_named", template("x"), template("y"))

if bad:
    print("VIOLATION (C09: unequal parameters -> distinct Modules whose exported names differ):")
    for b in bad: print(" -", b)
    sys.exit(1)
print("ok")
