"""C09 finding 13: a generator that returns an existing, hand-written Module renames that Module in place.

`run()` appends the parameter suffix to whatever un-generated Module the function returns. If that is a Module which exists
independently of the generator (the usual `if not p.buffered: return Core` shortcut), `Core` itself is renamed
`Core(<hash>)`. The same Module is then exported under two names - `Core` before the first generator call,
`Core(...)` after it - so the name of a hand-written module in a design depends on whether (and with which parameters
first) some generator had been called before: call-order dependence, one module under two names.
"""
import os, sys; sys.path.insert(0, os.getcwd())
import hdl21 as h

@h.module
class Core:
    a = h.Port()

@h.paramclass
class P:
    buffered = h.Param(dtype=bool, desc="add a buffer", default=False)
    n = h.Param(dtype=int, desc="size", default=1)

@h.generator
def Stage(p: P) -> h.Module:
    if not p.buffered:
        return Core  # nothing to add
    m = h.Module()
    m.a = h.Port()
    m.core = Core(a=m.a)
    return m

def core_export_name():
    top = h.Module(name="Top")
    top.s = h.Signal()
    top.c = Core(a=top.s)
    return [m.name for m in h.to_proto(top).modules][0]

before = core_export_name()
s1 = Stage(buffered=False, n=1)
after = core_export_name()
s2 = Stage(buffered=False, n=2)

bad = []
if before != after:
    bad.append(f"hand-written module Core is exported as {before!r} before the call Stage(buffered=False) and as {after!r} after it")
if s1 is s2 and s1.name == s2.name:
    bad.append(f"Stage(n=1) and Stage(n=2) are one Module named {s1.name!r} (the name of whichever call came first)")

if bad:
    print("VIOLATION (C09: name does not depend on call order; never one module under two names):")
    for b in bad: print(" -", b)
    sys.exit(1)
print("ok")
