"""C09 finding 5: nested param-classes are encoded as bare {field: value} dictionaries - their type is lost.

A field which can hold one of several param-classes (`Union[RcLoad, DiodeLoad]`, `Any`, ...) gets the same encoding for
instances of different classes which happen to have the same field names and values. The parameters are unequal
(dataclass equality is class-sensitive), the generator runs for each and builds different hardware,
and the two Modules get one name.
"""
import os, sys; sys.path.insert(0, os.getcwd())
import hdl21 as h
from typing import Union

@h.paramclass
class ResLoad:
    n = h.Param(dtype=int, desc="number of unit resistors", default=1)

@h.paramclass
class CapLoad:
    n = h.Param(dtype=int, desc="number of unit capacitors", default=1)

@h.paramclass
class AmpParams:
    load = h.Param(dtype=Union[ResLoad, CapLoad], desc="load kind and size")

@h.generator
def Amp(p: AmpParams) -> h.Module:
    m = h.Module()
    m.out, m.vss = h.Ports(2)
    unit = h.R(r=1000) if isinstance(p.load, ResLoad) else h.C(c=1e-12)
    for k in range(p.load.n):
        m.add(unit(p=m.out, n=m.vss), name=f"ld{k}")
    return m

r, c = Amp(load=ResLoad(n=2)), Amp(load=CapLoad(n=2))
bad = []
assert AmpParams(load=ResLoad(n=2)) != AmpParams(load=CapLoad(n=2))
assert type(AmpParams(load=CapLoad(n=2)).load) is CapLoad
if r is c:
    bad.append("unequal parameters returned the same Module")
elif r.name == c.name:
    bad.append(f"Amp(load=ResLoad(n=2)) and Amp(load=CapLoad(n=2)) are distinct Modules, both named {r.name!r}")

@h.module
class Top:
    o1, o2, vss = h.Signals(3)
    a1 = r(out=o1, vss=vss)
    a2 = c(out=o2, vss=vss)
try:
    names = [m.name for m in h.to_proto(Top).modules]
    if len(set(names)) != len(names):
        bad.append(f"duplicate module names exported: {names}")
except RuntimeError as e:
    bad.append("export raises: " + str(e).splitlines()[0])

if bad:
    print("VIOLATION (C09: unequal parameters -> distinct Modules whose exported names differ; nested param-class shape):")
    for b in bad: print(" -", b)
    sys.exit(1)
print("ok")
