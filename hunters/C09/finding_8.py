"""C09 finding 8: the value encoding used for names is lossy - unequal values, one name.

Values which are not handled by `hdl21_naming_encoder` itself go to pydantic's JSON encoder, which
  (a) turns a `Decimal` with a fractional part into a binary `float`: Decimal("0.1") and Decimal(0.1)
      (= 0.1000000000000000055511151231257827...) are unequal, but both encode as 0.1
  (b) turns an `Enum` member into its value: in a `Union[int, Mode]` field `Mode.FAST` (value 1) and `1` are unequal, both encode as 1
  (c) decodes `bytes`: b"a" and "a" are unequal, both encode as "a"
The generator runs once per (unequal) value, the Modules are distinct, their names equal; a design containing both cannot be exported.
"""
import os, sys; sys.path.insert(0, os.getcwd())
import hdl21 as h
import enum
from decimal import Decimal
from typing import Union, Any

bad = []

def check(label, dtype, v1, v2):
    @h.paramclass
    class P:
        x = h.Param(dtype=dtype, desc="x")

    @h.generator
    def G(p: P) -> h.Module:
        m = h.Module()
        m.a = h.Port()
        return m

    assert P(x=v1) != P(x=v2), label
    m1, m2 = G(x=v1), G(x=v2)
    if m1 is m2:
        bad.append(f"{label}: unequal parameters returned one Module")
        return
    if m1.name == m2.name:
        bad.append(f"{label}: G(x={v1!r}) and G(x={v2!r}) are distinct Modules, both named {m1.name!r}")
    top = h.Module(name="Top")
    top.s = h.Signal()
    top.i1 = m1(a=top.s)
    top.i2 = m2(a=top.s)
    try:
        names = [m.name for m in h.to_proto(top).modules]
        if len(set(names)) != len(names):
            bad.append(f"{label}: duplicate names exported {names}")
    except RuntimeError as e:
        bad.append(f"{label}: export raises: " + str(e).splitlines()[0][:120])

class Mode(enum.Enum):
    SLOW = 0
    FAST = 1

check("(a) Decimal", Decimal, Decimal("0.1"), Decimal(0.1))
check("(b) Enum vs its value", Union[int, Mode], Mode.FAST, 1)
check("(c) bytes vs str", Any, b"a", "a")

if bad:
    print("VIOLATION (C09: unequal parameters -> distinct Modules whose exported names differ):")
    for b in bad: print(" -", b)
    sys.exit(1)
print("ok")
