"""C09 finding 4: Signal-valued fields (the library's own `Series(conns=...)`) - same written call, two Modules, one name.

`SeriesParams.conns` accepts Signals or names. Signals compare (and hash) by identity, so writing the same call
twice with freshly written ports - `conns=(h.Port(name="p"), h.Port(name="n"))` - makes two *unequal* parameter
sets: the generator body runs twice and returns two Modules. The name however encodes a Signal by its field values,
so both Modules get the same name, and a design which contains both call sites cannot be exported.
Either the two calls are equal (then: one Module, body run once) or unequal (then: two names). Neither holds.
"""
import os, sys; sys.path.insert(0, os.getcwd())
import hdl21 as h
from hdl21.generators import Series

def stack():
    # the same text, evaluated twice - e.g. in two different parent modules / generators
    return Series(unit=h.R(r=1000), conns=(h.Port(name="p"), h.Port(name="n")), nser=3)

s1, s2 = stack(), stack()
bad = []
if s1 is not s2:
    bad.append(f"the same call returned two Modules (not memoised): {s1.name!r} / {s2.name!r}")
    if s1.name == s2.name:
        bad.append("... and the two distinct Modules have the same name")

@h.module
class Top:
    a, b, c = h.Signals(3)
    r1 = s1(p=a, n=b)
    r2 = s2(p=b, n=c)
try:
    names = [m.name for m in h.to_proto(Top).modules]
    if len(set(names)) != len(names):
        bad.append(f"duplicate module names exported: {names}")
except RuntimeError as e:
    bad.append("export raises: " + str(e).splitlines()[0])

if bad:
    print("VIOLATION (C09: equal calls -> identical Module, or unequal calls -> different names):")
    for b in bad: print(" -", b)
    sys.exit(1)
print("ok")
