"""C17 finding 1: a class-defined Sim overwrites explicitly given names, notably the (required) name of `Options`.

`opts = Options(1e-9, name="reltol")` in an `@sim` class body (this exact line is in hdl21/sim/tests/test_sim.py)
is exported as an option called "opts"; the option `reltol` never reaches the SimInput.
The same Options object given to `Sim(attrs=[...])` or `sim.options(...)` is exported as "reltol".
"""
import os, sys; sys.path.insert(0, os.getcwd())
import hdl21 as h
import hdl21.sim as hs
from hdl21.sim import Sim, Options, Param, Meas, Tran, Include

@hs.sim
class ClassSim:
    tb = hs.tb("f1_tb_class")
    opts = Options(1e-9, name="reltol")
    o2 = Options(27, name="temp")
    p = Param(5, name="vdd")
    tr = Tran(tstop=1, name="mytran")
    m = Meas(analysis="tran", expr="e", name="a_delay")

proc = Sim(tb=hs.tb("f1_tb_proc"), attrs=[Options(1e-9, name="reltol"), Options(27, name="temp")])
added = Sim(tb=hs.tb("f1_tb_add"))
added.options(1e-9, name="reltol"); added.options(27, name="temp")

pc, pp, pa = hs.to_proto(ClassSim), hs.to_proto(proc), hs.to_proto(added)
names_class = [o.name for o in pc.opts]
names_proc = [o.name for o in pp.opts]
names_add = [o.name for o in pa.opts]
print("option names, procedural  :", names_proc)
print("option names, add-methods :", names_add)
print("option names, class-based :", names_class)
print("class-based param / analysis / meas names:", pc.ctrls[0].param.name, pc.an[0].tran.analysis_name, pc.ctrls[1].meas.name,
      "(given: vdd, mytran, a_delay)")
if names_class != ["reltol", "temp"]:
    print("VIOLATION: the class-defined Sim exports options named", names_class,
          "instead of ['reltol', 'temp'] - the simulator options the user named are lost")
    sys.exit(1)
sys.exit(0)
