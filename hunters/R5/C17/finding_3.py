"""C17 finding 3: Noise analyses whose output is a `Diff` bundle, a port reference, a slice or a pair of names crash the exporter
with AttributeError, although `Noise` accepts them and the exporter has explicit branches for them.

`export_noise` reads `output.bundle` (BundleInstance has `.of`), reads `.name` off every "connectable" (PortRef, Slice, Concat have none),
and its tuple check `any(not is_connectable for x in output)` tests the function object, so it never rejects anything.
"""
import os, sys; sys.path.insert(0, os.getcwd())
import hdl21 as h
import hdl21.sim as hs
from hdl21.sim import Sim, Noise, LogSweep

def mktb(name):
    tb = hs.tb(name)
    tb.a = h.Signal(); tb.b = h.Signal(); tb.w = h.Signal(width=2)
    tb.d = h.Diff()
    tb.v = h.primitives.Vdc(dc=1)(p=tb.a, n=tb.VSS)
    tb.r = h.primitives.R(r=1)(p=tb.d.p, n=tb.d.n)
    tb.r2 = h.primitives.R(r=1)(p=tb.w[0], n=tb.w[1])
    tb.r3 = h.primitives.R(r=1)(p=tb.a, n=tb.b)
    return tb

cases = {
    "pair of signals (works)": lambda tb: (tb.a, tb.b),
    "Diff bundle instance": lambda tb: tb.d,
    "port reference": lambda tb: tb.v.p,
    "slice": lambda tb: tb.w[0],
    "pair of names": lambda tb: ("a", "b"),
}
bad = []
for i, (label, mk) in enumerate(cases.items()):
    tb = mktb(f"f3_tb{i}")
    try:
        noise = Noise(output=mk(tb), input_source=tb.v, sweep=LogSweep(1, 10, 3), name="n")
        p = hs.to_proto(Sim(tb=tb, attrs=[noise]))
        print(f"{label}: exported output_p={p.an[0].noise.output_p!r} output_n={p.an[0].noise.output_n!r}")
    except (TypeError, ValueError) as e:
        if "Noise" in str(e):
            print(f"{label}: refused with a descriptive error: {e}")
        else:
            print(f"{label}: {type(e).__name__}: {e}"); bad.append(label)
    except Exception as e:
        print(f"{label}: CRASH {type(e).__name__}: {e}")
        bad.append(label)
if bad:
    print("VIOLATION: these Noise outputs were accepted at construction and crash the export with an internal error:", bad)
    sys.exit(1)
sys.exit(0)
