"""C17 finding 2: defining a second class-based Sim changes what an existing Sim exports (shared attribute objects are renamed in place).

`hdl21.sim.sim` assigns `val.name = key` on the attribute objects themselves. An attribute object used in two
`@sim` classes under different keys (e.g. a module-level `common_tran = Tran(...)`) - or twice in one class -
is renamed for every Sim that holds it.
"""
import os, sys; sys.path.insert(0, os.getcwd())
import hdl21 as h
import hdl21.sim as hs
from hdl21.sim import Sim, Param, Tran, Op, Dc, PointSweep

vdd = Param(1)            # shared pieces of simulation input, e.g. kept in a common python module
common_tran = Tran(tstop=1)

@hs.sim
class SimA:
    tb = hs.tb("f2_tb_a")
    vdd = vdd
    tran_a = common_tran
    dc = Dc(var=vdd, sweep=PointSweep([1]))

def summary(p):
    return dict(param=p.ctrls[0].param.name, tran=p.an[0].tran.analysis_name, dc_var=p.an[1].dc.indep_name)

before = summary(hs.to_proto(SimA))

@hs.sim
class SimB:
    tb = hs.tb("f2_tb_b")
    supply = vdd          # same objects under other names
    tran_b = common_tran

after = summary(hs.to_proto(SimA))
print("SimA exported before SimB was defined:", before)
print("SimA exported after  SimB was defined:", after)

# The same mechanism inside one class: two entries, one name
@hs.sim
class SimC:
    tb = hs.tb("f2_tb_c")
    first = Op()
    second = first
names_c = [a.op.analysis_name for a in hs.to_proto(SimC).an]
print("SimC (first = Op(); second = first) analysis names:", names_c)

bad = False
if before != after:
    print("VIOLATION: the export of SimA depends on the later definition of SimB (names", before, "became", after, ")")
    bad = True
if len(set(names_c)) != len(names_c):
    print("VIOLATION: SimC holds two analyses with the one name", names_c)
    bad = True
sys.exit(1 if bad else 0)
