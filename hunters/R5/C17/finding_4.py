"""C17 finding 4: a procedurally built Sim whose testbench is an ExternalModule call or a Primitive call is refused with an EMPTY TypeError.

`@sim` reports 'Invalid testbench ...'; `Sim(tb=...)` + `to_proto` dies in `ProtoExporter.export` (`raise TypeError` without a message)
before `is_tb` is ever consulted. (The repair fe2fef8 made `is_tb` refuse these, but the procedural path does not reach it.)
"""
import os, sys; sys.path.insert(0, os.getcwd())
import hdl21 as h
import hdl21.sim as hs
from hdl21.sim import Sim, Op

em = h.ExternalModule(name="f4_ext_tb", port_list=[h.Port(name="VSS")])
bad = []
for label, tb in [("ExternalModule call", em()), ("Primitive call", h.primitives.R(r=1))]:
    try:
        hs.to_proto(Sim(tb=tb, attrs=[Op()]))
        print(label, ": accepted?!"); bad.append(label)
    except Exception as e:
        print(f"{label}: {type(e).__name__}({str(e)!r})")
        if not str(e).strip():
            bad.append(label)
if bad:
    print("VIOLATION: rejected without any message (bare TypeError):", bad)
    sys.exit(1)
sys.exit(0)
