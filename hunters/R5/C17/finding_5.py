"""C17 finding 5: entries without a name are exported silently with an empty name / empty content.

`None` names go into the protobuf constructors, where `None` means "leave unset":
 * `Param(5)` (no name) -> a `param` control named ""
 * `Dc(var=Param(5), ...)` -> a DC analysis sweeping the variable ""
 * `Save(h.Signal())` (signal never named) -> a `save` control with neither mode nor signal, while `Save([h.Signal()])` raises TypeError
"""
import os, sys; sys.path.insert(0, os.getcwd())
import hdl21 as h
import hdl21.sim as hs
from hdl21.sim import Sim, Param, Dc, PointSweep, Save, Meas

bad = []
def attempt(label, attr, look):
    try:
        p = hs.to_proto(Sim(tb=hs.tb("f5_" + str(len(bad)) + label.split()[0]), attrs=[attr]))
    except Exception as e:
        print(f"{label}: refused: {type(e).__name__}: {str(e)[:80]}")
        return
    got = look(p)
    print(f"{label}: exported {got!r}")
    if got in ("", None):
        bad.append(label)

attempt("Param without name", Param(5), lambda p: p.ctrls[0].param.name)
attempt("Dc over unnamed Param", Dc(var=Param(5), sweep=PointSweep([1]), name="dc"), lambda p: p.an[0].dc.indep_name)
attempt("Save of unnamed Signal", Save(h.Signal()), lambda p: p.ctrls[0].save.WhichOneof("save"))
attempt("Save of list with unnamed Signal", Save([h.Signal()]), lambda p: p.ctrls[0].save.signal)
if bad:
    print("VIOLATION: ill-formed attributes accepted and exported as empty entries:", bad)
    sys.exit(1)
sys.exit(0)
