"""
C08 finding 1 - a failed elaboration freezes the Modules it visited, but not the Bundle definitions they were
built from: the repair its own error message asks for ("Bundle `B` has no attribute `d`" -> add `d` to `B`) is accepted,
and a shared sub-module that the failed call had already taken through the InstanceBundle pass is then exported
with the OLD member list - one instance short of what a fresh process returns for the same design.

History (one process):
    elaborate(T1)      -> fails in ConnTypes (pass 4) at module X1: `bus.d` does not exist in bundle B
                          (shared sub-module S has been through passes 1-3 by then; S.ib was split into ib_a, ib_b)
    B.d = h.Signal()   -> accepted (B._elaborated is only set by the bundle flattener, pass 5)
    to_proto(T2)       -> T2 = a new top with a new X2 and the same S.  S comes out with instances ib_a, ib_b only.

A fresh process that runs the same statements without the failed call exports S with ib_a, ib_b, ib_d.

Exit code 1 if the violation is observed, 0 otherwise.
"""
import os, sys

sys.path.insert(0, os.getcwd())
import subprocess

CHILD = r'''
import os, sys; sys.path.insert(0, os.getcwd())
import hdl21 as h
fail_first = sys.argv[1] == "1"

@h.bundle
class B:
    a, b = h.Signals(2)

IB = h.InstanceBundleType(name="IB", bundle=B)

@h.module
class Unit:
    p = h.Port()
    VSS = h.Port()

@h.module
class S:                      # the shared, innocent sub-module
    VSS = h.Port()
    bus = B()
    ib = IB(Unit)(p=bus, VSS=VSS)

def mk(n):
    X = h.Module(name=f"X{n}")    # the offending module: refers to member `d`, which B does not have (yet)
    X.VSS = h.Port()
    X.bus = B()
    X.u = Unit(p=X.bus.d, VSS=X.VSS)
    T = h.Module(name=f"T")
    T.VSS = h.Signal()
    T.s = S(VSS=T.VSS)
    T.x = X(VSS=T.VSS)
    return T

T1 = mk(1)
if fail_first:
    try:
        h.elaborate(T1)
        print("UNEXPECTED: first elaboration passed")
    except RuntimeError as e:
        sys.stderr.write("first call failed with: " + str(e).splitlines()[-1] + "\n")

try:
    B.d = h.Signal()          # the repair which the error message asks for
except Exception as e:
    print("REFUSED", type(e).__name__)   # a loud refusal would be fine
    sys.exit(0)
T2 = mk(2)                    # new offending-module-free top; S is shared with the failed design
pkg = h.to_proto(T2)
for m in pkg.modules:
    if m.name.split(".")[-1] == "S":
        print(sorted(i.name for i in m.instances), sorted(s.name for s in m.signals))
'''


def run(flag: str) -> str:
    r = subprocess.run([sys.executable, "-c", CHILD, flag], capture_output=True, text=True, cwd=os.getcwd())
    if r.returncode != 0:
        return "ERROR: " + (r.stderr.strip().splitlines() or ["?"])[-1]
    return r.stdout.strip()


fresh = run("0")
after_failure = run("1")
print("fresh process, module S (instances, signals):       ", fresh)
print("after a failed elaboration, module S:                ", after_failure)
if after_failure.startswith("REFUSED") or after_failure == fresh:
    print("OK: no difference")
    sys.exit(0)
print(
    "VIOLATION (C08): 'every design that does not contain the offending module still elaborates to exactly the result "
    "a fresh process gives' - shared module S was exported with the member list bundle B had before the repair."
)
sys.exit(1)
