"""
C07 finding 6: a module that has already been elaborated and exported (as part of one parent) is renamed
IN PLACE when a generator merely hands it on, so the package exported for the first parent changes
although nothing in that parent - or below it - was touched.

`generator.run()` names "whatever module the generator function returned", unless it carries a
`_generated_by` mark. A "selector" generator returning an existing hand-written module
(`return Inv if p.kind == "inv" else Buf`) therefore appends its parameter suffix to `Inv` itself:
 - `to_proto(Top1)` gives module `Inv` before, `Inv(kind=inv)` after building the unrelated `Top2`;
 - the name depends on which call came first (`kind=inv` or `kind=also_inv`), i.e. on call order;
 - an already elaborated module, which "refuses further additions", is nevertheless modified.

Property clauses: "the package exported for a design is a function of the design alone: it is the same
whether its sub-modules were elaborated or exported earlier ... as parts of other parents",
"elaborating or exporting again changes nothing".

exit 1 = violation observed, exit 0 = not observed
"""
import os, sys; sys.path.insert(0, os.getcwd())
import hdl21 as h

print("hdl21 from", h.__file__)


def build():
    @h.module
    class Inv:
        a = h.Port()
        r = h.R(r=1)(p=a, n=a)

    @h.module
    class Top1:
        s = h.Signal()
        i = Inv(a=s)

    @h.paramclass
    class P:
        kind = h.Param(dtype=str, desc="which cell", default="inv")

    @h.generator
    def Pick(p: P) -> h.Module:
        return Inv  # hands on an existing module

    return Inv, Top1, Pick


def names(pkg):
    return [m.name.split(".")[-1] for m in pkg.modules]


violations = []

# (1) Top1 exported, another parent built through the generator, Top1 exported again
Inv, Top1, Pick = build()
first = h.to_proto(Top1)
Top2 = h.Module(name="Top2")
Top2.s = h.Signal()
Top2.i = Pick(kind="inv")(a=Top2.s)  # uses the same Inv in another parent
second = h.to_proto(Top1)
print("to_proto(Top1) before Top2 was built:", names(first))
print("to_proto(Top1) after  Top2 was built:", names(second))
if str(first) != str(second):
    violations.append("exporting Top1 again gives a different package (module Inv was renamed in place)")

# (2) order dependence
Inv, Top1, Pick = build()
Pick(kind="also_inv"); Pick(kind="inv")
a = names(h.to_proto(Top1))
Inv, Top1, Pick = build()
Pick(kind="inv"); Pick(kind="also_inv")
b = names(h.to_proto(Top1))
print("calls in order also_inv, inv:", a)
print("calls in order inv, also_inv:", b)
if a != b:
    violations.append("the name of Inv in the package depends on the order of the generator calls")

if violations:
    print("VIOLATION(S):")
    for v in violations:
        print("  -", v)
    sys.exit(1)
print("no violation observed")
sys.exit(0)
