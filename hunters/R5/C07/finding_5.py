"""
C07 finding 5 (minor; cases the "definitions refuse additions after elaboration" repairs missed):

 (a) `Bundle._elaborated` is only set by the BundleFlattener, i.e. when a *BundleInstance* of the
     definition is flattened. A Bundle that is used through an `InstanceBundle` type only
     (`h.InstanceBundleType(name, bundle)`, the mechanism behind `h.Pair`), connected to scalars or anonymous
     bundles, is consumed by InstBundleElabPass - one instance per member - without being marked:
     it keeps accepting additions after the module built from it has been elaborated and exported.
 (b) An elaborated module refuses `add` / attribute assignment / connection edits, but still takes
     additions to `module.literals` (`append` is the only API there is for literals), which change the
     package exported for the - already elaborated and exported - module.

Property clause: "An already elaborated module ... refuses further additions" (and, for (a), the on-record
finding 'Bundle definitions accept additions after elaboration').

exit 1 = violation observed, exit 0 = not observed
"""
import os, sys; sys.path.insert(0, os.getcwd())
import hdl21 as h

print("hdl21 from", h.__file__)
violations = []


@h.module
class Leaf:
    p = h.Port()
    q = h.Port()


# ---- (a)
def bundle_open_after_elaboration(use_bundle_instance: bool) -> bool:
    @h.bundle
    class T:
        a, b, c = h.Signals(3)

    Trio = h.InstanceBundleType("Trio", T)

    m = h.Module(name="M_bi" if use_bundle_instance else "M_scalar")
    m.s = h.Signal()
    if use_bundle_instance:
        m.tt = T()
        m.t = Trio(Leaf)(p=m.s, q=m.tt)
    else:
        m.x, m.y, m.z = h.Signals(3)
        m.t = Trio(Leaf)(p=m.s, q=h.AnonymousBundle(a=m.x, b=m.y, c=m.z))
    pkg = h.to_proto(m)
    assert [i.name for i in pkg.modules[-1].instances] == ["t_a", "t_b", "t_c"]
    try:
        T.d = h.Signal()
        return True
    except RuntimeError:
        return False


ctrl = bundle_open_after_elaboration(True)
test = bundle_open_after_elaboration(False)
print("(a) Bundle T used by a BundleInstance too  : addition after elaboration", "ACCEPTED" if ctrl else "refused")
print("(a) Bundle T used by an InstanceBundle only: addition after elaboration", "ACCEPTED" if test else "refused")
if test:
    violations.append("a: a Bundle consumed by InstBundleElabPass only is never marked elaborated")


# ---- (b)
@h.module
class M:
    s = h.Signal()
    l = Leaf(p=s, q=s)


first = h.to_proto(M)
try:
    M.add(h.Signal(name="extra"))
    print("(b) M.add(Signal) after elaboration: ACCEPTED")
except RuntimeError:
    print("(b) M.add(Signal) after elaboration: refused")
M.literals.append(h.Literal("generated_after_the_fact"))
second = h.to_proto(M)
print("(b) M.literals.append(Literal) after elaboration: accepted; literals exported now:", list(second.modules[-1].literals))
if str(first) != str(second):
    violations.append("b: an elaborated and exported module took a further addition (a literal), changing its package")

if violations:
    print("VIOLATION(S):")
    for v in violations:
        print("  -", v)
    sys.exit(1)
print("no violation observed")
sys.exit(0)
