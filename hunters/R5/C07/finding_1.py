"""
C07 finding 1: an earlier *partial* elaboration through the public `h.Elaborator` entry point
(the form the library's own tests use: `Elaborator(passes=[ResolvePortRefs]).elaborate(m)`)
silently changes the connectivity of the package exported afterwards:
the unconnected (`NoConn`) port of an instance `Pair` is one net per instance on a fresh design,
but ONE shared net - shorting the two instances' ports together - after the partial elaboration.

exit 1 = violation observed, exit 0 = not observed
"""
import os, sys; sys.path.insert(0, os.getcwd())
import hdl21 as h
from hdl21.elab.passes import ResolvePortRefs


def build():
    @h.module
    class Leaf:
        a = h.Port()
        r = h.Port()

    @h.module
    class P:
        d = h.Diff(port=True)
        pr = h.Pair(Leaf)(a=d, r=h.NoConn())  # `r` of each of the two instances is left unconnected

    return P


def nets_of_r(pkg):
    """{instance name: name of the net on port `r`} in module P"""
    (pmod,) = [m for m in pkg.modules if m.name.endswith(".P")]
    rv = {}
    for inst in pmod.instances:
        for c in inst.connections:
            if c.portname == "r":
                rv[inst.name] = c.target.sig
    return rv


# (1) The design alone
fresh = h.to_proto(build())

# (2) The same design, after a partial elaboration with a user-made Elaborator.
#     `h.Elaborator` / `h.set_elaborator` are public (`hdl21.elab.__all__`), and this very call
#     is made in hdl21/tests/test_bundles.py to look at resolved port references.
P = build()
h.Elaborator(passes=[ResolvePortRefs]).elaborate(P)
after = h.to_proto(P)

f, a = nets_of_r(fresh), nets_of_r(after)
print("hdl21 from", h.__file__)
print("fresh design       : nets on `r` =", f)
print("after partial elab : nets on `r` =", a)

fresh_distinct = len(set(f.values())) == 2
after_distinct = len(set(a.values())) == 2
if str(fresh) != str(after):
    print("VIOLATION: the exported package depends on the elaboration history.")
    if fresh_distinct and not after_distinct:
        print("  The two no-connects of the Pair are separate nets in the fresh export,")
        print("  but a single net (pr_p.r shorted to pr_n.r) after the earlier partial elaboration.")
    sys.exit(1)
print("no difference")
sys.exit(0)
