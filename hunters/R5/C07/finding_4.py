"""
C07 finding 4: a Bundle definition that has been elaborated (flattened into a module) refuses
`B.add(...)` / `B.new = ...`, but its existing members can still be taken away and re-named by assigning
them into ANOTHER Bundle (or Module): `B2.y = B.x` silently renames B's member `x` to `y`.
(Modules protect their attributes against exactly this once elaborated; Bundles do not:
`bundle._assert_addable` and `module._assert_addable` only look at `val._parent_module`.)

Consequence for the property: the very same sequence of design statements

    define B, C(b: B port);  B2.y = B.x;  define P = { bb = B(); c = C(b=bb) };  to_proto(P)

gives a package when C was never elaborated before, and raises when C was elaborated earlier
(C was flattened with member `x`, P is flattened with member `y`).

exit 1 = violation observed, exit 0 = not observed
"""
import os, sys; sys.path.insert(0, os.getcwd())
import hdl21 as h

print("hdl21 from", h.__file__)


def run(elaborate_child_first: bool):
    @h.bundle
    class B:
        x = h.Signal()
        z = h.Signal(width=2)

    @h.module
    class C:
        b = B(port=True)

    if elaborate_child_first:
        h.elaborate(C)
        try:
            B.w = h.Signal()
            print("   (B.w = Signal() accepted?!)")
        except RuntimeError:
            print("   (B.w = Signal() is refused, as it should be: B has been elaborated)")

    B2 = h.Bundle(name="B2")
    try:
        B2.y = B.x
        print("   `B2.y = B.x` accepted; B.signals['x'].name is now", repr(B.signals["x"].name))
    except RuntimeError as e:
        print("   `B2.y = B.x` refused:", e)

    @h.module
    class P:
        bb = B()
        c = C(b=bb)

    try:
        pkg = h.to_proto(P)
        (c,) = [m for m in pkg.modules if m.name.endswith(".C")]
        return ("ok", sorted(p.signal for p in c.ports))
    except Exception as e:
        return ("exc", str(e).strip().splitlines()[-1])


print("C never elaborated before:")
never = run(False)
print("  ->", never)
print("C elaborated before:")
earlier = run(True)
print("  ->", earlier)

if never != earlier:
    print("VIOLATION: the outcome for the same design statements depends on whether sub-module C")
    print("  was elaborated earlier; an elaborated Bundle definition was modified after the fact.")
    sys.exit(1)
print("no difference")
sys.exit(0)
