"""
C07 finding 3: an already elaborated (and exported) module is still modified - silently - when one of
its signals is assigned into a *Bundle* definition: `SomeBundle.y = C.p` re-names C's port `p` to `y`.
The same statement aimed at a Module is refused ("... is attribute `p` of Module(name=C), which has
been elaborated"); `Bundle.__setattr__` / `bundle._assert_addable` have no such check.
Exporting again then yields a different - and internally inconsistent - package: module C declares
port `y`, while its (also elaborated) parent still connects port `p`; `h.netlist` of it fails
with "Unconnected Port y on c".

Property clauses: "elaborating or exporting again changes nothing", "it refuses further additions".

exit 1 = violation observed, exit 0 = not observed
"""
import os, sys; sys.path.insert(0, os.getcwd())
import io
import hdl21 as h

print("hdl21 from", h.__file__)


@h.module
class C:
    p = h.Port()
    r = h.R(r=1)(p=p, n=p)


@h.module
class P:
    s = h.Signal()
    c = C(p=s)


first = h.to_proto(P)
h.netlist(P, io.StringIO(), fmt="spice")  # fine

# The guarded route, for comparison
M2 = h.Module(name="M2")
try:
    M2.y = C.p
    module_route = "accepted"
except RuntimeError as e:
    module_route = "refused"
print("Module route  `M2.y = C.p` :", module_route)

# The unguarded route
B2 = h.Bundle(name="B2")
try:
    B2.y = C.p
    bundle_route = "accepted"
except RuntimeError as e:
    bundle_route = "refused"
print("Bundle route  `B2.y = C.p` :", bundle_route)

second = h.to_proto(P)


def ports_of(pkg, suffix):
    (m,) = [m for m in pkg.modules if m.name.endswith(suffix)]
    return [p.signal for p in m.ports]


def conns_of(pkg, suffix, iname):
    (m,) = [m for m in pkg.modules if m.name.endswith(suffix)]
    (i,) = [i for i in m.instances if i.name == iname]
    return [c.portname for c in i.connections]


print("first export : C ports", ports_of(first, ".C"), "| P.c connects", conns_of(first, ".P", "c"))
print("second export: C ports", ports_of(second, ".C"), "| P.c connects", conns_of(second, ".P", "c"))
try:
    h.netlist(P, io.StringIO(), fmt="spice")
    net = "ok"
except Exception as e:
    net = f"{type(e).__name__}: {e}"
print("netlist after :", net)

if str(first) != str(second):
    print("VIOLATION: exporting the (elaborated) design again gives a different package;")
    print("  the elaborated module C accepted a modification through `Bundle.__setattr__`.")
    if set(ports_of(second, ".C")) != set(conns_of(second, ".P", "c")):
        print("  The second package is inconsistent: P.c connects ports that C does not declare.")
    sys.exit(1)
print("no difference")
sys.exit(0)
