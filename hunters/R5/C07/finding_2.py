"""
C07 finding 2: failures that have nothing to do with the design (RecursionError on a deep hierarchy,
KeyboardInterrupt / Ctrl-C during a long elaboration) are remembered on every module that was on the
elaboration stack (`Module._elaboration_failure`, set by `except BaseException` in
ElabPass.elaborate_module_base) and re-raised by every later elaborate / to_proto / netlist call.

 (A) A 420-deep chain of valid modules cannot be exported directly (RecursionError: elaboration uses
     3 Python frames per hierarchy level), but CAN be exported if some of its sub-modules were elaborated
     earlier (bottom-up, in steps): the outcome depends on the elaboration history, not on the design.
 (B) After the failed direct attempt, raising the recursion limit and trying again still raises the
     *old* RecursionError, although an identical fresh design now exports fine.
 (C) A (simulated) Ctrl-C during `h.elaborate(top)` makes every later `h.to_proto(top)` raise
     KeyboardInterrupt out of the blue - also for a valid sub-module that was merely on the stack.

exit 1 = violation observed, exit 0 = not observed
"""
import os, sys; sys.path.insert(0, os.getcwd())
import hdl21 as h

sys.setrecursionlimit(1000)  # CPython's default
N = 420


def chain(n):
    mods, prev = [], None
    for k in range(n):
        m = h.Module(name=f"M{k}")
        m.p = h.Port()
        if prev is None:
            m.r = h.R(r=1)(p=m.p, n=m.p)
        else:
            m.i = prev(p=m.p)
        mods.append(m)
        prev = m
    return mods


def attempt(fn):
    try:
        return ("ok", fn())
    except BaseException as e:  # noqa
        return ("exc", type(e).__name__)


violations = []
print("hdl21 from", h.__file__)

# ---- (A) never-elaborated sub-modules vs sub-modules elaborated earlier
mods = chain(N)
direct = attempt(lambda: len(h.to_proto(mods[-1]).modules))
mods_b = chain(N)
for k in range(0, N, 40):  # elaborate some sub-modules earlier, alone
    h.elaborate(mods_b[k])
stepwise = attempt(lambda: len(h.to_proto(mods_b[-1]).modules))
print(f"(A) to_proto(top) of a {N}-deep chain, nothing elaborated before : {direct}")
print(f"(A) same design, every 40th sub-module elaborated earlier        : {stepwise}")
if direct[0] != stepwise[0]:
    violations.append("A: exportability depends on whether sub-modules were elaborated earlier")

# ---- (B) the failure is sticky
sys.setrecursionlimit(20000)
retry = attempt(lambda: len(h.to_proto(mods[-1]).modules))
fresh = attempt(lambda: len(h.to_proto(chain(N)[-1]).modules))
sub = attempt(lambda: len(h.to_proto(mods[N // 2]).modules))  # a valid sub-module that was on the stack
print(f"(B) recursion limit raised; retry on the SAME modules             : {retry}")
print(f"(B) recursion limit raised; identical design built afresh         : {fresh}")
print(f"(B) recursion limit raised; a sub-module (M{N//2}) of the first chain  : {sub}")
if direct[0] == "exc" and fresh[0] == "ok" and retry[0] == "exc":
    violations.append("B: a RecursionError of an earlier attempt is re-raised although the design is exportable now")
sys.setrecursionlimit(1000)

# ---- (C) simulated Ctrl-C
mods_c = chain(20)
state = {"armed": True}


def tracer(frame, event, arg):
    # Deliver a KeyboardInterrupt - as Ctrl-C would - when elaboration reaches the leaf module
    if (
        state["armed"]
        and event == "call"
        and frame.f_code.co_name == "elaborate_module"
        and frame.f_locals.get("module") is mods_c[0]
    ):
        state["armed"] = False
        raise KeyboardInterrupt()
    return None


sys.settrace(tracer)
first = attempt(lambda: h.elaborate(mods_c[-1]))
sys.settrace(None)
second = attempt(lambda: len(h.to_proto(mods_c[-1]).modules))
third = attempt(lambda: len(h.to_proto(mods_c[10]).modules))
print(f"(C) elaborate(top) interrupted by (simulated) Ctrl-C               : {first}")
print(f"(C) later to_proto(top), nobody pressing anything                  : {second}")
print(f"(C) later to_proto(M10), a valid sub-module                        : {third}")
if first == ("exc", "KeyboardInterrupt") and second == ("exc", "KeyboardInterrupt"):
    violations.append("C: an interrupted elaboration makes every later export raise KeyboardInterrupt")

if violations:
    print("VIOLATION(S):")
    for v in violations:
        print("  -", v)
    sys.exit(1)
print("no violation observed")
sys.exit(0)
