"""C03 finding 3: editing `Slice.index` after its width / bounds were read leaves the old bounds in force.

`Slice` is a plain (non-frozen) dataclass with public fields `parent` and `index`. Commit c8bd03a made the
resolved bounds depend on the parent and the parent's width, but not on `index`: once `width`, `top`, `bot`
or `step` has been read, assigning a new `index` changes `repr()` and `.index` but neither the reported width
nor the exported bits. The same edit *before* the first read takes effect.
Property clause: "the reported width always equals the number of selected bits" (of the slice as it is).
"""
import os, sys; sys.path.insert(0, os.getcwd())
import hdl21 as h


def run(read_first: bool):
    leaf1 = h.Module(name="Leaf1"); leaf1.q = h.Port(width=1)
    leaf2 = h.Module(name="Leaf2"); leaf2.q = h.Port(width=2)
    m = h.Module(name=f"Top_{int(read_first)}")
    m.s = h.Signal(width=4)
    sl = m.s[0]
    if read_first:
        _ = sl.width  # e.g. printed, or checked in an assertion
    sl.index = slice(1, 3)  # now denotes s[1:3], two bits
    width = sl.width
    try:
        m.tap = (leaf2 if width == 2 else leaf1)(q=sl)
        pkg = h.to_proto(m)
    except Exception as e:
        return width, f"{type(e).__name__}: {e}"
    top = [pm for pm in pkg.modules if pm.name.endswith(m.name)][0]
    t = top.instances[0].connections[0].target
    return width, (t.slice.signal, t.slice.top, t.slice.bot) if t.WhichOneof("stype") == "slice" else str(t)


def main():
    w0, e0 = run(read_first=False)
    w1, e1 = run(read_first=True)
    print("index edited before the first look at the width: width", w0, "exported", e0)
    print("index edited after  the first look at the width: width", w1, "exported", e1)
    if (w0, e0) != (2, ("s", 2, 1)):
        print("unexpected baseline"); return 1
    if (w1, e1) != (w0, e0):
        print("VIOLATION: the slice's `index` says slice(1, 3), its width says", w1, "and the package says", e1)
        print("  (expected either width 2 / bits 2:1, or the edit to be refused)")
        return 1
    return 0


sys.exit(main())
