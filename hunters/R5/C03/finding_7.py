"""C03 finding 7 (low): iterating over a Signal / Slice / Concat / reference never ends.

These types define `__getitem__` but neither `__iter__` nor `__len__`, so Python falls back on the legacy
sequence protocol: `x[0], x[1], ...` until `IndexError`. Out-of-range indices are only rejected lazily (when the
width or bounds of the new Slice are asked for), so no `IndexError` ever comes: `for bit in sig`, `list(sig)`,
`h.Concat(*sig)`, `other in sig` loop forever, adding a Slice to `sig._slices` per step.
The property permits late rejection of a single out-of-range index; the consequence for "Python sequence
semantics" is that the natural way of enumerating the bits of a bus hangs the process instead of yielding w bits.
"""
import os, sys; sys.path.insert(0, os.getcwd())
import itertools
import hdl21 as h


def main():
    s = h.Signal(name="s", width=3)
    bits = list(itertools.islice(iter(s), 50))  # capped: `list(s)` would not return
    if len(bits) == 3:
        print("ok: iteration yields the 3 bits")
        return 0
    print(f"VIOLATION: iterating over the 3-bit Signal yielded {len(bits)} items (capped at 50) and no end;")
    print(f"  item 3 is {bits[3]!r}, an index outside the signal; len(s._slices) == {len(s._slices)}")
    return 1


sys.exit(main())
