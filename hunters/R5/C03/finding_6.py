"""C03 finding 6: `from_proto` re-reads VLSIR slice bounds with Python's clamping / negative-index rules.

VLSIR slices give absolute, inclusive bit numbers (`top`, `bot`). `import_connection_target` turns them into
`Slice(parent=sig, index=slice(bot, top + 1))`, so a package which names bits outside a signal is not rejected:
`s[5:2]` of a 4-bit `s` silently becomes `s[3:2]`, `s[100:2]` likewise, and negative bit numbers count from the
top (`s[-2:-3]` becomes `s[2:1]`). The imported design elaborates, passes the width checks (the 4-bit-wide
`s[5:2]` ends up on a 2-bit port) and is re-exported as a well-formed package naming different bits.
Property clauses: "no package ever names a bit outside its signal"; "Resolving ... does not change the selected
bit sequence"; hunting brief: accepted ill-formed input.
"""
import os, sys; sys.path.insert(0, os.getcwd())
import hdl21 as h
import vlsir.circuit_pb2 as vckt


def package(top: int, bot: int, port_width: int) -> vckt.Package:
    pkg = vckt.Package(domain="dom")
    leaf = vckt.Module(name="Leaf")
    leaf.signals.append(vckt.Signal(name="p", width=port_width))
    leaf.ports.append(vckt.Port(signal="p", direction=vckt.Port.Direction.NONE))
    pkg.modules.append(leaf)
    m = vckt.Module(name="Top")
    m.signals.append(vckt.Signal(name="s", width=4))
    i = vckt.Instance(name="i")
    i.module.local = "Leaf"
    c = vckt.Connection(portname="p")
    c.target.slice.CopyFrom(vckt.Slice(signal="s", top=top, bot=bot))
    i.connections.append(c)
    m.instances.append(i)
    pkg.modules.append(m)
    return pkg


def roundtrip(top, bot, port_width):
    ns = h.from_proto(package(top, bot, port_width))
    pkg2 = h.to_proto(ns.Top)
    t = [m for m in pkg2.modules if m.name.endswith("Top")][0].instances[0].connections[0].target
    return (t.slice.signal, t.slice.top, t.slice.bot)


def main():
    assert roundtrip(2, 1, 2) == ("s", 2, 1)  # a well-formed slice survives as it is
    bad = 0
    for top, bot in [(5, 2), (100, 2), (-2, -3)]:
        try:
            got = roundtrip(top, bot, 2)
        except Exception as e:
            print(f"ok: s[{top}:{bot}] of the 4-bit `s` is rejected: {type(e).__name__}")
            continue
        bad += 1
        print(f"VIOLATION: the package connects s[{top}:{bot}] of the 4-bit signal `s` to a 2-bit port;")
        print(f"  it is imported, elaborated and exported again as {got[0]}[{got[1]}:{got[2]}]")
    return 1 if bad else 0


sys.exit(main())
