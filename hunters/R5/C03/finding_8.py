"""C03 finding 8 (low): slices of two ports which are defined through one another bit-by-bit crash with RecursionError.

u.p = Concat(v.p[0], s)   and   v.p = Concat(u.p[1], t)   is well defined bit for bit:
v.p = [s, t] and u.p = [s, s]. Both indices are in range of the 2-bit ports they index. Before elaboration the
slices report width 1. `ResolvePortRefs` re-parents each slice onto the other port's Concat, after which every
width look-up (`_get_inner` needs the parent's width to validate the index) recurses through both Concats forever:
`RecursionError`, without any mention of the design.
Property clause: "every in-range index ... is accepted on ... port references"; else at least a descriptive rejection.
"""
import os, sys; sys.path.insert(0, os.getcwd())
import hdl21 as h


def main():
    leaf = h.Module(name="Leaf2"); leaf.p = h.Port(width=2)
    m = h.Module(name="Top")
    m.s, m.t = h.Signal(), h.Signal()
    m.u = leaf()
    m.v = leaf()
    a, b = m.v.p[0], m.u.p[1]
    m.u.connect("p", h.Concat(a, m.s))
    m.v.connect("p", h.Concat(b, m.t))
    assert a.width == 1 and b.width == 1
    try:
        pkg = h.to_proto(m)
    except RecursionError as e:
        print("VIOLATION: RecursionError while elaborating in-range indices of port references:", str(e)[:60])
        return 1
    except RuntimeError as e:
        print("rejected with a message (acceptable):", str(e).splitlines()[-1])
        return 0
    print("accepted")
    return 0


sys.exit(main())
