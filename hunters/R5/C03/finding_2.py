"""C03 finding 2: bundle members named like BundleInstance / BundleRef attributes cannot be referenced or indexed.

`Bundle` accepts members called `src`, `dest`, `port`, `role`, `desc`, `flipped`, `of` (only `signals, bundles,
namespace, add, get, props, name, roles` are banned), but `BundleInstance` keeps attributes of those names, so
`m.b.src` is `None` (the instance's source *role*), `m.b.port` is `False`, ... and never a `BundleRef`.
One level down, members of a sub-bundle called `path`, `root`, `parent`, `resolved`, `attrname` hit the
attributes / methods of `BundleRef` the same way.
Property clause: "every in-range index and non-empty unit-step range is accepted on ... bundle references alike".
"""
import os, sys; sys.path.insert(0, os.getcwd())
import hdl21 as h


@h.bundle
class Inner:
    path = h.Signal(width=4)
    data = h.Signal(width=4)


@h.bundle
class Bus:
    src = h.Signal(width=4)   # e.g. a source address
    dest = h.Signal(width=4)  # e.g. a destination address
    data = h.Signal(width=4)
    inner = Inner()


def try_member(get, label):
    leaf = h.Module(name="Leaf1")
    leaf.q = h.Port(width=1)
    m = h.Module(name="Top_" + label.replace(".", "_"))
    m.b = Bus()
    try:
        m.tap = leaf(q=get(m)[2])
        pkg = h.to_proto(m)
    except Exception as e:
        return f"{type(e).__name__}: {e}"
    top = [pm for pm in pkg.modules if pm.name.endswith(m.name)][0]
    tap = [i for i in top.instances if i.name == "tap"][0]
    sl = tap.connections[0].target.slice
    return (sl.signal, sl.top, sl.bot)


def main():
    bad = 0
    cases = [
        ("b.data", lambda m: m.b.data, ("b_data", 2, 2)),
        ("b.inner.data", lambda m: m.b.inner.data, ("b_inner_data", 2, 2)),
        ("b.src", lambda m: m.b.src, ("b_src", 2, 2)),
        ("b.dest", lambda m: m.b.dest, ("b_dest", 2, 2)),
        ("b.inner.path", lambda m: m.b.inner.path, ("b_inner_path", 2, 2)),
    ]
    for label, get, want in cases:
        got = try_member(get, label)
        ok = got == want
        print(("ok       " if ok else "VIOLATION"), f"m.{label}[2] ->", got)
        bad += not ok
    if bad:
        print("Bundle members whose names collide with BundleInstance / BundleRef attributes are declared without")
        print("complaint, but references to them (and hence indices into them) cannot be made.")
        return 1
    return 0


sys.exit(main())
