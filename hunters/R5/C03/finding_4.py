"""C03 finding 4: `h.Slice(parent=<bundle reference>, index=...)` is accepted, reports its width, then breaks elaboration.

`ref[i]` registers the new Slice with the reference (`ref._slices`); constructing the (public, exported)
`h.Slice` directly - as `hdl21.proto.importing` itself does - does not. A bundle reference whose only use is as
the parent of such a Slice counts as "unused" in `BundleFlattener.is_unused`, is never resolved, and
`SliceResolver` then fails with "Unresolved reference BundleRef(...)". The same construction over a Signal, a
Slice, a Concat or a *port* reference elaborates and exports correctly.
Property clause: "every in-range index and non-empty unit-step range is accepted on signals, slices,
concatenations, port references and bundle references alike".
"""
import os, sys; sys.path.insert(0, os.getcwd())
import hdl21 as h


@h.bundle
class B:
    x = h.Signal(width=3)


def run(kind: str, direct: bool):
    leaf1 = h.Module(name="Leaf1"); leaf1.q = h.Port(width=1)
    leaf3 = h.Module(name="Leaf3"); leaf3.q = h.Port(width=3)
    m = h.Module(name=f"Top_{kind}_{int(direct)}")
    m.s = h.Signal(width=3)
    m.b = B()
    m.u = leaf3()
    parent = {"signal": m.s, "portref": m.u.q, "bundleref": m.b.x, "concat": h.Concat(m.s)}[kind]
    sl = h.Slice(parent=parent, index=1) if direct else parent[1]
    assert sl.width == 1
    m.tap = leaf1(q=sl)
    try:
        pkg = h.to_proto(m)
    except Exception as e:
        return f"{type(e).__name__}: {str(e).splitlines()[-1]}"
    top = [pm for pm in pkg.modules if pm.name.endswith(m.name)][0]
    tap = [i for i in top.instances if i.name == "tap"][0]
    sl = tap.connections[0].target.slice
    return (sl.signal, sl.top, sl.bot)


def main():
    bad = 0
    want = {"signal": ("s", 1, 1), "portref": ("u_q", 1, 1), "bundleref": ("b_x", 1, 1), "concat": ("s", 1, 1)}
    for kind in want:
        for direct in (False, True):
            got = run(kind, direct)
            ok = got == want[kind]
            spelling = f"h.Slice(parent=<{kind}>, index=1)" if direct else f"<{kind}>[1]"
            print(("ok       " if ok else "VIOLATION"), spelling.ljust(42), "->", got)
            bad += not ok
    return 1 if bad else 0


sys.exit(main())
