"""C03 finding 1: the port named `n` of an InstanceArray cannot be referenced or indexed.

`InstanceArray` keeps its element count in a public attribute `n`, which shadows the
"attribute access creates a PortRef" magic. Every two-terminal primitive (resistor, capacitor,
inductor, diode, voltage / current source) has ports `p` and `n`; `arr.p[i]` works, `arr.n[i]` raises
`TypeError: 'int' object is not subscriptable` (and `arr.n` silently is the integer count).
Property clause: "every in-range index and non-empty unit-step range is accepted on signals, slices,
concatenations, port references and bundle references alike".
"""
import os, sys; sys.path.insert(0, os.getcwd())
import hdl21 as h


def build(portname: str):
    leaf = h.Module(name="Leaf1")
    leaf.q = h.Port(width=1)
    m = h.Module(name=f"Top_{portname}")
    m.a = h.Signal(width=4)
    m.vss = h.Signal(width=4)
    m.rs = 4 * h.R(r=1)(p=m.a, n=m.vss)
    ref = getattr(m.rs, portname)  # a port reference, for `p`
    m.tap = leaf(q=ref[2])
    pkg = h.to_proto(m)
    top = [pm for pm in pkg.modules if pm.name.endswith(f"Top_{portname}")][0]
    tap = [i for i in top.instances if i.name == "tap"][0]
    sl = tap.connections[0].target.slice
    return (sl.signal, sl.top, sl.bot)


def main():
    got_p = build("p")
    assert got_p == ("a", 2, 2), got_p  # the same construct on the sibling port `p` works
    try:
        got_n = build("n")
    except Exception as e:
        print("VIOLATION: indexing the reference to port `n` of an instance array failed, whereas")
        print(f"  `arr.p[2]` was accepted and exported as {got_p}.")
        print(f"  `arr.n[2]` raised {type(e).__name__}: {e}")
        arr = 4 * h.R(r=1)()
        print(f"  (`arr.n` is {arr.n!r}, of type {type(arr.n).__name__}, not a PortRef)")
        return 1
    if got_n != ("vss", 2, 2):
        print("VIOLATION: arr.n[2] selected", got_n)
        return 1
    print("ok: arr.n[2] ->", got_n)
    return 0


sys.exit(main())
