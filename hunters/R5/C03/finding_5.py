"""C03 finding 5: integer indices which are not `int` instances (numpy integers, anything with `__index__`)
are rejected with an empty `TypeError`, although the same values are accepted as slice bounds and steps.

`sliceable._slice` tests `isinstance(index, (int, slice))` and does a bare `raise TypeError`. Python sequences
take any object implementing `__index__`; generator code like `for i in np.arange(n): sig[i]` is common.
Property clauses: "an integer index i with -w <= i < w selects exactly bit i mod w", "every in-range index ...
is accepted"; and for the message: an undescriptive error where the property demands acceptance.
"""
import os, sys; sys.path.insert(0, os.getcwd())
import hdl21 as h

try:
    import numpy as np
    two = np.int64(2)
except ImportError:  # fall back on a minimal `__index__` implementer
    class _I:
        def __index__(self):
            return 2
    two = _I()


def main():
    s = h.Signal(name="s", width=4)
    assert [10, 11, 12, 13][two] == 12  # a Python sequence takes it
    # As a slice bound or step the very same object is fine, and follows list semantics
    a = s[two:]
    b = s[::two]
    assert (a.width, a.bot, a.top) == (2, 2, 4), a
    assert (b.width, b.bot, b.step) == (2, 0, 2), b
    try:
        c = s[two]
        ok = (c.width, c.bot, c.top) == (1, 2, 3)
        print("ok" if ok else f"VIOLATION: s[{two!r}] selected bits {c.bot}:{c.top}")
        return 0 if ok else 1
    except Exception as e:
        print(f"VIOLATION: s[{two!r}] (type {type(two).__name__}) raised {type(e).__name__}({str(e)!r}),")
        print(f"  while s[{two!r}:] and s[::{two!r}] are accepted, and a list accepts all three.")
        return 1


sys.exit(main())
