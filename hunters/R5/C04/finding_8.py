"""C04 finding 8: whether a valid design is accepted depends on the alphabetical order of its instance names.

Port `b` (1 bit) of a 2-element array is tied, one bit per element, to the 2-bit port `w` of a scalar instance;
`w` in turn refers back to the array port (or to itself). Such source-less groups of references are supported: a new
net is created for them. But its width is copied from the port of the alphabetically FIRST instance of the group; if that
is the array, the net is made 1 bit wide and the design is rejected with a width mismatch. Renaming the instances,
and nothing else, flips the outcome.
"""
import os, sys; sys.path.insert(0, os.getcwd())
import hdl21 as h


def build(arrname, instname):
    @h.module
    class Inner:
        a, b = h.Ports(2)
        w = h.Port(width=2)

    m = h.Module(name=f"Top_{arrname}_{instname}")
    m.s1, m.s2 = h.Signals(2)
    m.w1 = h.Signal(width=2)
    arr = m.add(2 * Inner(a=m.s1, w=m.w1), name=arrname)
    inst = m.add(Inner(a=m.s1, b=m.s2), name=instname)
    arr.b = inst.w   # 2 bits over 2 x 1 bit
    inst.w = arr.b   # "the same thing again": a cycle of references, for which a net gets created
    return m


def outcome(m):
    try:
        pkg = h.to_proto(m)
    except RuntimeError as e:
        return ("rejected", str(e).splitlines()[-1])
    top = [x for x in pkg.modules if x.name.endswith(m.name)][0]
    return ("accepted", sorted((s.name, s.width) for s in top.signals if s.name not in ("s1", "s2", "w1")))


r1 = outcome(build("xarr", "inst"))   # scalar instance sorts first
r2 = outcome(build("arr", "inst"))    # array sorts first
print("array named `xarr`:", r1)
print("array named `arr` :", r2)
if r1[0] != r2[0]:
    print("VIOLATION (C04): the same sequence of connection operations, ending in the same complete mapping, is built or")
    print("  rejected depending only on instance names.")
    sys.exit(1)
sys.exit(0)
