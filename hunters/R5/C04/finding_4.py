"""C04 finding 4: connect-by-assignment to a port called `name` is silently swallowed (and `of` / `conns` corrupt the instance).

`Instance.__setattr__` stores the attributes listed in `_specialcases` ("name", "of", "conns", ...) as plain Python
attributes, whatever is assigned. For a port with such a name, connect-by-call and `connect()` make a connection,
whereas connect-by-assignment does not: the LAST connection made is not the one that gets built.
(The analogous case of `inst._en = sig` was repaired by raising; this one was missed.)
"""
import os, sys; sys.path.insert(0, os.getcwd())
import hdl21 as h

bad = []

# (a) an external module (e.g. a foundry cell) with a pin called `name`
E = h.ExternalModule(name="E", port_list=[h.Port(name="name"), h.Port(name="a")], desc="cell with a `name` pin")
m = h.Module(name="Top")
m.s1, m.s2 = h.Signals(2)
i = E()(name=m.s1, a=m.s1)  # connect-by-call: port `name` tied to s1
i.name = m.s2               # connect-by-assignment: the last connection made to port `name`
m.i = i
pkg = h.to_proto(m)
got = {c.portname: c.target.sig for c in pkg.modules[0].instances[0].connections}
print("(a) built:", got)
if got.get("name") != "s2":
    bad.append(f"(a) port `name` was last connected to s2, built as {got.get('name')!r}; no error was raised")

# (b) a module port called `of` / `conns`
for pname in ["of", "conns"]:
    X = h.Module(name="X_" + pname)
    X.add(h.Port(name=pname))
    t = h.Module(name="T_" + pname)
    t.s1, t.s2 = h.Signals(2)
    j = X(**{pname: t.s1})
    try:
        setattr(j, pname, t.s2)
        t.j = j
        pkg = h.to_proto(t)
        top = [x for x in pkg.modules if x.name.endswith(t.name)][0]
        got = {c.portname: c.target.sig for c in top.instances[0].connections}
        if got != {pname: "s2"}:
            bad.append(f"(b) port `{pname}`: built {got}")
    except Exception as e:
        msg = (str(e).splitlines() or [""])[-1]
        bad.append(f"(b) port `{pname}`: assignment accepted, then {type(e).__name__}: {msg!r}")

if bad:
    print("VIOLATION (C04: 'the elaborated design contains exactly the final port-to-connection mapping'):")
    for b in bad:
        print("  ", b)
    sys.exit(1)
sys.exit(0)
