"""C04 finding 2: a REPLACED slice / concatenation of a misspelt bundle-member reference still breaks elaboration.

Same history as finding 1, for `BundleRef`s: `i2.a = b1.zz[0]` then `i2.a = s3`. The flattener's `is_unused` test
treats any reference that was ever sliced or concatenated as used.
"""
import os, sys; sys.path.insert(0, os.getcwd())
import hdl21 as h


@h.bundle
class B:
    x, y = h.Signals(2)


def build(kind):
    @h.module
    class Inner:
        a, b = h.Ports(2)
        w = h.Port(width=2)

    m = h.Module(name="Top_" + kind)
    m.s1, m.s2, m.s3 = h.Signals(3)
    m.w1 = h.Signal(width=2)
    m.b1 = B()
    m.i2 = Inner(a=m.s1, b=m.b1.y, w=m.w1)
    if kind == "plain":  # the repaired case
        m.i2.a = m.b1.zz
    elif kind == "slice":
        m.i2.a = m.b1.zz[0]
    elif kind == "concat":
        m.i2.w = h.Concat(m.b1.zz, m.s2)
        m.i2.w = m.w1
    m.i2.a = m.s3
    return m


def conns(m):
    pkg = h.to_proto(m)
    top = [x for x in pkg.modules if x.name.endswith(m.name)][0]
    return {i.name: {c.portname: c.target.sig for c in i.connections} for i in top.instances}


bad = []
for kind in ["plain", "slice", "concat"]:
    try:
        got = conns(build(kind))
        want = {"i2": {"a": "s3", "b": "b1_y", "w": "w1"}}
        if got != want:
            bad.append(f"{kind}: wrong connectivity {got}")
        else:
            print(f"{kind}: ok")
    except Exception as e:
        bad.append(f"{kind}: final mapping is complete and valid, but elaboration raised {type(e).__name__}: {str(e).splitlines()[-1]}")
if bad:
    print("VIOLATION (C04: replaced connections leave no trace):")
    for b in bad:
        print("  ", b)
    sys.exit(1)
sys.exit(0)
