"""C04 finding 9 (minor): `n * inst` on an Instance that has handed out a port reference dies with AttributeError('_portrefs').

The intended, descriptive refusal formats its message from a non-existent attribute (`inst._portrefs`; the data lives in
`inst._refs.portrefs`), so the designer gets "'Instance' object has no attribute '_portrefs'" instead.
Merely looking at a port (`print(i.a)`, `hasattr(i, "a")`) before multiplying is enough.
"""
import os, sys; sys.path.insert(0, os.getcwd())
import hdl21 as h


@h.module
class Inner:
    a, b = h.Ports(2)


m = h.Module(name="Top")
m.s1, m.s2 = h.Signals(2)
i = Inner(a=m.s1, b=m.s2)
hasattr(i, "a")  # a probe
try:
    m.arr = 3 * i
    h.to_proto(m)
    print("accepted")
    sys.exit(0)
except RuntimeError as e:
    print("descriptive refusal:", e)
    sys.exit(0)
except AttributeError as e:
    print("VIOLATION (C04, minor): array creation after a port was looked at raises a bare AttributeError:", e)
    sys.exit(1)
