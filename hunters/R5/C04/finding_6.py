"""C04 finding 6: a port called `n` of an InstanceArray cannot be referenced: `arr.n` is the array size.

`InstanceArray` keeps its size in the plain attribute `n`, so `arr.n` never reaches `__getattr__` and returns an
int instead of a PortRef - while `arr.n = sig` and `arr(n=sig)` DO connect port `n`. Every two-terminal primitive
(R, C, L, V, I, D, ...) has ports `p` and `n`, so for arrays of those a port reference - one of the connectable kinds the
property quantifies over - can not be the replacing object, and the error does not say why.
"""
import os, sys; sys.path.insert(0, os.getcwd())
import hdl21 as h

m = h.Module(name="Top")
m.vss, m.x = h.Signals(2)
m.mid = h.Signal(width=2)
m.r = 2 * h.R(r=1000)(p=m.mid, n=m.vss)
m.c = 2 * h.C(c=1e-12)(p=m.x, n=m.x)

bad = []
ok_p = m.r.p  # works: a PortRef
try:
    m.c.p = m.r.p   # fine
    m.c.n = m.r.n   # reconnect port `n` of the capacitors to "whatever the resistors' `n` is tied to"
except Exception as e:
    bad.append(f"m.c.n = m.r.n  raised {type(e).__name__}: ...{str(e)[-60:]!r}   (m.r.n is {m.r.n!r}, m.r.p is a {type(ok_p).__name__})")

if not bad:
    pkg = h.to_proto(m)
    top = pkg.modules[0]
    got = {i.name: {c.portname: (c.target.sig or str(c.target.slice).replace("\n", " ")) for c in i.connections} for i in top.instances}
    print(got)
    if got["c_0"]["n"] != "vss" or got["c_1"]["n"] != "vss":
        bad.append(f"wrong connectivity {got}")
if bad:
    print("VIOLATION (C04: a port reference as the replacing object on an array must be accepted):")
    for b in bad:
        print("  ", b)
    sys.exit(1)
sys.exit(0)
