"""C04 finding 1: a REPLACED slice / concatenation of a reference to a non-existent port still breaks elaboration.

`i2.a = i1.qq[0]` (typo) followed by `i2.a = s3` leaves a complete, valid final mapping. The repair for plain
stale references (`i1.qq`) exempts references which were ever sliced or concatenated, although the slice / concat
itself is no longer connected to anything.
"""
import os, sys; sys.path.insert(0, os.getcwd())
import hdl21 as h


def build(kind):
    @h.module
    class Inner:
        a, b = h.Ports(2)
        w = h.Port(width=2)

    m = h.Module(name="Top_" + kind)
    m.s1, m.s2, m.s3 = h.Signals(3)
    m.w1, m.w2 = h.Signals(2, width=2)
    m.i1 = Inner(a=m.s1, b=m.s2, w=m.w1)
    if kind == "plain":  # the repaired case, for reference
        m.i2 = Inner(a=m.i1.qq, b=m.s2, w=m.w1)
        m.i2.a = m.s3
    elif kind == "slice":
        m.i2 = Inner(a=m.i1.qq[0], b=m.s2, w=m.w1)
        m.i2.a = m.s3  # replaced: nothing refers to `i1.qq[0]` any more
    elif kind == "concat":
        m.i2 = Inner(a=m.s3, b=m.s2, w=h.Concat(m.i1.qq, m.s1))
        m.i2.replace("w", m.w1)
    elif kind == "disconnect":
        m.i2 = Inner(a=m.i1.qq[0], b=m.s2, w=m.w1)
        m.i2.disconnect("a")
        m.i2.connect("a", m.s3)
    return m


def conns(m):
    pkg = h.to_proto(m)
    top = [x for x in pkg.modules if x.name.endswith(m.name)][0]
    return {i.name: {c.portname: c.target.sig for c in i.connections} for i in top.instances}


bad = []
for kind in ["plain", "slice", "concat", "disconnect"]:
    try:
        got = conns(build(kind))
        want = {"i1": {"a": "s1", "b": "s2", "w": "w1"}, "i2": {"a": "s3", "b": "s2", "w": "w1"}}
        if got != want:
            bad.append(f"{kind}: wrong connectivity {got}")
        else:
            print(f"{kind}: ok")
    except Exception as e:
        bad.append(f"{kind}: final mapping is complete and valid, but elaboration raised {type(e).__name__}: {str(e).splitlines()[-1]}")

if bad:
    print("VIOLATION (C04: 'Anything that was connected and later replaced or disconnected leaves no electrical trace'):")
    for b in bad:
        print("  ", b)
    sys.exit(1)
sys.exit(0)
