"""C04 finding 5: a copied Instance shares its connection table (and its references) with the original.

`copy.copy(inst)` yields a second Instance whose `conns` dict and `_refs` are the SAME objects as the original's.
A connection made to the copy is thereby also made to the original: the original's last connection is not what
gets built. (Signals and BundleInstances define `__copy__`; the analogous sharing for BundleInstance copies was repaired.)
"""
import os, sys; sys.path.insert(0, os.getcwd())
import copy
import hdl21 as h


@h.module
class Inner:
    a, b = h.Ports(2)


m = h.Module(name="Top")
m.s1, m.s2, m.s3 = h.Signals(3)
m.i1 = Inner(a=m.s1, b=m.s2)  # the last (and only) connections made to i1: a=s1, b=s2
m.i2 = copy.copy(m.i1)        # a second instance, wired like the first ...
m.i2.a = m.s3                 # ... except for port `a`

pkg = h.to_proto(m)
top = [x for x in pkg.modules if x.name.endswith("Top")][0]
got = {i.name: {c.portname: c.target.sig for c in i.connections} for i in top.instances}
print(got)
want = {"i1": {"a": "s1", "b": "s2"}, "i2": {"a": "s3", "b": "s2"}}
if got != want:
    print("VIOLATION (C04): i1.a was last connected to s1, but is built as", got["i1"]["a"], "- wanted", want)
    sys.exit(1)
sys.exit(0)
