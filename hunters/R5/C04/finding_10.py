"""C04 finding 10 (minor): `NoConn` is declared `@concatable`, but any `Concat` holding one dies with AttributeError.

`h.Concat(sig, h.NoConn())` - "tie the low bit, leave the high bit open" - raises
"'NoConn' object has no attribute '_concats'" at construction, rather than being accepted or refused with a reason.
"""
import os, sys; sys.path.insert(0, os.getcwd())
import hdl21 as h
from hdl21.concatable import is_concatable


@h.module
class Inner:
    w = h.Port(width=2)


m = h.Module(name="Top")
m.s1 = h.Signal()
m.w1 = h.Signal(width=2)
m.i = Inner(w=m.w1)
print("is_concatable(NoConn()):", bool(is_concatable(h.NoConn())))
try:
    m.i.w = h.Concat(m.s1, h.NoConn())
except AttributeError as e:
    print("VIOLATION (C04, minor): reconnecting a port to a concatenation with a no-connect raises a bare AttributeError:", e)
    sys.exit(1)
except (TypeError, RuntimeError) as e:
    print("descriptive refusal:", e)
    sys.exit(0)
try:
    pkg = h.to_proto(m)
    print(pkg.modules[-1].instances[0])
except Exception as e:
    print("elaboration:", type(e).__name__, str(e).splitlines()[-1])
sys.exit(0)
