"""C04 finding 3: a connection that was made and then replaced decides whether (and how) another port gets built.

`i2.a = i1.a` followed by `i2.a = s2` leaves `i1.a` exactly as unconnected as if the first statement had never been
written. Without the replaced statement elaboration reports "Missing connection to Port `a`" on `i1`; with it, the
stale reference makes elaboration invent a net `i1_a`, tie `i1.a` to it, and accept the design.
The same happens when the reference was merely looked at (`_ = m.i1.a`).
"""
import os, sys; sys.path.insert(0, os.getcwd())
import hdl21 as h


def build(history):
    @h.module
    class Inner:
        a, b = h.Ports(2)

    m = h.Module(name="Top_" + history)
    m.s1, m.s2 = h.Signals(2)
    m.i1 = Inner(b=m.s1)  # `a` is not connected, in any of the histories
    if history == "never":
        m.i2 = Inner(a=m.s2, b=m.s2)
    elif history == "replaced":
        m.i2 = Inner(a=m.i1.a, b=m.s2)
        m.i2.a = m.s2
    elif history == "disconnected":
        m.i2 = Inner(a=m.i1.a, b=m.s2)
        m.i2.disconnect("a")
        m.i2.connect("a", m.s2)
    elif history == "looked_at":
        m.i2 = Inner(a=m.s2, b=m.s2)
        _ = m.i1.a
    return m


def outcome(m):
    try:
        pkg = h.to_proto(m)
    except RuntimeError as e:
        return ("rejected", str(e).splitlines()[-1])
    top = [x for x in pkg.modules if x.name.endswith(m.name)][0]
    return (
        "accepted",
        sorted(s.name for s in top.signals),
        {i.name: {c.portname: c.target.sig for c in i.connections} for i in top.instances},
    )


ref = outcome(build("never"))
print("never connected :", ref)
bad = []
for hist in ["replaced", "disconnected", "looked_at"]:
    got = outcome(build(hist))
    print(f"{hist:16s}:", got)
    if got[0] != ref[0]:
        bad.append(hist)
if bad:
    print("VIOLATION (C04): the final port-to-connection mapping is the same in all histories (i1.a unconnected, i2.a=s2),")
    print("  yet the replaced / disconnected connection leaves an electrical trace: a new net `i1_a` tied to i1.a, and the")
    print("  missing connection goes unreported. Histories that differ from 'never connected':", bad)
    sys.exit(1)
sys.exit(0)
