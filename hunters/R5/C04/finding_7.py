"""C04 finding 7: a reference cycle that passes through a Slice or Concat dies with a bare RecursionError.

Cycles of plain port references (`i1.w = i2.w; i2.w = i1.w`, even `i1.w = i1.w`) are supported: elaboration creates one
net for the group. The same cycle written through a full-width slice or a concatenation - which denotes the same nets -
makes the Slice its own parent / the Concat one of its own parts, and elaboration overflows the stack.
"""
import os, sys; sys.path.insert(0, os.getcwd())
import hdl21 as h


def build(kind):
    @h.module
    class Inner:
        a, b = h.Ports(2)
        w = h.Port(width=2)

    m = h.Module(name="Top_" + kind)
    m.s1, m.s2 = h.Signals(2)
    m.i1 = Inner(a=m.s1, b=m.s2)
    m.i2 = Inner(a=m.s1, b=m.s2)
    if kind == "plain":
        m.i1.w = m.i2.w
        m.i2.w = m.i1.w
    elif kind == "slice":
        m.i1.w = m.i2.w
        m.i2.w = m.i1.w[0:2]
    elif kind == "concat":
        m.i1.w = m.i2.w
        m.i2.w = h.Concat(m.i1.w[0], m.i1.w[1])
    elif kind == "self_slice":
        m.i1.w = m.i1.w[:]
        m.i2.w = m.i1.w
    return m


def nets(m):
    pkg = h.to_proto(m)
    top = [x for x in pkg.modules if x.name.endswith(m.name)][0]
    conns = {i.name: {c.portname: c.target.sig for c in i.connections} for i in top.instances}
    return conns, sorted(s.name for s in top.signals)


bad = []
for kind in ["plain", "slice", "concat", "self_slice"]:
    try:
        print(kind, nets(build(kind)))
    except RecursionError as e:
        bad.append(f"{kind}: RecursionError ({e})")
    except Exception as e:
        print(kind, "rejected with", type(e).__name__, str(e).splitlines()[-1])
if bad:
    print("VIOLATION (C04): every port is connected, the plain cycle is accepted, but:")
    for b in bad:
        print("  ", b)
    sys.exit(1)
sys.exit(0)
