"""C10 finding 1: a leaf object that is a member of two bundle definitions is flattened under the OTHER
definition's member name (flattening names leaves by `sig.name`, which the second definition overwrote)."""
import os, sys; sys.path.insert(0, os.getcwd())
import hdl21 as h

def port_names(m):
    pkg = h.to_proto(m)
    mod = [x for x in pkg.modules if x.name.split(".")[-1] == m.name][0]
    return [p.signal for p in mod.ports]

bad = []

# (a) a Signal re-used as a member of two bundle definitions, as one would share a port declaration
clk = h.Input(width=2)

@h.bundle
class Cpu:
    clk_in = clk
    data = h.Output()

@h.bundle
class Mem:
    ck = clk          # same object, second definition: renames the object to "ck"
    q = h.Output()

M = h.Module(name="M")
M.c = Cpu(port=True)
names = sorted(port_names(M))
print("Cpu members:", list(Cpu.signals.keys()), "-> flattened ports of M.c:", names)
if names != ["c_clk_in", "c_data"]:
    bad.append(f"(a) ports of bundle port `c` of Cpu(members clk_in, data) are {names}, expected ['c_clk_in', 'c_data']")

# (b) the same for a sub-bundle instance shared by two definitions
@h.bundle
class Leaf:
    p = h.Input()

shared = Leaf()
E1 = h.Bundle(name="E1"); E1.first = shared
E2 = h.Bundle(name="E2"); E2.second = shared
N = h.Module(name="N")
N.e = E1(port=True)
names = sorted(port_names(N))
print("E1 members:", list(E1.bundles.keys()), "-> flattened ports of N.e:", names)
if names != ["e_first_p"]:
    bad.append(f"(b) ports of bundle port `e` of E1(member first.p) are {names}, expected ['e_first_p']")

# (c) consequence: a connection by member name to that port is refused
P = h.Module(name="P")
P.s = h.Signal(width=2); P.t = h.Signal()
P.i = M(c=h.bundlize(clk_in=P.s, data=P.t))
try:
    h.to_proto(P)
    print("(c) anonymous bundle by member names accepted")
except Exception as e:
    msg = str(e).splitlines()[-1]
    print("(c) connection by the definition's member names refused:", msg)
    bad.append("(c) bundlize(clk_in=..., data=...) to a Cpu port is refused: " + msg)

# (d) with two shared leaves under swapped names, the wrong member is wired up, silently
req = h.Input()      # "x" of A
ack = h.Output()     # "y" of A
A = h.Bundle(name="A"); A.x = req; A.y = ack
B = h.Bundle(name="B"); B.y = req; B.x = ack     # another definition naming the same objects the other way round
Q = h.Module(name="Q")
Q.a = A(port=True)
R = h.Module(name="R")
R.sx = h.Signal(); R.sy = h.Signal()
R.q = Q(a=h.bundlize(x=R.sx, y=R.sy))
pkg = h.to_proto(R)
qmod = [x for x in pkg.modules if x.name.split(".")[-1] == "Q"][0]
rmod = [x for x in pkg.modules if x.name.split(".")[-1] == "R"][0]
dirs = {p.signal: p.direction for p in qmod.ports}   # 0 = INPUT, 1 = OUTPUT
conns = {c.portname: c.target.sig for c in rmod.instances[0].connections}
print("(d) A.x is an Input, A.y an Output; ports of Q:", dirs, "connections of R.q:", conns)
inputs = [n for n, d in dirs.items() if d == 0]
# whatever the input port of Q is called, it is member x, and must be tied to R.sx
if len(inputs) != 1 or conns[inputs[0]] != "sx" or inputs[0] != "a_x":
    bad.append(f"(d) member x (the only Input) of port `a` is exported as `{inputs}` and tied to `{[conns[i] for i in inputs]}`; bundlize(x=sx, y=sy) must tie it to `sx` as `a_x`")

if bad:
    print("VIOLATION of 'named by joining the instance name and the member path with underscores':")
    for b in bad: print("  -", b)
    sys.exit(1)
print("ok")
