"""C10 finding 4: the role of a bundle port does not reach the role-directed leaves of its sub-bundles
(they are looked up against the role of the sub-bundle *instance inside the definition*, None by default), and the
`src` / `dest` which a sub-bundle instance accepts are ignored. Role-directed leaves below the first level are
therefore undirected whatever the role of the port - or, if the definition fixes `role=` on the sub-instance,
directed the same way for both ends of the link."""
import os, sys; sys.path.insert(0, os.getcwd())
from enum import Enum, auto
import hdl21 as h

DIRS = {0: "INPUT", 1: "OUTPUT", 2: "INOUT", 3: "NONE"}
def port_dirs(m):
    pkg = h.to_proto(m)
    mod = [x for x in pkg.modules if x.name.split(".")[-1] == m.name][0]
    return {p.signal: DIRS[p.direction] for p in mod.ports}

@h.roleset
class HostDevice(Enum):
    HOST = auto()
    DEVICE = auto()

@h.bundle
class Lane:
    roles = HostDevice          # one role set shared by the bundles of the link, as in the readme's Jtag / Spi
    d = h.Signal(src=roles.HOST, dest=roles.DEVICE)

@h.bundle
class Link:
    roles = HostDevice
    ctl = h.Signal(src=roles.HOST, dest=roles.DEVICE)
    lane = Lane()                                             # (a) nested role-directed leaf
    dp = h.Diff(src=roles.HOST, dest=roles.DEVICE)            # (b) sub-bundle carrying src / dest itself (hdl21's own test_bundle4 declares these)

bad = []
for role, out, inp in ((HostDevice.HOST, "OUTPUT", "INPUT"), (HostDevice.DEVICE, "INPUT", "OUTPUT")):
    m = h.Module(name="M_" + role.name)
    m.l = Link(port=True, role=role)
    got = port_dirs(m)
    print(role.name, got)
    if got["l_ctl"] != out:
        bad.append(f"role {role.name}: first-level leaf l_ctl is {got['l_ctl']}, expected {out}")
    if got["l_lane_d"] != out:
        bad.append(f"(a) role {role.name}: nested leaf l_lane_d (src=HOST, dest=DEVICE) is {got['l_lane_d']}, expected {out}")
    if got["l_dp_p"] != out or got["l_dp_n"] != out:
        bad.append(f"(b) role {role.name}: leaves of `dp = Diff(src=HOST, dest=DEVICE)` are {got['l_dp_p']}/{got['l_dp_n']}, expected {out}")

if bad:
    print("VIOLATION of 'a role-carrying leaf becomes an output if the instance's role is its source, an input if it is its destination':")
    for b in bad: print("  -", b)
    sys.exit(1)
print("ok")
