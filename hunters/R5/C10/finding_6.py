"""C10 finding 6: connecting a bundle port to an instance of another, structurally identical bundle definition is
accepted when the definitions are flat, but fails with an internal error as soon as they contain a sub-bundle."""
import os, sys; sys.path.insert(0, os.getcwd())
import hdl21 as h

@h.bundle
class Diff:
    p = h.Input()
    n = h.Output()

# flat: two definitions with the same members
@h.bundle
class DiffToo:
    p = h.Input()
    n = h.Output()

@h.module
class C1:
    d = Diff(port=True)

T1 = h.Module(name="T1")
T1.d = DiffToo()
T1.i = C1(d=T1.d)
pkg = h.to_proto(T1)
t1 = [x for x in pkg.modules if x.name.split(".")[-1] == "T1"][0]
print("flat:", {c.portname: c.target.sig for c in t1.instances[0].connections})

# nested: two definitions with the same members, one of which is a sub-bundle (even of the same definition)
@h.bundle
class L1:
    d = Diff()
@h.bundle
class L2:
    d = Diff()
@h.module
class C2:
    l = L1(port=True)
T2 = h.Module(name="T2")
T2.l = L2()
T2.i = C2(l=T2.l)
try:
    pkg = h.to_proto(T2)
    t2 = [x for x in pkg.modules if x.name.split(".")[-1] == "T2"][0]
    got = {c.portname: c.target.sig for c in t2.instances[0].connections}
    print("nested:", got)
    assert got == {"l_d_p": "l_d_p", "l_d_n": "l_d_n"}, got
except RuntimeError as e:
    msg = str(e).splitlines()[-1]
    print("nested: RuntimeError:", msg)
    print("VIOLATION of 'both sides of every bundle connection agree on which flattened port carries which member':")
    print("  - structurally identical bundles connect at depth 1 but at depth 2 elaboration fails with:", msg)
    sys.exit(1)
print("ok")
