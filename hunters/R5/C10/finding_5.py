"""C10 finding 5: BundleInstance(role=...) is declared as `Union[Role, Enum, None]` and takes anything; an Enum member
(of the very Enum the role set was made from) or any other non-Role value is accepted and silently matches no role:
every role-directed leaf of the port becomes undirected."""
import os, sys; sys.path.insert(0, os.getcwd())
from enum import Enum, auto
import hdl21 as h

DIRS = {0: "INPUT", 1: "OUTPUT", 2: "INOUT", 3: "NONE"}
def port_dirs(m):
    pkg = h.to_proto(m)
    mod = [x for x in pkg.modules if x.name.split(".")[-1] == m.name][0]
    return {p.signal: DIRS[p.direction] for p in mod.ports}

class HostDevice(Enum):
    HOST = auto()
    DEVICE = auto()
RS = h.RoleSet.from_enum(HostDevice)

@h.bundle
class Link:
    roles = RS
    tx = h.Signal(src=RS.HOST, dest=RS.DEVICE)
    rx = h.Signal(src=RS.DEVICE, dest=RS.HOST)

bad = []
for role in (HostDevice.HOST, "HOST", 7):
    m = h.Module(name="M")
    try:
        m.l = Link(port=True, role=role)
        got = port_dirs(m)
    except Exception as e:
        print(repr(role), "refused:", type(e).__name__)
        continue
    print(repr(role), "->", got)
    if got != {"l_tx": "OUTPUT", "l_rx": "INPUT"}:
        bad.append(f"role={role!r} accepted, leaves are {got} (neither the HOST directions nor an error)")
if bad:
    print("VIOLATION of 'a role-carrying leaf becomes an output if the instance's role is its source ...' (ill-formed role accepted, silently undirected):")
    for b in bad: print("  -", b)
    sys.exit(1)
print("ok")
