"""C10 finding 3: when the joined name of a leaf is already in use, the leaf is silently given another name
(trailing underscores): which of two leaves keeps the documented name depends on declaration order, and a leaf is
renamed even when its joined name only equals the name of a (dissolved) bundle instance or array, i.e. when no two
exported names collide at all."""
import os, sys; sys.path.insert(0, os.getcwd())
import hdl21 as h

DIRS = {0: "INPUT", 1: "OUTPUT", 2: "INOUT", 3: "NONE"}
def ports(m):
    pkg = h.to_proto(m)
    mod = [x for x in pkg.modules if x.name.split(".")[-1] == m.name][0]
    w = {s.name: s.width for s in mod.signals}
    return {p.signal: (DIRS[p.direction], w[p.signal]) for p in mod.ports}

bad = []

# (a) no collision among the flattened names, yet `a.b` does not become `a_b`
@h.bundle
class Y:
    b = h.Input()
@h.bundle
class Z:
    c = h.Output()
m = h.Module(name="Ma")
m.a = Y(port=True)        # documented port name: a_b
m.a_b = Z(port=True)      # documented port name: a_b_c
got = ports(m)
print("(a)", got)
if set(got) != {"a_b", "a_b_c"}:
    bad.append(f"(a) bundle ports a(b) and a_b(c) flatten to {sorted(got)}, expected ['a_b', 'a_b_c']")

# (b) two leaves of ONE bundle port with the same joined name: accepted, one renamed
@h.bundle
class In:
    b = h.Input()
@h.bundle
class Out:
    a_b = h.Output(width=2)
    a = In()
m = h.Module(name="Mb")
m.o = Out(port=True)
try:
    got = ports(m)
    print("(b)", got)
    bad.append(f"(b) leaves o.a_b and o.a.b both join to `o_a_b`; accepted silently as {got}")
except RuntimeError as e:
    print("(b) refused:", str(e).splitlines()[-1])

# (c) which leaf gets the documented name depends on the order of declaration
@h.bundle
class P:
    b_c = h.Input()
@h.bundle
class Q:
    c = h.Output()
res = []
for order in (0, 1):
    m = h.Module(name=f"Mc{order}")
    if order == 0:
        m.a = P(port=True); m.a_b = Q(port=True)
    else:
        m.a_b = Q(port=True); m.a = P(port=True)
    try:
        res.append(ports(m))
    except RuntimeError as e:
        res.append("refused")
print("(c)", res)
if res[0] != res[1] or res[0] != "refused":
    bad.append(f"(c) same two bundle ports, two declaration orders: {res[0]} vs {res[1]}")

# (d) a scalar port of the designer's already has the joined name
@h.bundle
class X:
    x = h.Input()
m = h.Module(name="Md")
m.b = X(port=True)
m.b_x = h.Output(width=4)
try:
    got = ports(m)
    print("(d)", got)
    bad.append(f"(d) port b_x and bundle leaf b.x: accepted silently as {got}")
except RuntimeError as e:
    print("(d) refused:", str(e).splitlines()[-1])

if bad:
    print("VIOLATION of 'named by joining the instance name and the member path with underscores':")
    for b in bad: print("  -", b)
    sys.exit(1)
print("ok")
