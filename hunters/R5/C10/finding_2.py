"""C10 finding 2: roles made by h.Roles(n) / n * h.Role() are still all equal (name None) whenever they are not
assigned as attributes in an @h.bundle class body: procedural bundle definitions, roles declared outside the class
body, or roles handed over as a ready-made RoleSet. Every role-directed leaf then becomes an OUTPUT for every role.
(The repair be2aa52 names the roles only in the @h.bundle decorator's walk over the class dict.)"""
import os, sys; sys.path.insert(0, os.getcwd())
import hdl21 as h

DIRS = {0: "INPUT", 1: "OUTPUT", 2: "INOUT", 3: "NONE"}
def port_dirs(m):
    pkg = h.to_proto(m)
    mod = [x for x in pkg.modules if x.name.split(".")[-1] == m.name][0]
    return {p.signal: DIRS[p.direction] for p in mod.ports}

bad = []

# (a) procedural definition ("Like Modules, Bundles can be defined either procedurally or as a class", readme)
HOST, DEV = h.Roles(2)
Link = h.Bundle(name="Link")
Link.roles = h.RoleSet.from_dict(dict(HOST=HOST, DEV=DEV))
Link.tx = h.Signal(src=HOST, dest=DEV)
Link.rx = h.Signal(src=DEV, dest=HOST)
for rolename, want in (("HOST", {"l_tx": "OUTPUT", "l_rx": "INPUT"}), ("DEV", {"l_tx": "INPUT", "l_rx": "OUTPUT"})):
    m = h.Module(name="M_" + rolename)
    m.l = Link(port=True, role=Link.roles[rolename])
    got = port_dirs(m)
    print("(a) procedural, role", rolename, "->", got)
    if got != want:
        bad.append(f"(a) procedural bundle, role {rolename}: {got}, expected {want}")

# (b) class body, roles declared just outside it
H2, D2 = 2 * h.Role()
@h.bundle
class Link2:
    tx = h.Signal(src=H2, dest=D2)
    rx = h.Signal(src=D2, dest=H2)
m = h.Module(name="M2")
m.l = Link2(port=True, role=D2)
got = port_dirs(m)
print("(b) roles from outside the class body, role D2 ->", got)
if got != {"l_tx": "INPUT", "l_rx": "OUTPUT"}:
    bad.append(f"(b) roles declared outside the class body, role D2: {got}, expected tx INPUT / rx OUTPUT")

# (c) class body, ready-made RoleSet
H3, D3 = h.Roles(2)
RS = h.RoleSet.from_dict(dict(H=H3, D=D3))
@h.bundle
class Link3:
    roles = RS
    tx = h.Signal(src=RS.H, dest=RS.D)
    rx = h.Signal(src=RS.D, dest=RS.H)
m = h.Module(name="M3")
m.l = Link3(port=True, role=Link3.roles.D)
got = port_dirs(m)
print("(c) `roles = RoleSet.from_dict(...)`, role D ->", got)
if got != {"l_tx": "INPUT", "l_rx": "OUTPUT"}:
    bad.append(f"(c) RoleSet of h.Roles(2), role D: {got}, expected tx INPUT / rx OUTPUT")

if bad:
    print("VIOLATION of 'a role-carrying leaf becomes an output if the instance's role is its source, an input if it is its destination':")
    for b in bad: print("  -", b)
    sys.exit(1)
print("ok")
