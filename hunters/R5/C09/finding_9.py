"""C09 finding 9: a param-class field called `arg` or `callee` cannot be given to the generator by keyword:
the keyword is swallowed by `Generator.__call__(self, arg=Default, **kwargs)` / `param_call(callee=..., arg=...)`.
The call by param-class instance works, the (supposedly equal) call by keywords fails with an error that
does not name the cause.  The property demands that both forms return the identical Module.
Run with cwd = the worktree root. Exit 1 when the violation is observed."""
import os, sys; sys.path.insert(0, os.getcwd())
import hdl21 as h

bad = False
for fname in ("arg", "callee"):
    P = h.paramclass(type("P", (), {fname: h.Param(dtype=int, desc="a perfectly legal field name", default=1)}))
    def body(p: P) -> h.Module:
        m = h.Module(); m.a = h.Port(); return m
    body.__name__ = "Gen_" + fname
    G = h.generator(body)
    by_instance = G(P(**{fname: 5}))
    print(f"field `{fname}`: by instance ->", by_instance.name)
    try:
        by_kw = G(**{fname: 5})
        print(f"field `{fname}`: by keyword  ->", by_kw.name, "identical:", by_kw is by_instance)
        if by_kw is not by_instance:
            bad = True
    except BaseException as e:
        bad = True
        print(f"VIOLATION: field `{fname}`: by keyword  -> {type(e).__name__}: {str(e).splitlines()[0][:170]}")
sys.exit(1 if bad else 0)
