"""C09 finding 8: `Prefixed.__eq__` rounds to 20 decimal places (at the smaller prefix), `Prefixed.__hash__` hashes
the exact value.  Parameter sets which compare EQUAL therefore miss the generator cache: the body runs twice
and two Modules (with two names) are returned for equal parameters.  The equality is not even transitive.
Run with cwd = the worktree root. Exit 1 when the violation is observed."""
import os, sys; sys.path.insert(0, os.getcwd())
import hdl21 as h
from hdl21.prefix import UNIT, y, z

@h.paramclass
class P:
    c = h.Param(dtype=h.Prefixed, desc="capacitance")
RUNS = []
@h.generator
def Cap(p: P) -> h.Module:
    RUNS.append(p)
    m = h.Module(); m.p, m.n = h.Ports(2)
    m.add(h.C(c=p.c)(p=m.p, n=m.n), name="c")
    return m

bad = False
for v1, v2 in [
    (h.Prefixed(number="1.0000000000000000000001", prefix=y), 1 * y),
    (h.Prefixed(number="1e-21", prefix=UNIT), 0 * UNIT),
]:
    p1, p2 = P(c=v1), P(c=v2)
    RUNS.clear()
    m1, m2 = Cap(p1), Cap(p2)
    print(f"{v1} == {v2}: {v1 == v2};  params equal: {p1 == p2};  hash equal: {hash(p1) == hash(p2)};"
          f"  same Module: {m1 is m2};  body runs: {len(RUNS)};  names: {m1.name} {m2.name}")
    if p1 == p2 and (m1 is not m2 or len(RUNS) != 1):
        bad = True
        print("  VIOLATION: equal parameters, but two Modules / two runs / two names")
a, b, c = h.Prefixed(number="1e-21", prefix=UNIT), 0 * UNIT, 1 * z
print("non-transitive: a==b", a == b, " a==c", a == c, " b==c", b == c)
sys.exit(1 if bad else 0)
