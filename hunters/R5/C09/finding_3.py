"""C09 finding 3: Generator- and Module-valued parameters compare by identity but are named by a
qualified name that is not unique: `<python module>.<function __name__>` for generators (class / closure
scope ignored), and `null` for every Module that has no name (yet).
Unequal parameters -> distinct Modules -> ONE exported name.
Run with cwd = the worktree root. Exit 1 when the violation is observed."""
import os, sys; sys.path.insert(0, os.getcwd())
import hdl21 as h

# Two unit-cell generators of the same (function) name, in one file, in two namespaces
class Lvt:
    @h.generator
    def Unit(p: h.HasNoParams) -> h.Module:
        m = h.Module(name="LvtUnit"); m.a = h.Port(); return m
class Hvt:
    @h.generator
    def Unit(p: h.HasNoParams) -> h.Module:
        m = h.Module(name="HvtUnit"); m.a, m.b = h.Ports(2); return m

# ... and a factory of generators (closures: even `__qualname__` is the same)
def corner(nports: int) -> h.Generator:
    @h.generator
    def Cell(p: h.HasNoParams) -> h.Module:
        m = h.Module(name=f"Cell{nports}")
        for i in range(nports):
            m.add(h.Port(name=f"p{i}"))
        return m
    return Cell

@h.paramclass
class ArrayParams:
    unit = h.Param(dtype=h.Generator, desc="Unit cell generator")
    n = h.Param(dtype=int, desc="count", default=2)

RUNS = []
@h.generator
def Array(p: ArrayParams) -> h.Module:
    RUNS.append(p)
    m = h.Module()
    u = p.unit()
    for i in range(p.n):
        conns = {name: m.add(h.Signal(name=f"s{i}_{name}")) for name in u.ports}
        m.add(u(**conns), name=f"u{i}")
    return m

bad = False
def check(what, m1, m2):
    global bad
    print(f"{what}: {m1.name!r} / {m2.name!r}  same object: {m1 is m2}")
    if m1 is not m2 and m1.name == m2.name:
        bad = True
        print("  VIOLATION: unequal parameters, distinct Modules, one name")
        try:
            print("  exported:", [m.name for m in h.to_proto([m1, m2]).modules])
        except RuntimeError as e:
            print("  design with both cannot be exported:", str(e).splitlines()[0][:150])

check("class-scoped generators Lvt.Unit / Hvt.Unit as parameter", Array(unit=Lvt.Unit), Array(unit=Hvt.Unit))
check("closure generators corner(1) / corner(3) as parameter", Array(unit=corner(1)), Array(unit=corner(3)))

# Module-valued: modules which have no name (yet) are all encoded as `null`
@h.paramclass
class WrapParams:
    inner = h.Param(dtype=h.Module, desc="module to wrap")
@h.generator
def Wrap(p: WrapParams) -> h.Module:
    m = h.Module()
    conns = {name: m.add(h.Port(name=name)) for name in p.inner.ports}
    m.add(p.inner(**conns), name="inner")
    return m
a = h.Module(); a.x = h.Port()
b = h.Module(); b.x, b.y = h.Ports(2)
wa, wb = Wrap(inner=a), Wrap(inner=b)
a.name, b.name = "A", "B"   # named later, as e.g. a generator does for the module it is about to return
check("two unnamed Modules as parameter", wa, wb)

sys.exit(1 if bad else 0)
