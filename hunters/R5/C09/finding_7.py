"""C09 finding 7: a NaN parameter.  float('nan') != float('nan'), so each call that writes its own NaN is a new,
unequal call: the body runs again and a new Module is returned - under the same name `G(x=nan)`.
(Same for NaN inside tuples, Optional[float], ...)
Run with cwd = the worktree root. Exit 1 when the violation is observed."""
import os, sys; sys.path.insert(0, os.getcwd())
import hdl21 as h

@h.paramclass
class P:
    vref = h.Param(dtype=float, desc="reference; NaN = not connected")
RUNS = []
@h.generator
def Bias(p: P) -> h.Module:
    RUNS.append(p)
    m = h.Module(); m.o = h.Port(); return m

a = Bias(vref=float("nan"))
b = Bias(vref=float("nan"))
print("runs:", len(RUNS), "identical:", a is b, "names:", a.name, b.name)
if a is not b and a.name == b.name:
    print("VIOLATION: the same written call returned two Modules, both named", a.name)
    try:
        h.to_proto([a, b])
    except RuntimeError as e:
        print("a design with both cannot be exported:", str(e).splitlines()[0][:150])
    sys.exit(1)
sys.exit(0)
