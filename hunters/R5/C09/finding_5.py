"""C09 finding 5: the naming JSON drops the TYPE of nested values: a nested param-class is written as the bare
dict of its fields, an Enum member as its bare value, a tuple like a list.  Unequal parameter values of
different type but alike content therefore give distinct Modules under ONE exported name.
Run with cwd = the worktree root. Exit 1 when the violation is observed."""
import os, sys; sys.path.insert(0, os.getcwd())
from enum import Enum
from typing import Union
import hdl21 as h

# (a) nested param-classes: two kinds of load, described by like-named fields
@h.paramclass
class ResLoad:
    val = h.Param(dtype=int, desc="resistance", default=1000)
@h.paramclass
class CapLoad:
    val = h.Param(dtype=int, desc="capacitance", default=1000)

@h.paramclass
class AmpParams:
    load = h.Param(dtype=Union[ResLoad, CapLoad], desc="the load")

@h.generator
def Amp(p: AmpParams) -> h.Module:
    m = h.Module()
    m.o, m.vss = h.Ports(2)
    if isinstance(p.load, ResLoad):
        m.add(h.R(r=p.load.val)(p=m.o, n=m.vss), name="load")
    else:
        m.add(h.C(c=p.load.val)(p=m.o, n=m.vss), name="load")
    return m

# (b) enums: a bias "kind" and a corner name share the value "nom"
class Bias(Enum):
    NOM = "nom"
class Corner(Enum):
    NOM = "nom"
@h.paramclass
class ModeParams:
    mode = h.Param(dtype=Union[Bias, Corner, str], desc="what to build")
@h.generator
def Ref(p: ModeParams) -> h.Module:
    m = h.Module(); m.add(h.Port(name=type(p.mode).__name__)); return m

# (c) one enum, no Union: members whose values are a tuple and a list
class Taps(Enum):
    FIXED = (1, 2)
    TUNED = [1, 2]
@h.paramclass
class TapParams:
    taps = h.Param(dtype=Taps, desc="taps")
@h.generator
def Filt(p: TapParams) -> h.Module:
    m = h.Module(); m.add(h.Port(name=p.taps.name)); return m

bad = False
def check(what, mods):
    global bad
    names = [m.name for m in mods]
    distinct = len({id(m) for m in mods})
    print(what, names, "distinct modules:", distinct)
    if distinct == len(mods) and len(set(names)) < len(names):
        bad = True
        print("  VIOLATION: unequal parameters -> distinct Modules -> one name")
        try:
            print("  exported:", [m.name for m in h.to_proto(list(mods)).modules])
        except RuntimeError as e:
            print("  a design with them cannot be exported:", str(e).splitlines()[0][:140])

check("(a) Amp(load=ResLoad()) / Amp(load=CapLoad()):", [Amp(load=ResLoad()), Amp(load=CapLoad())])
check("(b) Ref(mode=Bias.NOM / Corner.NOM / 'nom'):", [Ref(mode=Bias.NOM), Ref(mode=Corner.NOM), Ref(mode="nom")])
check("(c) Filt(taps=Taps.FIXED / Taps.TUNED):", [Filt(taps=Taps.FIXED), Filt(taps=Taps.TUNED)])
sys.exit(1 if bad else 0)
