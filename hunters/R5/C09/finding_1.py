"""C09 finding 1: -0.0 / 0.0 inside a container-valued parameter (tuple, frozenset) makes the exported
name of ONE generated module depend on which spelling was called first.

Run with cwd = the worktree root. Exit 1 when the violation is observed."""
import os, sys; sys.path.insert(0, os.getcwd())
import subprocess

CHILD = r'''
import os, sys; sys.path.insert(0, os.getcwd())
from typing import Tuple, FrozenSet
import hdl21 as h

@h.paramclass
class P:
    gains = h.Param(dtype=Tuple[float, ...], desc="tuple of floats", default=())
    taps = h.Param(dtype=FrozenSet[float], desc="set of floats", default=frozenset())

RUNS = []
@h.generator
def Fir(p: P) -> h.Module:
    RUNS.append(p)
    m = h.Module()
    m.a = h.Port()
    return m

order = sys.argv[1]
vals = [(0.0, 1.0), (-0.0, 1.0)]
if order == "neg_first":
    vals.reverse()
mods = [Fir(gains=v) for v in vals]
assert mods[0] is mods[1] and len(RUNS) == 1, "not memoised"
# the design always asks for the SAME thing in the end: Fir(gains=(0.0, 1.0))
top = Fir(gains=(0.0, 1.0))
pkg = h.to_proto(top)
print("TUPLE", pkg.modules[-1].name)

RUNS.clear()
svals = [frozenset([0.0]), frozenset([-0.0])]
if order == "neg_first":
    svals.reverse()
mods = [Fir(taps=v) for v in svals]
assert mods[0] is mods[1] and len(RUNS) == 1, "not memoised"
pkg = h.to_proto(Fir(taps=frozenset([0.0])))
print("SET", pkg.modules[-1].name)
'''

def run(order):
    out = subprocess.run([sys.executable, "-c", CHILD, order], capture_output=True, text=True, cwd=os.getcwd())
    if out.returncode != 0:
        print(out.stderr)
        raise SystemExit(2)
    return dict(line.split(" ", 1) for line in out.stdout.strip().splitlines())

a = run("pos_first")
b = run("neg_first")
bad = False
for k in ("TUPLE", "SET"):
    if a[k] != b[k]:
        bad = True
        print(f"VIOLATION ({k}): the one module generated for the equal calls x=0.0 / x=-0.0 is exported as")
        print(f"   {a[k]}   when the 0.0 spelling is called first")
        print(f"   {b[k]}   when the -0.0 spelling is called first")
if bad:
    print("The name depends on call order, not only on generator + parameter values "
          "(the -0.0 canonicalisation of params._positive_zero is applied to direct fields only).")
    sys.exit(1)
print("ok: names independent of call order")
sys.exit(0)
