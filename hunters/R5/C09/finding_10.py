"""C09 finding 10: an ExternalModuleCall-valued parameter is encoded as `<domain>.<name>` + `<params name>` with
nothing in between.  Calls of two different external modules whose name / first field name split one string
differently ("res" + "wl=1"  vs  "resw" + "l=1") are encoded alike: distinct Modules, one exported name.
Run with cwd = the worktree root. Exit 1 when the violation is observed."""
import os, sys; sys.path.insert(0, os.getcwd())
import hdl21 as h

@h.paramclass
class ResParams:
    wl = h.Param(dtype=int, desc="w*l", default=1)
@h.paramclass
class ReswParams:
    l = h.Param(dtype=int, desc="l", default=1)
Res = h.ExternalModule(name="res", port_list=[h.Port(name="a")], paramtype=ResParams, domain="pdk")
Resw = h.ExternalModule(name="resw", port_list=[h.Port(name="a")], paramtype=ReswParams, domain="pdk")

@h.paramclass
class P:
    dev = h.Param(dtype=h.Instantiable, desc="device to wrap")
@h.generator
def Cell(p: P) -> h.Module:
    m = h.Module(); m.a = h.Port(); m.add(p.dev(a=m.a), name="d"); return m

a, b = Cell(dev=Res(wl=1)), Cell(dev=Resw(l=1))
print(a.name, b.name, "identical:", a is b)
if a is not b and a.name == b.name:
    print("VIOLATION: unequal parameters, distinct Modules, one name")
    try:
        print([m.name for m in h.to_proto([a, b]).modules])
    except RuntimeError as e:
        print("a design with both cannot be exported:", str(e).splitlines()[0][:150])
    sys.exit(1)
sys.exit(0)
