"""C09 finding 6: the exported name of a generated Module is qualified by the Python module in which
`h.Module()` happened to be CALLED (first stack frame outside hdl21's own files), not by the generator.
Two different generators of one function name, living in two files, which both build their result
through a shared helper, produce different Modules under ONE exported name.
(Repair 0a455dc qualified generators by their function's module, but only where a Generator is a parameter value.)
Run with cwd = the worktree root. Exit 1 when the violation is observed."""
import os, sys; sys.path.insert(0, os.getcwd())
import tempfile, textwrap, importlib

tmp = tempfile.mkdtemp(prefix="c09_f6_")
files = {
    "c09lib_common.py": """
        import hdl21 as h
        def two_terminal(kind):
            m = h.Module()
            m.p, m.n = h.Ports(2)
            prim = h.R(r=1000) if kind == "res" else h.C(c=1)
            m.add(prim(p=m.p, n=m.n), name="x")
            return m
    """,
    "c09lib_res.py": """
        import hdl21 as h
        from c09lib_common import two_terminal
        @h.paramclass
        class P:
            n = h.Param(dtype=int, desc="n", default=1)
        @h.generator
        def Load(p: P) -> h.Module:
            return two_terminal("res")
    """,
    "c09lib_cap.py": """
        import hdl21 as h
        from c09lib_common import two_terminal
        @h.paramclass
        class P:
            n = h.Param(dtype=int, desc="n", default=1)
        @h.generator
        def Load(p: P) -> h.Module:
            return two_terminal("cap")
    """,
}
for name, src in files.items():
    with open(os.path.join(tmp, name), "w") as f:
        f.write(textwrap.dedent(src))
sys.path.insert(1, tmp)
import hdl21 as h
import c09lib_res, c09lib_cap

r, c = c09lib_res.Load(n=1), c09lib_cap.Load(n=1)
assert r is not c
bad = False
pr = h.to_proto(r).modules[-1].name
pc = h.to_proto(c).modules[-1].name
print("c09lib_res.Load(n=1) exported as", pr)
print("c09lib_cap.Load(n=1) exported as", pc)
if pr == pc:
    bad = True
    print("VIOLATION: two different generated modules under one export name")
    top = h.Module(name="Top")
    top.a, top.b = h.Signals(2)
    top.add(r(p=top.a, n=top.b), name="r"); top.add(c(p=top.a, n=top.b), name="c")
    try:
        print("exported:", [m.name for m in h.to_proto(top).modules])
    except RuntimeError as e:
        print("a design with both cannot be exported:", str(e).splitlines()[0][:150])
sys.exit(1 if bad else 0)
