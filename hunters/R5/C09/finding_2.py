"""C09 finding 2: Decimal-valued parameters are named through a lossy float / int conversion.
 (a) unequal Decimals which round to one float -> two distinct Modules under ONE exported name (export fails)
 (b) equal Decimals written 1 / 1.0 -> one Module whose name depends on which spelling came first
Run with cwd = the worktree root. Exit 1 when the violation is observed."""
import os, sys; sys.path.insert(0, os.getcwd())
import subprocess
from decimal import Decimal
import hdl21 as h

@h.paramclass
class P:
    r = h.Param(dtype=Decimal, desc="exact decimal value")

RUNS = []
@h.generator
def Res(p: P) -> h.Module:
    RUNS.append(p.r)
    m = h.Module()
    m.p, m.n = h.Ports(2)
    m.add(h.R(r=p.r)(p=m.p, n=m.n), name="r")
    return m

bad = False

# (a) two different values -- they differ in the 21st significant digit, which `Decimal` exists to keep
v1, v2 = Decimal("0.30000000000000000001"), Decimal("0.30000000000000000002")
m1, m2 = Res(r=v1), Res(r=v2)
assert v1 != v2 and m1 is not m2 and len(RUNS) == 2
print("values:", v1, v2, "-> module names:", m1.name, m2.name)
if m1.name == m2.name:
    bad = True
    print("VIOLATION (a): calls with unequal parameters returned distinct Modules with the SAME name")
    top = h.Module(name="Top")
    top.a, top.b = h.Signals(2)
    top.add(m1(p=top.a, n=top.b), name="i1")
    top.add(m2(p=top.a, n=top.b), name="i2")
    try:
        pkg = h.to_proto(top)
        names = [m.name for m in pkg.modules]
        print("   exported:", names)
    except RuntimeError as e:
        print("   and a design holding both cannot be exported:", str(e).splitlines()[0])

# (b) order dependence, observed in two fresh processes
CHILD = r'''
import os, sys; sys.path.insert(0, os.getcwd())
from decimal import Decimal
import hdl21 as h
@h.paramclass
class P:
    r = h.Param(dtype=Decimal, desc="exact decimal value")
@h.generator
def Res(p: P) -> h.Module:
    m = h.Module(); m.p = h.Port(); return m
vals = [Decimal("1"), Decimal("1.0")]
if sys.argv[1] == "rev": vals.reverse()
mods = [Res(r=v) for v in vals]
assert mods[0] is mods[1]
print(h.to_proto(Res(r=Decimal("1"))).modules[-1].name)
'''
outs = []
for order in ("fwd", "rev"):
    o = subprocess.run([sys.executable, "-c", CHILD, order], capture_output=True, text=True, cwd=os.getcwd())
    if o.returncode:
        print(o.stderr); sys.exit(2)
    outs.append(o.stdout.strip())
print("Res(r=Decimal('1')) exported as", outs[0], "(after 1, 1.0) /", outs[1], "(after 1.0, 1)")
if outs[0] != outs[1]:
    bad = True
    print("VIOLATION (b): name of the one module for Decimal('1') == Decimal('1.0') depends on call order")

sys.exit(1 if bad else 0)
