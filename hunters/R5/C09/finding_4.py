"""C09 finding 4: Signal-valued parameters (as taken by the built-in `Series` generator: `conns` is a pair of
"ports (or names)") are compared / hashed by identity, but named by the JSON of their fields.
Two calls giving distinct-but-alike Signal objects are unequal calls: the body runs twice, two Modules come back,
and both carry ONE name.
Run with cwd = the worktree root. Exit 1 when the violation is observed."""
import os, sys; sys.path.insert(0, os.getcwd())
import copy
import hdl21 as h
from hdl21.generators import Series

@h.module
class Unit:
    a, b, ctl = h.Ports(3)

s1 = Series(unit=Unit, conns=(Unit.a, Unit.b), nser=3)
# the same request, written with copies of the ports (e.g. those of a wrapper, or `h.Port(name="a")`)
s2 = Series(unit=Unit, conns=(copy.copy(Unit.a), copy.copy(Unit.b)), nser=3)
s3 = Series(unit=Unit, conns=(h.Port(name="a"), h.Port(name="b")), nser=3)
print(s1.name, s2.name, s3.name, "| identical:", s1 is s2, s1 is s3)

bad = False
if (s1 is not s2 and s1.name == s2.name) or (s1 is not s3 and s1.name == s3.name):
    bad = True
    print("VIOLATION: distinct Modules (the calls were not recognised as equal) with one name")
    try:
        print("exported:", [m.name for m in h.to_proto([s1, s3]).modules])
    except RuntimeError as e:
        print("a design with both cannot be exported:", str(e).splitlines()[0][:160])
sys.exit(1 if bad else 0)
