"""
C05 finding 1: on an InstanceArray, a connection made BY NAME to a port that does not exist in the child -
but whose name equals the name the bundle flattener invents for a member of the child's bundle port -
is silently captured by the invented port.  The same connection on a plain Instance is rejected.

Run with cwd = the repository root.
"""
import os, sys; sys.path.insert(0, os.getcwd())
import hdl21 as h


def build(kind: str):
    @h.bundle
    class B:
        x, y = h.Signals(2)

    @h.module
    class Inner:
        a = B(port=True)  # the ONLY port of Inner is the bundle `a`. It has no port `a_x` or `a_y`.

    Top = h.Module(name=f"Top_{kind}")
    Top.s = h.Signal()
    Top.t = h.Signal()
    if kind == "array":
        Top.u = 2 * Inner(a_x=Top.s, a_y=Top.t)  # ports `a_x`, `a_y` do not exist; `a` is left unconnected
    else:
        Top.u = Inner(a_x=Top.s, a_y=Top.t)
    return Top, Inner


def outcome(kind):
    Top, Inner = build(kind)
    try:
        pkg = h.to_proto(Top)
    except RuntimeError as e:
        return "rejected", str(e).strip().splitlines()[-1]
    top = [m for m in pkg.modules if m.name.endswith(Top.name)][0]
    conns = {i.name: {c.portname: c.target.sig for c in i.connections} for i in top.instances}
    return "accepted", conns


scalar = outcome("scalar")
array = outcome("array")
print("plain Instance :", scalar)
print("InstanceArray  :", array)

bad = False
if array[0] == "accepted":
    bad = True
    print(
        "\nVIOLATION (C05): the designer connected `a_x` / `a_y`, which are not ports of `Inner` (its only port is the\n"
        "bundle `a`, left unconnected). The names the flattener invented for a.x / a.y coincide with the designer's\n"
        "connection names and capture them: the array elements are exported with a_x=s, a_y=t, i.e. the bundle port `a`\n"
        "is now driven by connections that were never made to it. The property demands a fresh name or an error;\n"
        f"the same connections on a plain Instance are indeed an error: {scalar}"
    )
sys.exit(1 if bad else 0)
