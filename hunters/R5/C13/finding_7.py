"""C13 finding 7: parameters named `arg`, `callee` or `self` cannot be given to an ExternalModule by keyword:
the names collide with the internal signatures `ExternalModule.__call__(self, arg=Default, **kwargs)` and
`param_call(callee=..., arg=..., **kwargs)`. `X(arg={...})` is even silently re-interpreted as the whole parameter set."""
import os, sys; sys.path.insert(0, os.getcwd())
import hdl21 as h

X = h.ExternalModule(name="X", port_list=[h.Port(name="p")], paramtype=dict)


@h.paramclass
class P:
    arg = h.Param(dtype=int, desc="a parameter called arg", default=0)
    callee = h.Param(dtype=int, desc="a parameter called callee", default=0)


XP = h.ExternalModule(name="XP", port_list=[h.Port(name="p")], paramtype=P)


def exported(call):
    m = h.Module(name="M")
    m.a = h.Signal()
    m.x = call(p=m.a)
    return {p.name: p.value.int64_value for p in h.to_proto(m).modules[0].instances[0].parameters}


# Reference: the same names work when given as a dict / parameter-class instance
assert exported(X({"arg": 5, "callee": 6})) == {"arg": 5, "callee": 6}
assert exported(XP(P(arg=5, callee=6))) == {"arg": 5, "callee": 6}

bad = 0
for desc, mk, want in [
    ("X(arg=5)", lambda: X(arg=5), {"arg": 5}),
    ("X(callee=6)", lambda: X(callee=6), {"callee": 6}),
    ("XP(arg=5)", lambda: XP(arg=5), {"arg": 5, "callee": 0}),
    ("XP(callee=6)", lambda: XP(callee=6), {"arg": 0, "callee": 6}),
]:
    try:
        got = exported(mk())
        if got != want:
            bad += 1
            print(f"FAIL {desc}: exported {got}, wanted {want}")
        else:
            print(f"ok   {desc}")
    except Exception as e:
        bad += 1
        print(f"FAIL {desc}: {type(e).__name__}: {str(e)[:140]}")
# Silent re-interpretation
got = exported(X(arg={"zz": 1}))
print("X(arg={'zz': 1}) exports", got)
if "arg" not in got:
    bad += 1
    print("FAIL: the parameter named `arg` vanished; its VALUE was taken as the parameter set")
if bad:
    print("VIOLATION: parameters with these names do not reach the package under their name when given by keyword")
    sys.exit(1)
sys.exit(0)
