"""C13 finding 1: the typed constructors Nmos / Pmos / Npn / Pnp silently overwrite a contradicting `tp`
when the parameters are handed over as a (positional) parameter-class instance.
(The repair of `Nmos(tp=PMOS)` only inspects keyword arguments.)"""
import os, sys; sys.path.insert(0, os.getcwd())
import hdl21 as h
from hdl21.primitives import Nmos, Pmos, Npn, Pnp, MosParams, BipolarParams, MosType, BipolarType


def exported_tp(call, conns):
    m = h.Module(name="M")
    m.a = h.Signal()
    m.i = call(**{p: m.a for p in conns})
    inst = h.to_proto(m).modules[0].instances[0]
    return {p.name: p.value.literal for p in inst.parameters}["tp"]


cases = [
    ("Nmos(MosParams(tp=PMOS))", lambda: Nmos(MosParams(tp=MosType.PMOS)), "dgsb", "PMOS"),
    ("Npn(BipolarParams(tp=PNP))", lambda: Npn(BipolarParams(tp=BipolarType.PNP)), "cbe", "PNP"),
    # (Pmos(MosParams(tp=NMOS)) / Pnp(BipolarParams(tp=NPN)) are overwritten too, but NMOS / NPN are the defaults of
    #  the parameter classes, so an explicit value cannot be told from "not given" there. Not counted.)
]
bad = 0
for desc, mk, conns, given in cases:
    try:
        got = exported_tp(mk(), conns)
    except Exception as e:  # A loud refusal (as for the keyword form) is fine
        print(f"ok   {desc}: refused ({type(e).__name__})")
        continue
    if got != given:
        bad += 1
        print(f"FAIL {desc}: parameter tp={given} was given, the exported instance carries tp={got}")
    else:
        print(f"ok   {desc}: exported tp={got}")
if bad:
    print("VIOLATION: a parameter value given to a primitive is exported with a different value, silently.")
    sys.exit(1)
sys.exit(0)
