"""C13 finding 6: the size checks of `BipolarParams` (and of the sample PDK's `SamplePdkMosParams`) compare with the
ROUNDED `Prefixed` comparison operators (`w <= 0` rounds to 20 decimal places at the smaller prefix):
 - a positive size whose mantissa is below 5e-21 is rejected as "invalid width" (i.e. as not positive);
 - a size with a very large exponent dies with a bare, message-less `MemoryError` (quantize to 1E-20),
while `Mos`, `Diode`, `R`, ... accept and export the very same values."""
import os, sys; sys.path.insert(0, os.getcwd())
from decimal import Decimal
import hdl21 as h
from hdl21.primitives import Npn, Diode
from hdl21.pdk import sample_pdk


def exported_w(call):
    m = h.Module(name="M")
    m.a = h.Signal()
    m.x = call(**{p: m.a for p in call.ports})
    v = {p.name: p.value for p in h.to_proto(m).modules[0].instances[0].parameters}["w"].prefixed
    return Decimal(v.string_value) if v.WhichOneof("number") == "string_value" else Decimal(v.int64_value)


bad = 0
for text in ["1E-21", "4.9E-21"]:
    w = Decimal(text)
    assert w > 0
    ref = exported_w(Diode(w=w))  # Same parameter (`w: Optional[Scalar]`) on another primitive: fine
    assert ref == w
    for name, mk in [("Npn", lambda: Npn(w=w)), ("sample_pdk.Nmos", lambda: sample_pdk.Nmos(w=w))]:
        try:
            got = exported_w(mk())
            print(f"ok   {name}(w={text}) exports {got}")
        except BaseException as e:
            bad += 1
            first = (str(e).strip().splitlines() or ["<no message>"])[-2:]
            print(f"FAIL {name}(w={text}): {type(e).__name__}: {' / '.join(first)[:160]}")
# The huge-exponent case is run in a child process with a 4 GB address-space limit: without one, it eats all memory.
import subprocess, textwrap
child = textwrap.dedent("""
    import os, sys, resource; sys.path.insert(0, os.getcwd())
    resource.setrlimit(resource.RLIMIT_AS, (4 * 2**30, 4 * 2**30))
    from decimal import Decimal
    import hdl21 as h
    w = Decimal("1E+99999999999")
    h.primitives.Diode(w=w); h.primitives.Mos(w=w)  # fine
    try:
        h.primitives.Npn(w=w)
        print("accepted")
    except BaseException as e:
        print("CRASH", type(e).__name__, repr(str(e)[:80]))
""")
out = subprocess.run([sys.executable, "-c", child], capture_output=True, text=True, cwd=os.getcwd()).stdout.strip()
print("Npn(w=1E+99999999999) [Diode, Mos accept it]:", out)
if out.startswith("CRASH MemoryError"):
    bad += 1
    print("FAIL: a bare MemoryError (from rounding the number to 20 decimal places for the `w <= 0` check)")
if bad:
    print("VIOLATION: positive sizes that Diode/Mos export unchanged are refused as non-positive (or crash) for Bipolar and the sample PDK")
    sys.exit(1)
sys.exit(0)
