"""C13 finding 3: `Prefixed` values are mutable (a non-frozen pydantic model, though hashable) and are kept by reference,
so an in-place edit of a number after it was given to one instance changes that instance's exported value.
This also reaches class-level state: the default value of a parameter class is ONE shared Prefixed object."""
import os, sys; sys.path.insert(0, os.getcwd())
from decimal import Decimal
import hdl21 as h
from hdl21.prefix import µ
from hdl21.pdk import sample_pdk

bad = 0
# (a) a value handed to two calls
w = 1 * µ
m = h.Module(name="M")
m.a = h.Signal()
m.r1 = h.R(r=w)(p=m.a, n=m.a)  # given 1 µ
w.number = Decimal(2)  # accepted silently
m.r2 = h.R(r=w)(p=m.a, n=m.a)  # given 2 µ
vals = {i.name: i.parameters[0].value.prefixed.int64_value for i in h.to_proto(m).modules[0].instances}
print("(a)", vals)
if vals != {"r1": 1, "r2": 2}:
    bad += 1
    print("FAIL (a): r1 was given r=1µ but exports r=%dµ" % vals["r1"])

# (b) class-level state: the default of a PDK parameter class
p1 = sample_pdk.Nmos()  # all defaults: w = 1 µ
p1.params.w.number = Decimal(7)  # edits the shared default object
m2 = h.Module(name="M2")
m2.a = h.Signal()
m2.x = sample_pdk.Nmos()(d=m2.a, g=m2.a, s=m2.a, b=m2.a)  # a fresh, unrelated call with default parameters
got = {p.name: p.value for p in h.to_proto(m2).modules[0].instances[0].parameters}["w"].prefixed
print("(b) default w exported as", got.int64_value or got.string_value, "µ")
if got.int64_value != 1:
    bad += 1
    print("FAIL (b): an unrelated later call exports w=%s instead of the documented default 1µ" % got.int64_value)
if bad:
    print("VIOLATION: exported values differ from those given at call time / leak between calls")
    sys.exit(1)
sys.exit(0)
