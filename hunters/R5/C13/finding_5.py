"""C13 finding 5: a plain `int` parameter in the upper half of the unsigned 64-bit range (2**63 .. 2**64-1) crashes the
export with protobuf's bare `ValueError: Value out of range: ...`, which names neither the parameter nor the instance.
The same integer exports fine (as a decimal string) when it travels as a `Scalar` / `Prefixed`."""
import os, sys; sys.path.insert(0, os.getcwd())
import hdl21 as h

X = h.ExternalModule(name="X", port_list=[h.Port(name="p")], paramtype=dict)


def export(call):
    m = h.Module(name="M")
    m.a = h.Signal()
    m.x = call(**{p: m.a for p in call.ports})
    return h.to_proto(m).modules[0].instances[0].parameters[0].value


v = 2**64 - 1
ref = export(h.R(r=v))
print("as a Scalar:", str(ref).replace("\n", " "))
try:
    got = export(X(dict(seed=v)))
    print("as a plain int:", str(got).replace("\n", " "))
    sys.exit(0)
except Exception as e:
    msg = str(e)
    print(f"as a plain int: {type(e).__name__}: {msg}")
    if "seed" not in msg:
        print("VIOLATION: a 64-bit integer parameter is not exported; the error does not say which parameter / instance")
        sys.exit(1)
sys.exit(0)
