"""C13 finding 2: `h.ExternalModuleCall(module=X, params=d)` keeps the caller's dict by reference.
(The repair "dict-valued call parameters are copied" is in `param_call`, i.e. only reached through `X(d)`.)"""
import os, sys; sys.path.insert(0, os.getcwd())
import hdl21 as h

X = h.ExternalModule(name="X", port_list=[h.Port(name="p")], paramtype=dict)
m = h.Module(name="M")
m.a = h.Signal()
d = {"w": 1}
m.i1 = h.ExternalModuleCall(module=X, params=d)(p=m.a)  # given w=1
d["w"] = 2
m.i2 = h.ExternalModuleCall(module=X, params=d)(p=m.a)  # given w=2
insts = {i.name: {p.name: p.value.int64_value for p in i.parameters} for i in h.to_proto(m).modules[0].instances}
print(insts)
if insts["i1"] != {"w": 1} or insts["i2"] != {"w": 2}:
    print("VIOLATION: instance i1 was given w=1, but exports w=%r (the caller's later edit of its dict leaked in)" % insts["i1"].get("w"))
    sys.exit(1)
sys.exit(0)
