"""C13 finding 8: through a (cached) generator, a parameter value reaches the package with the TYPE / DIGITS / PREFIX of
an earlier, merely `==`-equal value: the generator cache is keyed by Python equality, and `1 == 1.0 == True ==
Prefixed(1) == Decimal(1)`, `1000*n == 1*µ`. Given directly to the external module / primitive, each of these exports
differently (int64 / double / prefixed / literal; mantissa+prefix as written)."""
import os, sys; sys.path.insert(0, os.getcwd())
from decimal import Decimal
import hdl21 as h
from hdl21.prefix import n, µ, UNIT
from hdl21.generators import MosStack

X = h.ExternalModule(name="X", port_list=[h.Port(name="p")], paramtype=dict)


@h.paramclass
class Q:
    a = h.Param(dtype=object, desc="passed on to X")


@h.generator
def G(p: Q) -> h.Module:
    m = h.Module()
    m.s = h.Signal()
    m.x = X(a=p.a)(p=m.s)
    return m


def direct(v):
    m = h.Module(name="D")
    m.s = h.Signal()
    m.x = X(a=v)(p=m.s)
    return h.to_proto(m).modules[0].instances[0].parameters[0].value


def via_generator(v):
    return h.to_proto(G(a=v)).modules[0].instances[0].parameters[0].value


bad = 0
for v in [1, 1.0, 1 * UNIT, Decimal(1)]:
    want, got = direct(v), via_generator(v)
    ok = want == got
    print(("ok  " if ok else "FAIL"), repr(v), "direct:", str(want).replace("\n", " "), "| via generator:", str(got).replace("\n", " "))
    bad += not ok

# Same with a built-in generator and a primitive
for w in [1 * µ, 1000 * n]:
    unit = h.Mos(w=w)
    pkg = h.to_proto(MosStack(unit=unit, nser=2))
    got = {p.name: p.value for p in pkg.modules[0].instances[0].parameters}["w"].prefixed
    m = h.Module(name="D2"); m.s = h.Signal(); m.x = unit(d=m.s, g=m.s, s=m.s, b=m.s)
    want = {p.name: p.value for p in h.to_proto(m).modules[0].instances[0].parameters}["w"].prefixed
    ok = want == got
    print(("ok  " if ok else "FAIL"), f"MosStack(unit=Mos(w={w}))", "direct:", str(want).replace("\n", " "), "| via generator:", str(got).replace("\n", " "))
    bad += not ok
if bad:
    print("VIOLATION: type / decimal digits / prefix of the given value are replaced by those of an earlier equal value")
    sys.exit(1)
sys.exit(0)
