"""C13 finding 4: values given to `float` / `int` typed parameters of an external module's parameter class are silently
converted (pydantic "lax" coercion): a 64-bit integer given to a `float` parameter loses its low digits, a Decimal
given to a `float` parameter loses its digits, and a string / bool / Decimal given to an `int` parameter changes type."""
import os, sys; sys.path.insert(0, os.getcwd())
from decimal import Decimal
import hdl21 as h


@h.paramclass
class P:
    f = h.Param(dtype=float, desc="a float", default=0.0)
    i = h.Param(dtype=int, desc="an int", default=0)


X = h.ExternalModule(name="X", port_list=[h.Port(name="p")], paramtype=P)


def exported(**kw):
    m = h.Module(name="M")
    m.a = h.Signal()
    m.x = X(**kw)(p=m.a)
    return {p.name: p.value for p in h.to_proto(m).modules[0].instances[0].parameters}


bad = 0
big = 2**53 + 1  # 9007199254740993, well inside 64 bits
try:
    v = exported(f=big)["f"]
    got = Decimal(v.double_value) if v.WhichOneof("value") == "double_value" else Decimal(v.int64_value)
    print(f"f={big} -> exported {v.WhichOneof('value')} = {got}")
    if got != big:
        bad += 1
        print(f"FAIL: integer {big} was given, {got} is exported (silently)")
except Exception as e:
    print("refused (fine):", type(e).__name__)
try:
    d = Decimal("0.1000000000000000000001")
    v = exported(f=d)["f"]
    print(f"f={d!r} -> exported {v.WhichOneof('value')} = {v.double_value!r}")
    if Decimal(repr(v.double_value)) != d:
        bad += 1
        print(f"FAIL: {d} was given, {v.double_value!r} is exported (silently)")
except Exception as e:
    print("refused (fine):", type(e).__name__)
try:
    v = exported(i="7")["i"]
    print(f"i='7' (a string) -> exported {v.WhichOneof('value')}")
    if v.WhichOneof("value") != "literal":
        bad += 1
        print("FAIL: the string '7' was given, the integer 7 is exported (strings are to be preserved as literals)")
except Exception as e:
    print("refused (fine):", type(e).__name__)
if bad:
    print("VIOLATION: parameter values given to an external module are exported with other values/types, silently")
    sys.exit(1)
sys.exit(0)
