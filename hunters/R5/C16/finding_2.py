"""C16 finding 2: flatten() re-sorts signals into ports / internal signals by their `vis` field, while the module
(and its export) go by the `ports` / `signals` containers; the flat module's ports then differ from m's.

History: a signal's `vis` is edited after it was added to the module (Signal is a mutable dataclass; nothing
refuses the edit, and neither elaboration nor export look at `vis` again). The exported hierarchical module keeps
the port list the module holds. `flatten` copies each port / signal and `Module.add`s the copy, which files it by
`vis`: an internal signal with vis=PORT becomes a new port of the flat module, and a port with vis=INTERNAL
stops being a port.  "has m's ports unchanged" is violated, silently.
"""
import os, sys

sys.path.insert(0, os.getcwd())
import hdl21 as h
from hdl21.flatten import flatten
from hdl21.visibility import Visibility


def build():
    sub = h.Module(name="Sub")
    sub.a, sub.b = h.Ports(2)
    sub.r = h.Res(r=1)(p=sub.a, n=sub.b)

    top = h.Module(name="Top")
    top.p = h.Port()
    top.q = h.Port()
    top.s = h.Signal()
    top.i1 = sub(a=top.p, b=top.s)
    top.i2 = sub(a=top.s, b=top.q)
    # Edits after the signals were added
    top.s.vis = Visibility.PORT
    top.q.vis = Visibility.INTERNAL
    return top


def ports_of(pkg, suffix):
    (mod,) = [m for m in pkg.modules if m.name.split(".")[-1] == suffix]
    return [p.signal for p in mod.ports]


def main() -> int:
    top = build()
    try:
        hier_ports = ports_of(h.to_proto(top, domain="d"), "Top")
    except Exception as e:
        print(f"OK: the edited module is rejected: {type(e).__name__}: {e}")
        return 0
    assert list(top.ports) == hier_ports == ["p", "q"], hier_ports
    try:
        flat = flatten(top)
    except Exception as e:
        print(f"OK: flatten rejected the design: {type(e).__name__}: {e}")
        return 0
    flat_ports = ports_of(h.to_proto(flat, domain="d"), "Top_flat")
    print("ports of m (module and exported package):", hier_ports)
    print("ports of flatten(m)                     :", flat_ports)
    if flat_ports != hier_ports:
        print("VIOLATION: flatten(m) does not have m's ports: "
              f"gained {sorted(set(flat_ports) - set(hier_ports))}, lost {sorted(set(hier_ports) - set(flat_ports))}")
        return 1
    return 0


if __name__ == "__main__":
    sys.exit(main())
