"""C16 finding 1: flatten() silently drops `Module.literals` (top-level and nested) instead of keeping / rejecting them.

`Module.literals` is documented netlist content of a module (readme "Each Module includes a list of Literal contents,
designed to be included directly in exported netlists"), exported in the VLSIR `Module.literals` field.
A literal inside a sub-module refers to that sub-module's local net names (e.g. `.ic v(x)=1`, or a literal device
line `Rshort a x 0`), so such a design cannot be flattened faithfully; the property demands an exception then.
flatten() neither raises nor carries anything over: not even the top module's own literals, whose net names are
unchanged in the flat module.
"""
import os, sys

sys.path.insert(0, os.getcwd())
import hdl21 as h
from hdl21.flatten import flatten


def build():
    sub = h.Module(name="Sub")
    sub.a, sub.b = h.Ports(2)
    sub.x = h.Signal()
    sub.r1 = h.Res(r=1)(p=sub.a, n=sub.x)
    sub.r2 = h.Res(r=2)(p=sub.x, n=sub.b)
    # A literal device, shorting the internal net `x` to port `b`, and an initial condition on `x`
    sub.literals.append(h.Literal("Rshort x b 0"))
    sub.literals.append(h.Literal(".ic v(x)=1"))

    top = h.Module(name="Top")
    top.p, top.q = h.Ports(2)
    top.s = h.Signal()
    top.i1 = sub(a=top.p, b=top.s)
    top.i2 = sub(a=top.s, b=top.q)
    top.literals.append(h.Literal(".ic v(s)=0.5"))
    return top


def main() -> int:
    top = build()
    hier = h.to_proto(top, domain="d")
    hier_lits = {m.name.split(".")[-1]: list(m.literals) for m in hier.modules}

    try:
        flat = flatten(top)
    except Exception as e:
        print(f"OK: flatten rejected the design with {type(e).__name__}: {e}")
        return 0

    fpkg = h.to_proto(flat, domain="d")
    flat_lits = [l for m in fpkg.modules for l in m.literals]
    print("hierarchical package literals:", hier_lits)
    print("flattened package literals   :", flat_lits)

    n_hier = sum(len(v) for v in hier_lits.values())
    if n_hier and not flat_lits:
        print(
            "VIOLATION: flatten() returned a module without raising, but every literal of the hierarchy "
            f"({n_hier} netlist lines, including a literal device and the top module's own literal) is gone."
        )
        return 1
    if ".ic v(s)=0.5" not in flat_lits:
        print("VIOLATION: the top-level module's literal is missing from the flat module")
        return 1
    return 0


if __name__ == "__main__":
    sys.exit(main())
