"""C19 finding 5 (state shared between modules): since the repair of `Signal.__copy__` (7f4d280) port copies keep
their `props` - but by a SHALLOW copy of the `Properties` object, whose `inner` dict is therefore shared between the
unit's port and every Wrapper / Series copy of it. Wrapper's docstring says its result is meant to be modified after
the fact; annotating the wrapper's port rewrites the unit's port (and every other wrapper's).
Also: the copy's related_pwr / related_gnd / related_clk point at the UNIT's signals, not at the same-named ports of
the module the copy lives in. And bundle-valued port copies (BundleInstance.__copy__) still drop `props` entirely."""
import os, sys; sys.path.insert(0, os.getcwd())
import hdl21 as h
from hdl21.generators import Series, Wrapper

@h.bundle
class B:
    x = h.Signal()

@h.module
class U:
    vdd = h.Power()
    a = h.Input(related_pwr=vdd)
    b = h.Output()
    bb = B(port=True)

U.a.props.set("layer", "met1")
U.bb.props.set("layer", "met2")
w1 = Wrapper(U)
w2 = Series(unit=U, conns=("a", "b"), nser=3)
probs = []
if w1.a.props.get("layer") != "met1" or w2.a.props.get("layer") != "met1":
    probs.append("signal port copies lost their props")
w1.a.props.set("layer", "met5")          # edit the WRAPPER's port only
if U.a.props.get("layer") != "met1":
    probs.append(f"editing Wrapper(U).a.props changed U.a.props: layer={U.a.props.get('layer')!r}")
if w2.a.props.get("layer") != "met1":
    probs.append(f"... and the Series module's port too: layer={w2.a.props.get('layer')!r}")
if w1.a.related_pwr is not w1.vdd:
    probs.append(f"Wrapper(U).a.related_pwr is U.vdd (a signal of another module): {w1.a.related_pwr is U.vdd}")
if w1.bb.props.get("layer") != "met2":
    probs.append(f"bundle port copy dropped its props: {w1.bb.props.get('layer')!r}")
if probs:
    print("VIOLATION (state leaking between the unit and the generated modules):")
    for p in probs: print("  ", p)
    sys.exit(1)
print("ok")
