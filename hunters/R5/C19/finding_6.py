"""C19 finding 6: a series pair "given by Signal" is only ever looked up by the Signal's NAME (generators._seriesconn),
and the Signal itself takes part in naming the generated module.
(a) any Signal that merely shares a name with a unit port is accepted - a free-standing one, a port of another module,
    one of a different width - and silently stands for the unit's port of that name;
(b) a genuine unit port given by Signal makes the call fail with a bare `TypeError: Object of type ... is not JSON
    serializable` when the port carries a property value json cannot encode, while the same pair given by name works."""
import os, sys; sys.path.insert(0, os.getcwd())
import hdl21 as h
from hdl21.generators import Series

@h.module
class U:
    a = h.Port(); b = h.Port(); c = h.Port()

@h.module
class Other:
    a = h.Port(width=7); b = h.Port(width=5)

probs = []
for label, conns in (("free-standing signals", (h.Signal(name="a", width=4), h.Signal(name="b", width=9))),
                     ("ports of another module", (Other.a, Other.b))):
    try:
        g = Series(unit=U, conns=conns, nser=2)
        h.to_proto(g)
        probs.append(f"(a) {label} {[(s.name, s.width) for s in conns]} accepted as series pair of U -> {g.name}")
    except Exception as e:
        print("rejected:", label, type(e).__name__)

class Tag: ...
U.c.props.set("tag", Tag())
try:
    Series(unit=U, conns=("c", "b"), nser=2)       # by name: fine
    Series(unit=U, conns=(U.c, U.b), nser=2)       # by Signal: crash
except TypeError as e:
    probs.append(f"(b) Series(conns=(U.c, U.b)) -> TypeError: {e}")
if probs:
    print("VIOLATION:")
    for p in probs: print("  ", p)
    sys.exit(1)
print("ok")
