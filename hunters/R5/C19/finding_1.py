"""C19 finding 1: a unit cell with a port named `self` cannot be wrapped / series-stacked:
Wrapper and Series crash with an undescriptive TypeError, although such a unit is valid Hdl21
(it elaborates, can be instantiated by hand with `connect`, and netlists)."""
import os, sys; sys.path.insert(0, os.getcwd())
import io
import hdl21 as h
from hdl21.generators import Series, Wrapper

def units():
    m = h.Module(name="HasSelf")
    for nm in ("a", "b", "self"):
        m.add(h.Port(name=nm))
    yield "Module", m
    E = h.ExternalModule(name="ext_self", port_list=[h.Port(name="a"), h.Port(name="b"), h.Port(name="self")])
    yield "ExternalModule", E()

bad = []
for kind, u in units():
    # Baseline: the unit is usable by a hand-written parent.
    t = h.Module(name=f"Hand_{kind}")
    t.x, t.y, t.z = h.Signals(3)
    i = h.Instance(name="i0", of=u)
    i.connect("a", t.x); i.connect("b", t.y); i.connect("self", t.z)
    t.add(i)
    h.netlist(t, io.StringIO(), fmt="spice")  # fine

    for label, fn in (
        ("Wrapper(u)", lambda: Wrapper(u)),
        ("Series(nser=1)", lambda: Series(unit=u, conns=("a", "b"), nser=1)),
        ("Series(nser=3)", lambda: Series(unit=u, conns=("a", "b"), nser=3)),
        ("Series(nser=3, conns=(self,b))", lambda: Series(unit=u, conns=("self", "b"), nser=3)),
    ):
        try:
            g = fn()
            pkg = h.to_proto(g)
        except Exception as e:
            bad.append(f"{kind}: {label} -> {type(e).__name__}: {str(e)[:120]}")

if bad:
    print("VIOLATION: units with a port named `self` are valid unit cells, but the built-in generators crash on them:")
    for b in bad: print("  ", b)
    sys.exit(1)
print("ok")
