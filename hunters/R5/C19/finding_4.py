"""C19 finding 4: the scalar ports which a bundle-valued port is flattened into are named per module, avoiding the
names already used INSIDE that module. A unit with bundle port `bb` (member `x`) and an unrelated internal signal
(or instance) called `bb_x` exports port `bb_x_`; its Wrapper / Series module has no such internal name and exports
port `bb_x`. The exported wrapper therefore does not expose "exactly m's ports ... each wired to the same-named port":
its port bb_x drives the inner instance's port bb_x_. (Connectivity is right; names / the exposed interface differ.)"""
import os, sys; sys.path.insert(0, os.getcwd())
import hdl21 as h
from hdl21.generators import Series, Wrapper

@h.bundle
class B:
    x = h.Signal()
    y = h.Signal()

def unit(name):
    @h.module
    class U:
        a = h.Port()
        b = h.Port()
        bb = B(port=True)
        bb_x = h.Signal()        # internal, unrelated to the bundle
        r = h.R(r=1)(p=a, n=bb_x)
        r2 = h.R(r=1)(p=bb_x, n=b)
    U.name = name
    return U

bad = []
for label, mk in (("Wrapper", lambda u: Wrapper(u)), ("Series nser=1", lambda u: Series(unit=u, conns=("a", "b"), nser=1)),
                  ("Series nser=3", lambda u: Series(unit=u, conns=("a", "b"), nser=3))):
    u = unit("U_" + label.replace(" ", "_").replace("=", ""))
    g = mk(u)
    pkg = h.to_proto(g)
    gm = [m for m in pkg.modules if m.name.endswith("." + g.name)][0]
    um = [m for m in pkg.modules if m.name.endswith("." + u.name)][0]
    gports = [p.signal for p in gm.ports]
    uports = [p.signal for p in um.ports]
    cross = sorted({(c.portname, c.target.sig) for i in gm.instances for c in i.connections
             if c.target.WhichOneof("stype") == "sig" and c.portname not in ("a", "b") and c.portname != c.target.sig})
    print(f"{label}: unit ports {uports}; generated module ports {gports}; differently-named wirings {cross}")
    if sorted(gports) != sorted(uports):
        bad.append(label)
if bad:
    print("VIOLATION: generated module does not expose the unit's (exported) port names:", bad)
    sys.exit(1)
print("ok")
