"""C19 finding 3 (history): the Series result is cached on the identity of the unit Module, which stays editable.
Call Series, edit the unit (here: re-declare a 2-bit bus port as 1 bit, by plain re-assignment), call Series again
with the same arguments: the second call returns the module built for the OLD unit. With nser=2 the stale 2-bit
module port then happens to be exactly nser x (new width) wide, so elaboration silently *splits* it bit-by-bit over
the units instead of wiring it in parallel; the module's port c is 2 bits wide where the unit's is 1."""
import os, sys; sys.path.insert(0, os.getcwd())
import hdl21 as h
from hdl21.generators import Series

@h.module
class U:
    a = h.Port()
    b = h.Port()
    c = h.Port(width=2)

g1 = Series(unit=U, conns=("a", "b"), nser=2)   # first call, e.g. somewhere else in the design
U.c = h.Port(width=1)                             # the designer revises the unit before anything is elaborated
g2 = Series(unit=U, conns=("a", "b"), nser=2)   # second, identical call

pkg = h.to_proto(g2)
mod = [m for m in pkg.modules if m.name.endswith(g2.name)][0]
unit = [m for m in pkg.modules if m.name.endswith(".U")][0]
w_mod = {s.name: s.width for s in mod.signals}
w_unit = {s.name: s.width for s in unit.signals}
probs = []
if w_mod["c"] != w_unit["c"]:
    probs.append(f"module port c is {w_mod['c']} bits wide, unit port c is {w_unit['c']}")
for inst in mod.instances:
    for c in inst.connections:
        if c.portname == "c":
            kind = c.target.WhichOneof("stype")
            desc = c.target.sig if kind == "sig" else f"c[{c.target.slice.top}:{c.target.slice.bot}]" if kind == "slice" else kind
            print(f"  {inst.name}.c -> {desc}")
            if kind != "sig":
                probs.append(f"{inst.name}.c is wired to {desc}, not in parallel to module port c")
if probs:
    print("VIOLATION ('every other unit port is wired in parallel to the same-named module port'):")
    print("  second Series call returned the cached module of the first:", g1 is g2)
    for p in probs: print("  ", p)
    sys.exit(1)
print("ok")
