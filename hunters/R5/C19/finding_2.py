"""C19 finding 2: Series / MosStack with nser == 1 never look at `conns`.
The repair of "Series(conns=('p','p'))" (b736c8e) validates the series pair only on the nser >= 2 path;
`if params.nser == 1: return Wrapper(params.unit)` comes first. So the same ill-formed call is rejected for
nser=2 and silently accepted for nser=1, and MosStack "over drain and source" accepts a unit with no drain/source."""
import os, sys; sys.path.insert(0, os.getcwd())
import hdl21 as h
from hdl21.generators import Series, MosStack

R = h.R(r=1 * h.prefix.K)

@h.module
class U:
    a = h.Port(width=2)
    b = h.Port(width=3)

cases = {
    "one port named twice": lambda n: Series(unit=R, conns=("p", "p"), nser=n),
    "ports the unit does not have": lambda n: Series(unit=R, conns=("nope", "zilch"), nser=n),
    "series ports of different widths": lambda n: Series(unit=U, conns=("a", "b"), nser=n),
    "MosStack of a resistor (no d / s)": lambda n: MosStack(unit=R, nser=n),
}
bad = []
for label, fn in cases.items():
    res = {}
    for n in (2, 1):
        try:
            m = fn(n)
            h.to_proto(m)
            res[n] = "ACCEPTED, exports as " + m.name
        except Exception as e:
            res[n] = f"rejected ({type(e).__name__}: {str(e)[:60]})"
    print(f"{label}:\n   nser=2: {res[2]}\n   nser=1: {res[1]}")
    if res[1].startswith("ACCEPTED") and res[2].startswith("rejected"):
        bad.append(label)
if bad:
    print("VIOLATION: ill-formed series pairs rejected at nser=2 are silently accepted at nser=1:", bad)
    sys.exit(1)
print("ok")
