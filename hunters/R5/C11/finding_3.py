"""C11 finding 3: the exporter writes each Signal / Instance under its own `.name` attribute, not under the key it is
filed under in its Module, and nothing (add-time checks, elaboration, to_proto) notices when the two have drifted apart.
Renaming an object after it was added therefore yields a package with two signals (or two instances) of one name;
from_proto silently merges them (later one wins), so the round trip loses a signal / an instance."""
import os, sys; sys.path.insert(0, os.getcwd())
import hdl21 as h
from hdl21.proto import to_proto, from_proto


def roundtrip(pkg):
    ns = from_proto(pkg)
    cur = ns
    for part in pkg.modules[-1].name.split("."):
        cur = getattr(cur, part)
    return to_proto(cur, domain=pkg.domain)


problems = []

# (a) signals
c = h.Module(name="C"); c.add(h.Port(name="p"))
m = h.Module(name="M")
a = m.add(h.Signal(name="a", width=1))
b = m.add(h.Signal(name="b", width=3))
m.add(h.Instance(name="i", of=c)).connect("p", a)
b.name = "a"  # accepted
pkg = to_proto(m)  # accepted
sigs = [(s.name, s.width) for s in pkg.modules[-1].signals]
try:
    pkg2 = roundtrip(pkg)
    sigs2 = [(s.name, s.width) for s in pkg2.modules[-1].signals]
    if pkg2 != pkg:
        # note which `a` instance `i` is wired to has changed as well: it was the 1-bit one, only the 3-bit one is left
        problems.append(f"signals {sigs} come back as {sigs2}")
except Exception as e:
    problems.append(f"signals {sigs}: round trip raises {type(e).__name__}: {str(e).strip().splitlines()[-1]}")

# (b) instances
c = h.Module(name="C"); c.add(h.Port(name="p"))
m = h.Module(name="M")
a = m.add(h.Signal(name="a")); b = m.add(h.Signal(name="b"))
i1 = m.add(h.Instance(name="i1", of=c)); i1.connect("p", a)
i2 = m.add(h.Instance(name="i2", of=c)); i2.connect("p", b)
i2.name = "i1"  # accepted
pkg = to_proto(m)
insts = [(i.name, i.connections[0].target.sig) for i in pkg.modules[-1].instances]
try:
    pkg2 = roundtrip(pkg)
    insts2 = [(i.name, i.connections[0].target.sig) for i in pkg2.modules[-1].instances]
    if pkg2 != pkg:
        problems.append(f"instances {insts} come back as {insts2}")
except Exception as e:
    problems.append(f"instances {insts}: round trip raises {type(e).__name__}: {str(e).strip().splitlines()[-1]}")

if problems:
    print("C11 VIOLATION: to_proto emits packages with repeated signal / instance names, which from_proto silently merges")
    for p in problems:
        print(" -", p)
    sys.exit(1)
print("ok")
