"""C11 finding 5 (PDK compile; a sibling of the recorded "C06-gf180-test-3T-cap cannot be imported", other direction and
other symptom): the Sky130 / GF180 compilers map the 2-terminal `PhysicalResistor` (and the 3-terminal `Bipolar`, and
`Mos` for the 5-terminal 20V devices) onto external modules with one MORE port than the primitive has. The compiled
design is exported without complaint, with the extra port of every such instance simply missing from its connections.
That package imports, but can never be exported again."""
import os, sys; sys.path.insert(0, os.getcwd())
for p in ("Sky130", "Gf180"):
    sys.path.insert(0, os.path.join(os.getcwd(), "pdks", p))
import hdl21 as h
import hdl21.primitives as P
from hdl21.proto import to_proto, from_proto
import sky130_hdl21, gf180_hdl21
import sky130_hdl21.primitives.prim_dicts as sd, gf180_hdl21.primitives.prim_dicts as gd


def roundtrip(pkg):
    ns = from_proto(pkg)
    cur = ns
    for part in pkg.modules[-1].name.split("."):
        cur = getattr(cur, part)
    return to_proto(cur, domain=pkg.domain)


problems = []
for pdk, tables in ((sky130_hdl21, sd), (gf180_hdl21, gd)):
    for label, prim, model in (
        ("PhysicalResistor", P.PhysicalResistor, [k for k, v in tables.ress.items() if len(v.port_list) == 3][0]),
        ("Bipolar", P.Bipolar, [k for k, v in tables.bjts.items() if len(v.port_list) == 4][0]),
    ):
        model = model if isinstance(model, str) else model[0]
        call = prim(model=model)
        m = h.Module(name="Top")
        z = m.add(h.Signal(name="z"))
        i = m.add(h.Instance(name="i", of=call))
        for p in call.ports:
            i.connect(p, z)
        pdk.compile(m)
        pkg = to_proto(m)  # accepted
        nports = len(pkg.ext_modules[0].ports)
        nconns = len(pkg.modules[0].instances[0].connections)
        try:
            pkg2 = roundtrip(pkg)
            if pkg2 != pkg:
                problems.append(f"{pdk.__name__} {label}(model={model!r}): package differs after round trip")
        except Exception as e:
            problems.append(
                f"{pdk.__name__} {label}(model={model!r}) -> {pkg.ext_modules[0].name.name}: exported with {nconns} connections for {nports} ports; "
                f"round trip raises {type(e).__name__}: {str(e).strip().splitlines()[-1][:120]}"
            )

if problems:
    print("C11 VIOLATION: PDK-compiled packages with under-connected device instances do not survive the round trip")
    for p in problems:
        print(" -", p)
    sys.exit(1)
print("ok")
