"""C11 finding 4 (history): elaboration results are cached per module, but widths, port lists and instance targets stay
editable through plain attributes afterwards. to_proto re-uses the cached elaboration, checks nothing, and emits a
package whose instances no longer fit what they instantiate. Such a package P (produced by to_proto without complaint)
cannot make the round trip: from_proto or the re-export reject it."""
import os, sys; sys.path.insert(0, os.getcwd())
import hdl21 as h
from hdl21.proto import to_proto, from_proto


def roundtrip(pkg):
    ns = from_proto(pkg)
    cur = ns
    for part in pkg.modules[-1].name.split("."):
        cur = getattr(cur, part)
    return to_proto(cur, domain=pkg.domain)


def attempt(label, pkg, problems):
    try:
        pkg2 = roundtrip(pkg)
        if pkg2 != pkg:
            problems.append(f"{label}: package differs after the round trip")
    except Exception as e:
        problems.append(f"{label}: to_proto accepted the design, the round trip raises {type(e).__name__}: {str(e).strip().splitlines()[-1][:150]}")


problems = []

# (a) export once, widen a signal, export again
c = h.Module(name="C"); c.add(h.Port(name="p", width=2))
m = h.Module(name="M"); a = m.add(h.Signal(name="a", width=2))
m.add(h.Instance(name="i", of=c)).connect("p", a)
first = to_proto(m)
attempt("(control) first export", first, problems)  # fine
a.width = 3
attempt("(a) signal widened after the first export", to_proto(m), problems)

# (b) a port appended to an ExternalModule's port_list after the first export
em = h.ExternalModule(name="E", domain="d", port_list=[h.Port(name="p")], paramtype=dict)
m = h.Module(name="M"); a = m.add(h.Signal(name="a"))
m.add(h.Instance(name="i", of=em())).connect("p", a)
to_proto(m)
em.port_list.append(h.Port(name="q"))
attempt("(b) ExternalModule port appended after the first export", to_proto(m), problems)

# (c) an instance re-targeted after the first export (`of` is a plain attribute; connections are protected, `of` is not)
c = h.Module(name="C"); c.add(h.Port(name="p"))
d = h.Module(name="D"); d.add(h.Port(name="q"))
m = h.Module(name="M"); a = m.add(h.Signal(name="a"))
i = m.add(h.Instance(name="i", of=c)); i.connect("p", a)
to_proto(m)
i.of = d
attempt("(c) instance re-targeted after the first export", to_proto(m), problems)

if problems:
    print("C11 VIOLATION: to_proto emits ill-formed packages after post-elaboration edits; they do not survive the round trip")
    for p in problems:
        print(" -", p)
    sys.exit(1)
print("ok")
