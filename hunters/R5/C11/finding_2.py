"""C11 finding 2: Module names are not validated, exported qualified names use "." as the path separator, and
from_proto files modules into nested namespaces by splitting at ".". A module whose (qualified) name is a path prefix
of another one's collides with that namespace: depending on the order of the two in the package, the import either
fails, or SILENTLY drops a module from the returned namespace, so that "the same modules" do not come back."""
import os, sys; sys.path.insert(0, os.getcwd())
from types import SimpleNamespace
import hdl21 as h
from hdl21.proto import to_proto, from_proto


def all_modules(ns):
    out = []
    for v in vars(ns).values():
        if isinstance(v, h.Module):
            out.append(v)
        elif isinstance(v, SimpleNamespace):
            out.extend(all_modules(v))
    return out


def mk():
    amp = h.Module(name="Amp")
    amp.add(h.Port(name="p"))
    core = h.Module(name="Amp.core")  # hierarchical-looking names are accepted everywhere
    core.add(h.Port(name="q"))
    return amp, core


problems = []

# Order 1: "Amp" first, then "Amp.core"
amp, core = mk()
pkg = to_proto([amp, core])
names = [m.name for m in pkg.modules]
try:
    ns = from_proto(pkg)
    back = [m.name for m in to_proto(all_modules(ns)).modules]
    if sorted(back) != sorted(names):
        problems.append(f"package {names}: round trip gives {back}")
except Exception as e:
    problems.append(f"package {names}: from_proto raises {type(e).__name__}: {e}")

# Order 2: "Amp.core" first, then "Amp": no error at all, one module is gone
amp, core = mk()
pkg = to_proto([core, amp])
names = [m.name for m in pkg.modules]
try:
    ns = from_proto(pkg)
    back = [m.name for m in to_proto(all_modules(ns)).modules]
    if sorted(back) != sorted(names):
        problems.append(f"package {names}: from_proto succeeds, but the returned namespace only holds {back} (silent loss)")
except Exception as e:
    problems.append(f"package {names}: from_proto raises {type(e).__name__}: {e}")

# Same mechanism, degenerate names: a trailing "." imports a module named "" which can never be elaborated/exported again
m = h.Module(name="x.")
m.add(h.Port(name="p"))
pkg = to_proto(m)
try:
    ns = from_proto(pkg)
    to_proto(all_modules(ns))
except Exception as e:
    problems.append(f"package {[x.name for x in pkg.modules]}: round trip raises {type(e).__name__}: {str(e).strip().splitlines()[-1]}")

# Same mechanism, without any dotted user name: every namespace from_proto creates carries a `name` attribute, so a
# design defined in a Python module (or sub-package) that happens to be called `name` cannot be imported.
import tempfile, importlib
d = tempfile.mkdtemp()
with open(os.path.join(d, "name.py"), "w") as f:
    f.write("import hdl21 as h\n@h.module\nclass Inv:\n    i = h.Input()\n")
sys.path.insert(0, d)
pymod = importlib.import_module("name")
pkg = to_proto(pymod.Inv)
try:
    ns = from_proto(pkg)
    to_proto(all_modules(ns))
except Exception as e:
    problems.append(f"package {[x.name for x in pkg.modules]}: round trip raises {type(e).__name__}: {str(e).strip().splitlines()[-1]}")

if problems:
    print("C11 VIOLATION: dotted module names collide with the importer's namespace paths")
    for p in problems:
        print(" -", p)
    sys.exit(1)
print("ok")
