"""C11 finding 1: ExternalModules declared in one of the importer's "privileged" domains
(`vlsir.primitives`, `hdl21.primitives`, `hdl21.ideal`) do not survive the round trip.
to_proto exports them like any other ExternalModule (declaration in `ext_modules`, instance refers to
(domain, name)); from_proto never looks at the declaration and re-interprets the instance as a built-in Primitive."""
import os, sys; sys.path.insert(0, os.getcwd())
import hdl21 as h
from hdl21.proto import to_proto, from_proto


def design(domain, name, ports, params):
    em = h.ExternalModule(name=name, domain=domain, port_list=[h.Port(name=p) for p in ports], paramtype=dict)
    m = h.Module(name="Top")
    z = m.add(h.Signal(name="z"))
    i = m.add(h.Instance(name="i", of=em(params)))
    for p in ports:
        i.connect(p, z)
    return m


def roundtrip(pkg):
    ns = from_proto(pkg)
    cur = ns
    for part in pkg.modules[-1].name.split("."):
        cur = getattr(cur, part)
    return to_proto(cur, domain=pkg.domain)


problems = []
cases = [
    # (a) silently turned into the ideal resistor: declaration lost, int parameter becomes a Prefixed
    ("vlsir.primitives", "resistor", ["p", "n"], dict(r=1)),
    # (b) silently turned into h.Mos: declaration lost, parameters tp/vth/family appear from nowhere
    ("hdl21.primitives", "Mos", ["d", "g", "s", "b"], dict(w=1)),
    # (c) silently *renamed*: (hdl21.ideal, R) comes back as (vlsir.primitives, resistor)
    ("hdl21.ideal", "R", ["p", "n"], dict(r=1)),
    # (d) `vlsir.primitives.mos` is a real vlsir primitive (the only way to reach it from Hdl21 is an ExternalModule): import fails
    ("vlsir.primitives", "mos", ["d", "g", "s", "b"], dict(w=1)),
    # (e) any other name in hdl21.primitives: import dies with `AttributeError: external` (the error message itself is broken)
    ("hdl21.primitives", "my_cell", ["a"], dict(w=1)),
]
for dom, name, ports, params in cases:
    pkg = to_proto(design(dom, name, ports, params))  # accepted, a package P is produced
    assert len(pkg.ext_modules) == 1
    try:
        pkg2 = roundtrip(pkg)
    except Exception as e:
        problems.append(f"({dom}, {name}): to_proto produced a package, but the round trip raises {type(e).__name__}: {str(e)[:100]}")
        continue
    if pkg2 != pkg:
        ref = pkg2.modules[-1].instances[0].module.external
        problems.append(
            f"({dom}, {name}): silently different package after the round trip: "
            f"{len(pkg.ext_modules)} -> {len(pkg2.ext_modules)} ext_modules, instance refers to ({ref.domain}, {ref.name}), "
            f"params {[p.name for p in pkg.modules[-1].instances[0].parameters]} -> {[p.name for p in pkg2.modules[-1].instances[0].parameters]}, "
            f"first value kind {pkg.modules[-1].instances[0].parameters[0].value.WhichOneof('value')} -> {pkg2.modules[-1].instances[0].parameters[0].value.WhichOneof('value')}"
        )

if problems:
    print("C11 VIOLATION: external modules in the reserved domains do not survive the round trip")
    for p in problems:
        print(" -", p)
    sys.exit(1)
print("ok")
