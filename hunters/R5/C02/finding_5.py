"""C02 finding 5: a module that is un-named AFTER it was elaborated is exported and netlisted.

Property clause: "an unnamed ... module, then elaborate, to_proto and netlist raise. They never return a package".
`Module.name` is the sanctioned way to (re)name a module and stays writable after elaboration; the only check for
unnamed modules lives in the MarkModules pass, whose per-module result is cached. Setting `name = ""` (which an
un-elaborated module is rejected for) yields a package with a module called "__main__." and a netlist.
Renaming to a *clashing* name after elaboration is caught (the exporter checks clashes itself) - un-naming is not.
"""
import os, sys; sys.path.insert(0, os.getcwd())
import io
import hdl21 as h


def design():
    @h.module
    class Inner:
        a = h.Input(width=2)

    top = h.Module(name="Top")
    top.s = h.Signal(width=2)
    top.i = Inner(a=top.s)
    return Inner, top


# Control: never elaborated, unnamed -> raises
inner, top = design()
inner.name = ""
try:
    h.to_proto(top)
    print("control: unnamed module accepted even without history")
except Exception as e:
    print("control (no history): raised:", str(e).strip().splitlines()[-1][:100])

viol = False
inner, top = design()
h.elaborate(top)
inner.name = ""
try:
    h.elaborate(top)
    print("elaborate returned for the design with an unnamed module")
    viol = True
except Exception as e:
    print("elaborate raised", e)
try:
    pkg = h.to_proto(top)
    print("to_proto returned; module names:", [m.name for m in pkg.modules])
    viol = True
except Exception as e:
    print("to_proto raised", e)
try:
    dest = io.StringIO()
    h.netlist(top, dest, fmt="spice")
    print("netlist returned:", [l for l in dest.getvalue().splitlines() if l.lower().startswith(".subckt")])
    viol = True
except Exception as e:
    print("netlist raised", e)
if viol:
    print("VIOLATION (C02, unnamed module)")
    sys.exit(1)
print("ok")
sys.exit(0)
