"""C02 finding 6: `elaborate` accepts a design with two different modules of one name.

Property clause: "... or an unnamed or name-clashing module, then elaborate, to_proto and netlist raise."
to_proto and netlist raise (the exporter checks names); elaborate does not check names at all, neither for a list of
tops nor for a clash deep in one hierarchy.
"""
import os, sys; sys.path.insert(0, os.getcwd())
import io
import hdl21 as h


def leaf(width):
    m = h.Module(name="Leaf")  # two different modules, both called Leaf
    m.a = h.Input(width=width)
    return m


def design():
    top = h.Module(name="Top")
    top.s = h.Signal(width=2)
    top.t = h.Signal(width=3)
    top.i = leaf(2)(a=top.s)
    top.j = leaf(3)(a=top.t)
    return top


res = {}
for api in ("elaborate", "to_proto", "netlist"):
    top = design()
    try:
        if api == "elaborate":
            h.elaborate(top)
        elif api == "to_proto":
            h.to_proto(top)
        else:
            h.netlist(top, io.StringIO(), fmt="spice")
        res[api] = "returned"
    except Exception as e:
        res[api] = "raised"
print(res)
if res["elaborate"] == "returned":
    print("VIOLATION (C02, name-clashing module): elaborate returns for a hierarchy with two modules named `Leaf`")
    sys.exit(1)
print("ok")
sys.exit(0)
