"""C02 finding 3: merely LOOKING at a port of an instance (hasattr / getattr / a reference that was since
replaced) makes a missing port connection acceptable.

Property clause: "a missing ... port connection ... then elaborate, to_proto and netlist raise".
`Inner.a` is left unconnected. Without the probe all three entry points raise "Missing connection to Port `a`".
With `hasattr(top.i, "a")` - which connects nothing - they return, and the package contains a new floating net
`i_a`. The outcome of elaboration depends on whether somebody has observed the instance.
"""
import os, sys; sys.path.insert(0, os.getcwd())
import io
import hdl21 as h


def design(probe):
    @h.bundle
    class B:
        x = h.Signal(width=2)

    @h.module
    class Inner:
        a = h.Input(width=2)
        b = h.Output()
        bb = B(port=True)

    top = h.Module(name="Top")
    top.s = h.Signal()
    top.t = h.Signal(width=2)
    top.bb = B()
    if probe == "bundle-port hasattr":
        top.i = Inner(a=top.t, b=top.s)  # `bb` is missing
        hasattr(top.i, "bb")
        return top
    top.i = Inner(b=top.s, bb=top.bb)  # `a` is missing
    if probe == "hasattr":
        hasattr(top.i, "a")
    elif probe == "getattr-default":
        getattr(top.i, "a", None)
    elif probe == "replaced-reference":
        top.j = Inner(a=top.i.a, b=top.s, bb=top.bb)
        top.j.a = top.t  # the reference to `i.a` is no longer used anywhere
    return top


def outcome(probe, api):
    top = design(probe)
    try:
        if api == "elaborate":
            h.elaborate(top)
        elif api == "to_proto":
            pkg = h.to_proto(top)
            return "returned, signals=" + str([s.name for s in pkg.modules[-1].signals])
        else:
            h.netlist(top, io.StringIO(), fmt="spice")
    except Exception as e:
        return "raised: " + str(e).strip().splitlines()[-1][:90]
    return "returned"


viol = False
for probe in (None, "hasattr", "getattr-default", "replaced-reference", "bundle-port hasattr"):
    for api in ("elaborate", "to_proto", "netlist"):
        o = outcome(probe, api)
        print(f"probe={probe!s:22} {api:10} -> {o}")
        if probe is None and not o.startswith("raised"):
            print("unexpected: baseline fault accepted")
        if probe is not None and o.startswith("returned"):
            viol = True
if viol:
    print("VIOLATION (C02, missing port connection): an unused reference to the unconnected port - created by a")
    print("hasattr/getattr probe, or left over from a connection that was replaced - hides the missing connection.")
    sys.exit(1)
print("ok")
sys.exit(0)
