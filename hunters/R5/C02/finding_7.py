"""C02 finding 7 (debatable): one NoConn object connected to two ports is accepted, and silently split in two nets.

Property clause: "a no-connect that is also referenced elsewhere".
`nc = h.NoConn(name="float")` is connected to `i.b` and is also referenced by `j.b`. A port reference to a
no-connected port (`j.b = i.b`) is rejected as a multiply-connected NoConn; handing the same NoConn object to the
second port - e.g. via `i.conns["b"]` - is accepted, and yields two nets `float` and `float_` (one of them under a
name the designer never wrote). Whoever reads the source sees `i.b` and `j.b` tied to one object.
"""
import os, sys; sys.path.insert(0, os.getcwd())
import io
import hdl21 as h


def design(how):
    @h.module
    class Inner:
        a = h.Input()
        b = h.Output()

    top = h.Module(name="Top")
    top.s = h.Signal()
    nc = h.NoConn(name="float")
    top.i = Inner(a=top.s, b=nc)
    if how == "portref":
        top.j = Inner(a=top.s, b=top.i.b)
    elif how == "same-object":
        top.j = Inner(a=top.s, b=nc)
    elif how == "via-conns":
        top.j = Inner(a=top.s, b=top.i.conns["b"])
    return top


res = {}
for how in ("portref", "same-object", "via-conns"):
    try:
        pkg = h.to_proto(design(how))
        res[how] = "returned, signals " + str([s.name for s in pkg.modules[-1].signals])
    except Exception as e:
        res[how] = "raised"
    print(how, "->", res[how])
if any(v.startswith("returned") for v in res.values()):
    print("VIOLATION? (C02, no-connect also referenced elsewhere): a NoConn tied to two ports is exported as two nets")
    sys.exit(1)
print("ok")
sys.exit(0)
