"""C02 finding 2: an instance ARRAY may be connected by the flattened names of a bundle port's members.

Property clauses: "a missing or an extra port connection, a reference to a non-existent port".
`Inner` has ports `a` and the bundle port `bb`. It has no port `bb_x` / `bb_y`. A scalar Instance connected
`Inner(a=s, bb_x=s, bb_y=t)` is rejected (missing `bb`, non-existent `bb_x`, `bb_y`), and so is an h.Pair.
The same connections on an InstanceArray are accepted: arrays are skipped by the pre-flattening ConnTypes pass
and only checked after the child's bundle port has been flattened into ports of exactly those names.
"""
import os, sys; sys.path.insert(0, os.getcwd())
import io
import hdl21 as h


def design(kind):
    @h.bundle
    class B:
        x = h.Signal(width=2)
        y = h.Signal()

    @h.module
    class Inner:
        a = h.Input(width=2)
        bb = B(port=True)

    top = h.Module(name="Top")
    top.s = h.Signal(width=2)
    top.t = h.Signal()
    conns = dict(a=top.s, bb_x=top.s, bb_y=top.t)  # no `bb`; `bb_x`, `bb_y` are not ports of Inner
    if kind == "instance":
        top.i = Inner(**conns)
    elif kind == "array":
        top.i = 2 * Inner(**conns)
    elif kind == "pair":
        top.i = h.Pair(Inner)(**conns)
    return top


def outcome(kind, api):
    top = design(kind)
    try:
        if api == "elaborate":
            h.elaborate(top)
        elif api == "to_proto":
            h.to_proto(top)
        else:
            h.netlist(top, io.StringIO(), fmt="spice")
    except Exception as e:
        return "raised"
    return "returned"


res = {(k, a): outcome(k, a) for k in ("instance", "pair", "array") for a in ("elaborate", "to_proto", "netlist")}
for k, v in res.items():
    print(k, v)
if any(v == "returned" for v in res.values()):
    print("VIOLATION (C02): connections to the non-existent ports `bb_x`, `bb_y` (and no connection to port `bb`)")
    print("are rejected on an Instance / Pair but accepted on an InstanceArray, which is exported.")
    sys.exit(1)
print("ok")
sys.exit(0)
