"""C02 finding 4: renaming a port / signal / instance through its plain `name` attribute (BEFORE any elaboration)
leaves the module's dictionaries keyed by the old name; all connection checks use the dictionary keys, the exporter
uses the `name` attributes. elaborate and to_proto return a package that is ill-formed.

Property clauses: "a reference to a non-existent port", "a missing ... port connection" (and, for the signal case,
name clashes that merge two nets).
  (a) `Inner.b.name = "bee"`: Top connects `b=`, which is no longer a port of the exported Inner; port `bee` is unconnected.
  (b) `top.u.name = "t"`: Top is exported with two signals called `t`; the nets of `i.b` and `j.b` merge.
This is not an edit of an elaborated module: nothing has been elaborated when the rename happens.
"""
import os, sys; sys.path.insert(0, os.getcwd())
import io
import hdl21 as h


def design(case):
    @h.module
    class Inner:
        a = h.Input(width=2)
        b = h.Output()

    top = h.Module(name="Top")
    top.s = h.Signal(width=2)
    top.t = h.Signal()
    top.u = h.Signal()
    top.i = Inner(a=top.s, b=top.t)
    top.j = Inner(a=top.s, b=top.u)
    if case == "port":
        Inner.b.name = "bee"
    elif case == "signal":
        top.u.name = "t"
    return top


def problems(pkg):
    """Well-formedness of the exported package: every connection names a port of the target, every port is
    connected, signal names are unique."""
    out = []
    mods = {m.name: m for m in pkg.modules}
    for m in pkg.modules:
        names = [s.name for s in m.signals]
        for n in set(names):
            if names.count(n) > 1:
                out.append(f"{m.name}: {names.count(n)} signals named `{n}`")
        for i in m.instances:
            t = mods.get(i.module.local)
            if t is None:
                continue
            ports = {p.signal for p in t.ports}
            conns = {c.portname for c in i.connections}
            for c in sorted(conns - ports):
                out.append(f"{m.name}.{i.name}: connection to non-existent port `{c}`")
            for p in sorted(ports - conns):
                out.append(f"{m.name}.{i.name}: port `{p}` is not connected")
    return out


viol = False
for case in ("port", "signal"):
    try:
        h.elaborate(design(case))
        print(f"[{case}] elaborate returned")
    except Exception as e:
        print(f"[{case}] elaborate raised {e}")
    try:
        pkg = h.to_proto(design(case))
    except Exception as e:
        print(f"[{case}] to_proto raised: {e}")
        continue
    probs = problems(pkg)
    print(f"[{case}] to_proto returned a package; problems: {probs}")
    if probs:
        viol = True
    try:
        dest = io.StringIO()
        h.netlist(design(case), dest, fmt="spice")
        print(f"[{case}] netlist returned")
    except Exception as e:
        print(f"[{case}] netlist raised: {e}")
if viol:
    print("VIOLATION (C02): elaborate / to_proto return for a design whose connections do not match its ports")
    sys.exit(1)
print("ok")
sys.exit(0)
