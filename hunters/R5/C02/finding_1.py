"""C02 finding 1: a slice whose bounds lie outside its parent bus is silently clamped, not rejected.

Property clause: "an out-of-range or empty index ... then elaborate, to_proto and netlist raise".
`s[1:5]` on a 3-bit bus names bits 1..4; bits 3 and 4 do not exist. The library clamps it to s[1:3],
so the fault is accepted whenever the clamped width happens to fit the port (single-fault mutation of
the valid `s[1:3]`). Integer indices (s[3]) and empty selections (s[2:2]) are rejected; only ranges are clamped.
"""
import os, sys; sys.path.insert(0, os.getcwd())
import io
import hdl21 as h


def design(index):
    @h.module
    class Inner:
        a = h.Input(width=2)

    top = h.Module(name="Top")
    top.s = h.Signal(width=3)
    top.i = Inner(a=top.s[index])
    return top


bad = []
for label, index in [
    ("s[1:5]   (bits 3,4 do not exist)", slice(1, 5)),
    ("s[-9:2]  (start below -width)", slice(-9, 2)),
    ("s[7:0:-1] (start above width, reversed; port width 2)", slice(7, 0, -1)),
]:
    for api in ("elaborate", "to_proto", "netlist"):
        top = design(index)
        try:
            if api == "elaborate":
                h.elaborate(top)
            elif api == "to_proto":
                pkg = h.to_proto(top)
            else:
                h.netlist(top, io.StringIO(), fmt="verilog")
        except Exception as e:
            continue
        bad.append(f"{api} accepted {label}")

# Control: the same out-of-range position given as an integer index is rejected
try:
    h.elaborate(design(3))
    control = "s[3] accepted too"
except Exception:
    control = "s[3] rejected (ValueError)"

if bad:
    print("VIOLATION (C02, out-of-range index): out-of-range slice bounds are clamped and the design is exported:")
    for b in bad:
        print("  ", b)
    print("control:", control)
    pkg = h.to_proto(design(slice(1, 5)))
    print("exported connection for s[1:5]:", str(pkg.modules[-1].instances[0].connections[0]).replace("\n", " "))
    sys.exit(1)
print("ok: out-of-range slices are rejected")
sys.exit(0)
