"""
C01 finding 6: a bundle instance may be connected to a bundle port of another, structurally identical Bundle type
(`ConnTypes.check_bundles_compatible`) - but only if the bundles are flat. For nested bundles the recursive step
passes Bundle *definitions* where it expects a BundleInstance, and fails with
"Invalid connection-compatibility check between Bundle(name=S) and Bundle(name=S)" - even when the sub-bundles are of
the very same type.
"""
import os, sys; sys.path.insert(0, os.getcwd())
import hdl21 as h

R = h.primitives.R


@h.bundle
class F6S:
    x = h.Signal()


def outer(name, nested):
    b = h.Bundle(name=name)
    if nested:
        b.add(F6S(), name="s")
    else:
        b.add(h.Signal(name="s"))
    b.add(h.Signal(name="z"))
    return b


def design(tag, nested):
    B1, B2 = outer(f"F6B1{tag}", nested), outer(f"F6B2{tag}", nested)
    child = h.Module(name=f"F6Child{tag}")
    child.b = B1(port=True)
    child.r = R(r=1)(p=child.b.s.x if nested else child.b.s, n=child.b.z)
    top = h.Module(name=f"F6Top{tag}")
    top.u = B2(port=True)
    top.c = child(b=top.u)
    return top


pkg = h.to_proto(design("flat", nested=False))  # accepted: equivalent flat bundles
top = [m for m in pkg.modules if m.name.endswith("F6Topflat")][0]
assert sorted(c.portname for c in top.instances[0].connections) == ["b_s", "b_z"]

try:
    pkg = h.to_proto(design("nest", nested=True))
except Exception as e:
    print("VIOLATION: equivalent bundle types are connectable when flat, but with a nested sub-bundle (of one and the same type):")
    print("  ", type(e).__name__, str(e).splitlines()[-1])
    sys.exit(1)
print("OK")
sys.exit(0)
