"""
C01 finding 5: port-reference chains and hierarchy depth are limited by Python's recursion limit.
`ResolvePortRefs.follow` recurses once per hop of a chain `i[k].a = i[k-1].a` (a rail wired from instance to instance):
about 1000 instances give RecursionError. `ElabPass.elaborate_module_base` recurses three frames per hierarchy level:
about 330 levels give RecursionError. The error is then stored as the modules' `_elaboration_failure`, so every module
that was on the stack is unusable for good, also in designs which are small enough.
"""
import os, sys; sys.path.insert(0, os.getcwd())
import hdl21 as h

R = h.primitives.R
problems = []


def leaf(name):
    m = h.Module(name=name)
    m.a = h.Port()
    m.b = h.Port()
    m.r = R(r=1)(p=m.a, n=m.b)
    return m


def chain(n):
    L = leaf(f"F5Leaf{n}")
    m = h.Module(name=f"F5Chain{n}")
    m.c = h.Port()
    prev = m.add(L(b=m.c), name="i0")
    for k in range(1, n):
        prev = m.add(L(a=prev.a, b=m.c), name=f"i{k}")  # each `a` refers to the previous instance's `a`
    return m


h.to_proto(chain(300))  # fine
try:
    pkg = h.to_proto(chain(1100))
    assert len(pkg.modules[-1].instances) == 1100
except RecursionError as e:
    problems.append(f"chain of 1100 port references (no explicit signal): RecursionError: {e}")


def deep(n):
    cur = leaf(f"F5DLeaf{n}")
    mods = [cur]
    for k in range(n):
        m = h.Module(name=f"F5D{n}_{k}")
        m.a = h.Port()
        m.b = h.Port()
        m.i = cur(a=m.a, b=m.b)
        cur = m
        mods.append(m)
    return cur, mods


h.to_proto(deep(200)[0])  # fine
top, mods = deep(400)
try:
    h.to_proto(top)
except RecursionError as e:
    problems.append(f"hierarchy of depth 400: RecursionError: {e}")
    # the failure sticks, also for a sub-hierarchy which is small enough (100 levels)
    try:
        h.to_proto(mods[100])
    except RecursionError as e2:
        problems.append(f"... afterwards its 100-level sub-hierarchy, fine on its own, fails too: RecursionError: {e2}")

if problems:
    print("VIOLATION (the property quantifies over port-reference chains and any hierarchy depth):")
    for p in problems:
        print("  ", p)
    sys.exit(1)
print("OK")
sys.exit(0)
