"""
C01 finding 3: the `name` of a Signal (or Instance) that already is a module attribute can be re-assigned.
The module keeps it under the old key of its namespace, so name-uniqueness is no longer enforced, while export uses
the object's own `name`: the package declares two signals / two ports (or two instances) of one name, and the parent
connects a port name the child does not declare. Nothing raises. (Before any elaboration; no other API misuse.)
"""
import os, sys; sys.path.insert(0, os.getcwd())
import hdl21 as h
from collections import Counter

R = h.primitives.R

leaf = h.Module(name="F3Leaf")
leaf.a = h.Port()
leaf.b = h.Port()
leaf.r = R(r=1)(p=leaf.a, n=leaf.b)
leaf.a.name = "b"  # rename after adding

top = h.Module(name="F3Top")
top.x = h.Port()
top.y = h.Port()
top.i = leaf(a=top.x, b=top.y)
top.j = leaf(a=top.y, b=top.x)
top.i.name = "j"  # same for instances

try:
    pkg = h.to_proto(top)
except Exception as e:
    print("OK: rejected:", type(e).__name__, str(e).splitlines()[-1])
    sys.exit(0)

bad = []
for m in pkg.modules:
    for what, names in (
        ("signals", [s.name for s in m.signals]),
        ("ports", [p.signal for p in m.ports]),
        ("instances", [i.name for i in m.instances]),
    ):
        dups = [n for n, k in Counter(names).items() if k > 1]
        if dups:
            bad.append(f"module {m.name}: duplicate {what} {dups} (all: {names})")
ptop = [m for m in pkg.modules if m.name.endswith("F3Top")][0]
pleaf = [m for m in pkg.modules if m.name.endswith("F3Leaf")][0]
for pinst in ptop.instances:
    cp = sorted(c.portname for c in pinst.connections)
    dp = sorted(p.signal for p in pleaf.ports)
    if cp != dp:
        bad.append(f"instance {pinst.name}: connects ports {cp}, module declares {dp}")
if bad:
    print("VIOLATION: renaming an attribute after adding it is accepted, and the exported package is ill-formed:")
    for b in bad:
        print("  ", b)
    print("  Two distinct nets (a, b) of the written circuit have become one name; two instances share a name.")
    sys.exit(1)
print("OK")
sys.exit(0)
