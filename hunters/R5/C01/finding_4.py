"""
C01 finding 4: an instance-port reference `arr.n` cannot be written for an InstanceArray: `n` - the name of the
negative terminal of every two-terminal primitive (R, C, L, V, I, D ...) - is also where InstanceArray keeps its size,
and plain attributes win over the port-reference magic. `arr.n` is the integer, and the design crashes with
"attempting to connect non-connectable 2". The same reference on a scalar Instance, and to port `p` of the array, works.
(Writing the port is fine: `arr.n = sig`, `arr(n=sig)` connect it.)
Bundle instances have the same clash for members named `src`, `dest`, `port`, `role`, `desc`, `flipped`, `of`, `props`.
"""
import os, sys; sys.path.insert(0, os.getcwd())
import hdl21 as h

R = h.primitives.R
problems = []

# Reference design: scalar instance, `n` referenced by another instance. Works.
ref = h.Module(name="F4Ref")
ref.x = h.Port()
ref.y = h.Port()
ref.r1 = R(r=1)(p=ref.x)
ref.r2 = R(r=1)(p=ref.r1.n, n=ref.y)
h.to_proto(ref)

# The same with an array of two resistors (their `n` terminals joined, as for `p` below)
m = h.Module(name="F4Arr")
m.x = h.Port()
m.y = h.Port()
m.ra = 2 * R(r=1)(p=m.x)
try:
    m.r2 = R(r=1)(p=m.ra.n, n=m.y)
    h.to_proto(m)
except Exception as e:
    problems.append(f"reference to port `n` of an InstanceArray: {type(e).__name__}: {str(e)[-60:]}  (arr.n == {m.ra.n!r})")

# Control: port `p` of an array can be referenced
c = h.Module(name="F4Ctl")
c.x = h.Port()
c.y = h.Port()
c.ra = 2 * R(r=1)(n=c.x)
c.r2 = R(r=1)(p=c.ra.p, n=c.y)
h.to_proto(c)

# Bundle members shadowed by BundleInstance fields
b = h.Bundle(name="F4Bundle")
b.add(h.Signal(name="src"))
b.add(h.Signal(name="dest"))
bm = h.Module(name="F4Bun")
bm.u = b()
try:
    bm.r = R(r=1)(p=bm.u.src, n=bm.u.dest)
    h.to_proto(bm)
except Exception as e:
    problems.append(f"reference to bundle members `src` / `dest`: {type(e).__name__}: {str(e)[-60:]}")

if problems:
    print("VIOLATION: valid instance-port / bundle references crash with an undescriptive error:")
    for p in problems:
        print("  ", p)
    sys.exit(1)
print("OK")
sys.exit(0)
