"""
C01 finding 1: attributes of an ELABORATED module's signals can still be edited (the guard added by the
repair "connections of an elaborated module can no longer be edited" covers connections only), and since every
elaboration pass caches its verdict per module, the edited module is never checked again.
`to_proto` then silently exports an ill-formed circuit: a 2-bit signal tied to the 1-bit terminal of a resistor.
"""
import os, sys; sys.path.insert(0, os.getcwd())
import hdl21 as h

R = h.primitives.R

leaf = h.Module(name="F1Leaf")
leaf.a = h.Port()
leaf.b = h.Port()
leaf.r = R(r=1)(p=leaf.a, n=leaf.b)

pkg1 = h.to_proto(leaf)  # elaborates `leaf`; this package is fine

# History: the designer edits between two calls. Re-connecting is refused ...
try:
    leaf.r.p = leaf.b
    refused_conn_edit = False
except RuntimeError:
    refused_conn_edit = True

# ... but changing the width of the port is not
try:
    leaf.a.width = 2
except Exception as e:
    print("OK: width edit refused:", e)
    sys.exit(0)

parent = h.Module(name="F1Parent")
parent.x = h.Port(width=2)
parent.y = h.Port()
parent.i = leaf(a=parent.x, b=parent.y)

try:
    pkg = h.to_proto(parent)
except Exception as e:
    print("OK: the edited design is rejected:", type(e).__name__, str(e).splitlines()[-1])
    sys.exit(0)

pleaf = [m for m in pkg.modules if m.name.endswith("F1Leaf")][0]
widths = {s.name: s.width for s in pleaf.signals}
rconn = {c.portname: c.target for c in pleaf.instances[0].connections}
# The resistor's `p` is a one-bit terminal (vlsir.primitives.resistor). Which bits of `a` does it get?
tgt = rconn["p"]
kind = tgt.WhichOneof("stype")
bits = widths[tgt.sig] if kind == "sig" else None
if kind == "sig" and bits != 1:
    print("VIOLATION: to_proto accepted a width edit of an elaborated module without re-checking it.")
    print(f"  connection edits after elaboration refused: {refused_conn_edit}")
    print(f"  exported module {pleaf.name}: signal `a` has width {widths['a']}, and all {bits} bits of it are")
    print(f"  connected to the 1-bit terminal `p` of resistor `r` (target {{sig: '{tgt.sig}'}}).")
    print("  The package is not a well-formed circuit; neither the edit nor the export raised.")
    sys.exit(1)
print("OK")
sys.exit(0)
