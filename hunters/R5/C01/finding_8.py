"""
C01 finding 8: whether an instance with an unconnected port is accepted depends on whether anything ever *looked*
at that port. Instances hand out - and remember - a PortRef for every attribute asked of them; `ResolvePortRefs`
creates a net for every remembered reference to an existing port, used or not. So `hasattr(inst, "p")`, `repr(inst.p)`,
a debugger or a linter turn the rejected design ("Missing connection to Port `p`") into an accepted one.
For an InstanceArray the invented net is shared by all elements: terminals which the designer connected to nothing
are exported shorted together.
"""
import os, sys; sys.path.insert(0, os.getcwd())
import hdl21 as h

R = h.primitives.R


def design(name, probe):
    m = h.Module(name=name)
    m.x = h.Port()
    m.ra = 3 * R(r=1)(n=m.x)  # `p` of the three resistors is not connected to anything
    if probe:
        hasattr(m.ra, "p")  # an observation, not a connection
    return m


def outcome(m):
    try:
        return h.to_proto(m)
    except RuntimeError as e:
        return str(e).splitlines()[-1]


plain = outcome(design("F8Plain", probe=False))
probed = outcome(design("F8Probed", probe=True))

if isinstance(plain, str) and not isinstance(probed, str):
    pmod = probed.modules[-1]
    nets = {}
    for inst in pmod.instances:
        for c in inst.connections:
            if c.portname == "p":
                assert c.target.WhichOneof("stype") == "sig"
                nets.setdefault(c.target.sig, []).append(inst.name)
    print("VIOLATION: an observation changes the verdict, and the circuit:")
    print(f"   without `hasattr(arr, 'p')`: rejected - {plain[:110]}")
    print(f"   with it: accepted; nets of the resistors' `p` terminals: {nets}")
    shorted = [v for v in nets.values() if len(v) > 1]
    if shorted:
        print(f"   terminals `p` of {shorted[0]} lie on one net, which no connection of the design joins")
    sys.exit(1)
print("OK: same verdict with and without the probe:", type(plain).__name__, type(probed).__name__)
sys.exit(0)
