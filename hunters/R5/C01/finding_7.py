"""
C01 finding 7 (minor): an instance Pair splits a `Diff` over its two instances only when the connection is the Diff's
BundleInstance object itself. A *reference* to a Diff - `b.d` where `d = h.Diff()` is a member of bundle `b`, or `inst.d`,
another instance's Diff port - is treated as a scalar, handed to both instances, and rejected later as
"Invalid connection to non-Signal BundleInstance". Spelling out the same connection as
`h.AnonymousBundle(p=b.d.p, n=b.d.n)` works.
"""
import os, sys; sys.path.insert(0, os.getcwd())
import hdl21 as h

R = h.primitives.R
problems = []


@h.bundle
class F7B:
    d = h.Diff()
    s = h.Signal()


def design(name, how):
    m = h.Module(name=name)
    m.VSS = h.Port()
    m.b = F7B(port=True)
    if how == "ref":
        m.rs = h.Pair(R(r=1))(p=m.b.d, n=m.VSS)
    else:
        m.rs = h.Pair(R(r=1))(p=h.AnonymousBundle(p=m.b.d.p, n=m.b.d.n), n=m.VSS)
    return m


h.to_proto(design("F7Anon", "anon"))  # fine
try:
    h.to_proto(design("F7Ref", "ref"))
except Exception as e:
    problems.append(f"Pair port connected to `b.d` (a nested Diff): {type(e).__name__}: {str(e).splitlines()[-1][:150]}")

# Same through a port reference to a Diff port
leaf = h.Module(name="F7Leaf")
leaf.d = h.Diff(port=True)
leaf.c = h.Port()
leaf.r1 = R(r=1)(p=leaf.d.p, n=leaf.c)
leaf.r2 = R(r=1)(p=leaf.d.n, n=leaf.c)
t = h.Module(name="F7Top")
t.x = h.Port()
t.i0 = leaf(c=t.x)
t.pr = h.Pair(R(r=1))(p=t.i0.d, n=t.x)
try:
    h.to_proto(t)
except Exception as e:
    problems.append(f"Pair port connected to `i0.d` (a Diff port): {type(e).__name__}: {str(e).splitlines()[-1][:150]}")

if problems:
    print("VIOLATION (minor, loud): Pair connections to a Diff given by reference are rejected:")
    for p in problems:
        print("  ", p)
    sys.exit(1)
print("OK")
sys.exit(0)
