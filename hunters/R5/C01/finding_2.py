"""
C01 finding 2: `inst.of = OtherModule` is accepted on an instance of an ELABORATED module (`of` and `name` are
"special cases" of Instance.__setattr__ that by-pass `_check_editable`). The parent's connection checks are cached,
so the next `to_proto` silently exports an instance of the new module with the OLD connections: connections to ports
which do not exist, and ports left unconnected.
"""
import os, sys; sys.path.insert(0, os.getcwd())
import hdl21 as h

R = h.primitives.R


def leaf(name, ports):
    m = h.Module(name=name)
    for p in ports:
        m.add(h.Port(name=p))
    m.r = R(r=1)(p=m.get(ports[0]), n=m.get(ports[1]))
    return m


two = leaf("F2Two", ["a", "b"])
three = leaf("F2Three", ["x", "y", "z"])

top = h.Module(name="F2Top")
top.p = h.Port()
top.q = h.Port()
top.i = two(a=top.p, b=top.q)
h.to_proto(top)  # fine

try:
    top.i.of = three  # edit between two calls
except Exception as e:
    print("OK: retargeting an elaborated instance is refused:", e)
    sys.exit(0)

try:
    pkg = h.to_proto(top)
except Exception as e:
    print("OK: rejected:", type(e).__name__, str(e).splitlines()[-1])
    sys.exit(0)

ptop = [m for m in pkg.modules if m.name.endswith("F2Top")][0]
pinst = ptop.instances[0]
target = pinst.module.local
conn_ports = sorted(c.portname for c in pinst.connections)
decl = [m for m in pkg.modules if m.name == target][0]
decl_ports = sorted(p.signal for p in decl.ports)
if conn_ports != decl_ports:
    print("VIOLATION: to_proto exported an instance whose connections do not match the ports of its module.")
    print(f"  instance `{pinst.name}` of `{target}`: connected ports {conn_ports}, module ports {decl_ports}")
    print("  (edit `top.i.of = three` after the first to_proto was accepted; nothing was re-checked)")
    sys.exit(1)
print("OK")
sys.exit(0)
