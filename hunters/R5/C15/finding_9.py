import os, sys; sys.path.insert(0, os.getcwd())
for _p in ("pdks/Sky130", "pdks/Gf180", "pdks/Asap7"):
    sys.path.insert(0, os.path.join(os.getcwd(), _p))
import io
import hdl21 as h
from hdl21.prefix import µ
from hdl21.primitives import *

def compile_one(pdk, call):
    """One-instance module around `call`, every port on its own signal; compile; return (module, proto instance)."""
    m = h.Module(name="T")
    sigs = {p: m.add(h.Signal(name="s_" + p)) for p in call.ports}
    m.add(call(**sigs), name="i")
    pdk.compile(m)
    return m, h.to_proto(m).modules[0].instances[0]

def netlist(m, fmt="spice"):
    s = io.StringIO(); h.netlist(m, s, fmt=fmt); return s.getvalue()

def pval(inst, name):
    """Numeric / text value of exported instance parameter `name` (None if absent)."""
    for p in inst.parameters:
        if p.name == name:
            v = p.value; k = v.WhichOneof("value")
            if k == "prefixed":
                pv = v.prefixed
                num = getattr(pv, pv.WhichOneof("number"))
                import vlsir
                name2exp = {"YOTTA":24,"ZETTA":21,"EXA":18,"PETA":15,"TERA":12,"GIGA":9,"MEGA":6,"KILO":3,"HECTO":2,"DECA":1,"UNIT":0,"DECI":-1,"CENTI":-2,"MILLI":-3,"MICRO":-6,"NANO":-9,"PICO":-12,"FEMTO":-15,"ATTO":-18,"ZEPTO":-21,"YOCTO":-24}
                return float(num) * 10.0 ** name2exp[vlsir.SIPrefix.Name(pv.prefix)]
            return getattr(v, k)
    return None

# Finding 9: Sky130 logic-cell modules with truncated port lists (flip-flops without any output, muxes without select / output / supply)
import importlib, re
import sky130_hdl21

libs = {}
for n in ("high_density", "high_speed", "low_leakage", "low_power", "low_speed", "medium_speed"):
    mod = importlib.import_module("sky130_hdl21.digital_cells." + n)
    libs[n] = {k: v for k, v in vars(mod).items() if isinstance(v, h.ExternalModule)}

bad = []
for ln, d in libs.items():
    for k, v in d.items():
        ports = [p.name for p in v.port_list]
        why = None
        if re.search(r"^sdfbb[pn]_\d+$", k) and not {"Q", "Q_N"} <= set(ports):
            why = "scan flip-flop with Q and Q_N outputs declares " + ("no output at all" if not {"Q", "Q_N"} & set(ports) else "only one of them")
        elif k.startswith("muxb") and not {"Z", "VPWR"} <= set(ports):
            n_in = int(re.match(r"muxb(\d+)to1", k).group(1))
            why = f"{n_in}:1 mux declares {len(ports)} ports, no output Z, no VPWR" + ("" if any(p.startswith("S[") for p in ports) else ", no select")
        elif k.startswith("srsdf") and not ({"Q"} <= set(ports) and {"VPWR", "VPB"} <= set(ports)):
            why = "retention flip-flop without output and/or supply ports"
        elif k in ("inv_16", "nor2_lp") and ln == "low_power" and not {"VPWR", "VGND"} <= set(ports):
            why = "no VPWR/VGND although every drive strength / library variant of the cell has them"
        if why:
            bad.append((ln, k, v.name, ports, why))
# Each of them instantiates, with ALL declared ports connected, and netlists without complaint
for ln, k, name, ports, why in bad[:3]:
    m = h.Module(name="T_" + k)
    i = getattr(importlib.import_module("sky130_hdl21.digital_cells." + ln), k)()()
    for idx, p in enumerate(ports):
        i.connect(p, m.add(h.Signal(name=f"n{idx}")))
    m.add(i, name="i")
    txt = [l.strip() for l in netlist(m).splitlines() if l.strip()]
    j = txt.index("xi"); print(f"{name}: netlisted as: {txt[j+1]}  {txt[j+2]}")
if bad:
    print(f"VIOLATION ('every one of the ~3,100 logic-cell modules ... instantiated with all ports connected and netlisted' / 'each device port connected exactly once'): {len(bad)} cells have cut-off port lists, so an instance with every declared port connected netlists with fewer nodes than the library subcircuit has:")
    for ln, k, name, ports, why in bad:
        print(f"  {name}: {ports} - {why}")
    sys.exit(1)
print("ok")
