import os, sys; sys.path.insert(0, os.getcwd())
for _p in ("pdks/Sky130", "pdks/Gf180", "pdks/Asap7"):
    sys.path.insert(0, os.path.join(os.getcwd(), _p))
import io
import hdl21 as h
from hdl21.prefix import µ
from hdl21.primitives import *

def compile_one(pdk, call):
    """One-instance module around `call`, every port on its own signal; compile; return (module, proto instance)."""
    m = h.Module(name="T")
    sigs = {p: m.add(h.Signal(name="s_" + p)) for p in call.ports}
    m.add(call(**sigs), name="i")
    pdk.compile(m)
    return m, h.to_proto(m).modules[0].instances[0]

def netlist(m, fmt="spice"):
    s = io.StringIO(); h.netlist(m, s, fmt=fmt); return s.getvalue()

def pval(inst, name):
    """Numeric / text value of exported instance parameter `name` (None if absent)."""
    for p in inst.parameters:
        if p.name == name:
            v = p.value; k = v.WhichOneof("value")
            if k == "prefixed":
                pv = v.prefixed
                num = getattr(pv, pv.WhichOneof("number"))
                import vlsir
                name2exp = {"YOTTA":24,"ZETTA":21,"EXA":18,"PETA":15,"TERA":12,"GIGA":9,"MEGA":6,"KILO":3,"HECTO":2,"DECA":1,"UNIT":0,"DECI":-1,"CENTI":-2,"MILLI":-3,"MICRO":-6,"NANO":-9,"PICO":-12,"FEMTO":-15,"ATTO":-18,"ZEPTO":-21,"YOCTO":-24}
                return float(num) * 10.0 ** name2exp[vlsir.SIPrefix.Name(pv.prefix)]
            return getattr(v, k)
    return None

# Finding 5: Sky130 - the same width, written as a number or as a Literal, compiles to device widths 1e6 apart;
# and the documented equivalent of `Nmos(w=1*µ, l=1*µ)` (root readme: "Produces the same content as SkyInv", w=1, l=1) is not produced
import sky130_hdl21 as sky

bad = []
for model in ("NMOS_1p8V_STD", "NMOS_20p0V_STD"):
    m1, i1 = compile_one(sky, Mos(model=model, w=1 * µ, l=1 * µ))
    m2, i2 = compile_one(sky, Mos(model=model, w=h.Literal("1e-6"), l=h.Literal("1e-6")))
    w1 = pval(i1, "w"); w2 = eval(pval(i2, "w"))
    print(model, ": w=1*µ ->", w1, "   w=Literal('1e-6') ->", pval(i2, "w"), "=", w2)
    if abs(w1 - w2) > 1e-9 * max(abs(w1), abs(w2)):
        bad.append(f"{model}: w = 1e-6 m given as Prefixed compiles to w={w1}, given as Literal compiles to w={w2} (ratio {w2 / w1:g})")
# Same for the passives which go through the same `scale_param`
for call1, call2 in ((PhysicalResistor(model="GEN_PO", w=1 * µ, l=1 * µ), PhysicalResistor(model="GEN_PO", w=h.Literal("1e-6"), l=h.Literal("1e-6"))),
                     (PhysicalCapacitor(model="MIM_M3", w=1 * µ, l=1 * µ), PhysicalCapacitor(model="MIM_M3", w=h.Literal("1e-6"), l=h.Literal("1e-6")))):
    _, i1 = compile_one(sky, call1); _, i2 = compile_one(sky, call2)
    w1 = pval(i1, "w"); w2 = eval(pval(i2, "w"))
    if abs(w1 - w2) > 1e-9 * max(abs(w1), abs(w2)):
        bad.append(f"{call1.prim.name} {call1.params.model}: Prefixed -> w={w1}, Literal -> w={w2}")
# The documented equivalence (readme.md, "Process Technologies"): Sky130MosParams(w=1, l=1) <=> Nmos(w=1*µ, l=1*µ)
_, i3 = compile_one(sky, Nmos(model="NMOS_1p8V_STD", w=1 * µ, l=1 * µ))
direct = sky.Sky130MosParams(w=1, l=1)
if pval(i3, "w") != float(direct.w.number):
    bad.append(f"readme: compile(Inv) 'produces the same content as SkyInv' (w=1, l=1 in the PDK's µm units), but Nmos(w=1*µ) compiles to w={pval(i3, 'w')}")
if bad:
    print("VIOLATION ('sized with the given values'; 'equal primitive parameters give the same device call'):")
    print("\n".join("  " + b for b in bad))
    sys.exit(1)
print("ok")
