import os, sys; sys.path.insert(0, os.getcwd())
for _p in ("pdks/Sky130", "pdks/Gf180", "pdks/Asap7"):
    sys.path.insert(0, os.path.join(os.getcwd(), _p))
import io
import hdl21 as h
from hdl21.prefix import µ
from hdl21.primitives import *

def compile_one(pdk, call):
    """One-instance module around `call`, every port on its own signal; compile; return (module, proto instance)."""
    m = h.Module(name="T")
    sigs = {p: m.add(h.Signal(name="s_" + p)) for p in call.ports}
    m.add(call(**sigs), name="i")
    pdk.compile(m)
    return m, h.to_proto(m).modules[0].instances[0]

def netlist(m, fmt="spice"):
    s = io.StringIO(); h.netlist(m, s, fmt=fmt); return s.getvalue()

def pval(inst, name):
    """Numeric / text value of exported instance parameter `name` (None if absent)."""
    for p in inst.parameters:
        if p.name == name:
            v = p.value; k = v.WhichOneof("value")
            if k == "prefixed":
                pv = v.prefixed
                num = getattr(pv, pv.WhichOneof("number"))
                import vlsir
                name2exp = {"YOTTA":24,"ZETTA":21,"EXA":18,"PETA":15,"TERA":12,"GIGA":9,"MEGA":6,"KILO":3,"HECTO":2,"DECA":1,"UNIT":0,"DECI":-1,"CENTI":-2,"MILLI":-3,"MICRO":-6,"NANO":-9,"PICO":-12,"FEMTO":-15,"ATTO":-18,"ZEPTO":-21,"YOCTO":-24}
                return float(num) * 10.0 ** name2exp[vlsir.SIPrefix.Name(pv.prefix)]
            return getattr(v, k)
    return None

# Finding 12: Sky130 silently drops given sizes: a diode with only one of w / l, and the finger count of 20 V transistors
import sky130_hdl21 as sky, gf180_hdl21 as gf

bad = []
_, d0 = compile_one(sky, Diode(model="PWND_5p5V"))
_, d1 = compile_one(sky, Diode(model="PWND_5p5V", w=5))       # test-suite convention for Sky130 diodes: bare numbers, microns
_, d2 = compile_one(sky, Diode(model="PWND_5p5V", w=5, l=1))
print("sky130 diode area: default", pval(d0, "area"), " w=5:", pval(d1, "area"), " w=5,l=1:", pval(d2, "area"))
if pval(d1, "area") == pval(d0, "area"):
    bad.append(f"Diode(w=5) compiles to the default area {pval(d1, 'area')} / pj {pval(d1, 'pj')}: the given width is dropped (GF180 combines a single given size with its default: "
               f"area {pval(compile_one(gf, Diode(model='PW2DW', w=5 * µ))[1], 'area')})")
_, m1 = compile_one(sky, Mos(model="NMOS_20p0V_STD", nf=4, mult=2))
if pval(m1, "nf") is None:
    bad.append(f"Mos(model='NMOS_20p0V_STD', nf=4, mult=2) compiles to parameters {[p.name for p in m1.parameters]}: nf=4 is dropped without a word")
if bad:
    print("VIOLATION ('sized with the given values or the PDK's defaults'):")
    print("\n".join("  " + b for b in bad))
    sys.exit(1)
print("ok")
