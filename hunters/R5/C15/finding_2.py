import os, sys; sys.path.insert(0, os.getcwd())
for _p in ("pdks/Sky130", "pdks/Gf180", "pdks/Asap7"):
    sys.path.insert(0, os.path.join(os.getcwd(), _p))
import io
import hdl21 as h
from hdl21.prefix import µ
from hdl21.primitives import *

def compile_one(pdk, call):
    """One-instance module around `call`, every port on its own signal; compile; return (module, proto instance)."""
    m = h.Module(name="T")
    sigs = {p: m.add(h.Signal(name="s_" + p)) for p in call.ports}
    m.add(call(**sigs), name="i")
    pdk.compile(m)
    return m, h.to_proto(m).modules[0].instances[0]

def netlist(m, fmt="spice"):
    s = io.StringIO(); h.netlist(m, s, fmt=fmt); return s.getvalue()

def pval(inst, name):
    """Numeric / text value of exported instance parameter `name` (None if absent)."""
    for p in inst.parameters:
        if p.name == name:
            v = p.value; k = v.WhichOneof("value")
            if k == "prefixed":
                pv = v.prefixed
                num = getattr(pv, pv.WhichOneof("number"))
                import vlsir
                name2exp = {"YOTTA":24,"ZETTA":21,"EXA":18,"PETA":15,"TERA":12,"GIGA":9,"MEGA":6,"KILO":3,"HECTO":2,"DECA":1,"UNIT":0,"DECI":-1,"CENTI":-2,"MILLI":-3,"MICRO":-6,"NANO":-9,"PICO":-12,"FEMTO":-15,"ATTO":-18,"ZEPTO":-21,"YOCTO":-24}
                return float(num) * 10.0 ** name2exp[vlsir.SIPrefix.Name(pv.prefix)]
            return getattr(v, k)
    return None

# Finding 2: compiling a bare primitive call (the form shown in the Sky130 / GF180 read-mes) has no effect
import sky130_hdl21 as sky, gf180_hdl21 as gf, asap7_hdl21 as asap
import hdl21.pdk.sample_pdk as sp

bad = []
for name, pdk in (("sample", sp), ("sky130", sky), ("gf180", gf), ("asap7", asap)):
    for how in ("pdk.compile(call)", "h.pdk.compile(call, pdk)", "h.pdk.compile([call], pdk)"):
        a = Mos(tp=MosType.NMOS, family=MosFamily.CORE, vth=MosVth.STD)
        if how == "pdk.compile(call)":
            r = pdk.compile(a); got = [r, a]
        elif how == "h.pdk.compile(call, pdk)":
            r = h.pdk.compile(a, pdk); got = [r, a]
        else:
            lst = [a]; r = h.pdk.compile(lst, pdk); got = [r, lst[0]] + (list(r) if isinstance(r, list) else [])
        # The device must be obtainable from *something*: the return value, or the (in-place modified) argument
        if not any(isinstance(g, h.ExternalModuleCall) for g in got):
            bad.append(f"{name}: {how} returned {type(r).__name__ if not isinstance(r, list) else '[' + type(r[0]).__name__ + ']'}; the argument still is a {type(a).__name__} of {a.prim.name}")
if bad:
    print("VIOLATION: compile 'replaces the target ... by a device of that PDK' / 'hdl21.pdk.compile accepts the PDK by default, by name and by module':")
    print("a bare PrimitiveCall is accepted as `src` (the PDK read-mes: `a = Mos(...); sky130_hdl21.compile(a) # a is now an instance of ...`),")
    print("but the compiled device is neither returned nor written anywhere:")
    print("\n".join("  " + b for b in bad))
    sys.exit(1)
print("ok")
