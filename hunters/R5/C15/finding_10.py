import os, sys; sys.path.insert(0, os.getcwd())
for _p in ("pdks/Sky130", "pdks/Gf180", "pdks/Asap7"):
    sys.path.insert(0, os.path.join(os.getcwd(), _p))
import io
import hdl21 as h
from hdl21.prefix import µ
from hdl21.primitives import *

def compile_one(pdk, call):
    """One-instance module around `call`, every port on its own signal; compile; return (module, proto instance)."""
    m = h.Module(name="T")
    sigs = {p: m.add(h.Signal(name="s_" + p)) for p in call.ports}
    m.add(call(**sigs), name="i")
    pdk.compile(m)
    return m, h.to_proto(m).modules[0].instances[0]

def netlist(m, fmt="spice"):
    s = io.StringIO(); h.netlist(m, s, fmt=fmt); return s.getvalue()

def pval(inst, name):
    """Numeric / text value of exported instance parameter `name` (None if absent)."""
    for p in inst.parameters:
        if p.name == name:
            v = p.value; k = v.WhichOneof("value")
            if k == "prefixed":
                pv = v.prefixed
                num = getattr(pv, pv.WhichOneof("number"))
                import vlsir
                name2exp = {"YOTTA":24,"ZETTA":21,"EXA":18,"PETA":15,"TERA":12,"GIGA":9,"MEGA":6,"KILO":3,"HECTO":2,"DECA":1,"UNIT":0,"DECI":-1,"CENTI":-2,"MILLI":-3,"MICRO":-6,"NANO":-9,"PICO":-12,"FEMTO":-15,"ATTO":-18,"ZEPTO":-21,"YOCTO":-24}
                return float(num) * 10.0 ** name2exp[vlsir.SIPrefix.Name(pv.prefix)]
            return getattr(v, k)
    return None

# Finding 10: Sky130 - a generic Mos without an explicit family compiles to a 20 V device, not to the documented 1.8 V core device
import sky130_hdl21 as sky

# readme.md ("Process Technologies"): Inv with `Pmos(w=1*µ, l=1*µ, vth=MosVth.STD)` / `Nmos(w=1*µ, l=1*µ, vth=MosVth.STD)`;
# `sky130_hdl21.compile(Inv) # Produces the same content as SkyInv above`, SkyInv being made of PMOS_1p8V_STD and NMOS_1p8V_STD.
@h.module
class Inv:
    i, o, VDD, VSS = h.Ports(4)
    ps = Pmos(w=1 * µ, l=1 * µ, vth=MosVth.STD)(d=o, g=i, s=VDD, b=VDD)
    ns = Nmos(w=1 * µ, l=1 * µ, vth=MosVth.STD)(d=o, g=i, s=VSS, b=VSS)
sky.compile(Inv)
got = {i.name: i.module.external.name for i in h.to_proto(Inv).modules[0].instances}
want = {"ps": "sky130_fd_pr__pfet_01v8", "ns": "sky130_fd_pr__nfet_01v8"}
print("compiled Inv:", got)
if got != want:
    print("VIOLATION ('selected by the documented type/family/threshold parameters'):")
    print(f"  documented (root readme; Sky130Walker.mos_module: 'h.MosFamily ... default = CORE'): {want}")
    print(f"  observed: {got}")
    print("  (the `family is None -> CORE` default in mos_module can never apply: MosParams.family defaults to MosFamily.NONE, which is the key of the 20 V devices)")
    sys.exit(1)
print("ok")
