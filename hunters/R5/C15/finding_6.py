import os, sys; sys.path.insert(0, os.getcwd())
for _p in ("pdks/Sky130", "pdks/Gf180", "pdks/Asap7"):
    sys.path.insert(0, os.path.join(os.getcwd(), _p))
import io
import hdl21 as h
from hdl21.prefix import µ
from hdl21.primitives import *

def compile_one(pdk, call):
    """One-instance module around `call`, every port on its own signal; compile; return (module, proto instance)."""
    m = h.Module(name="T")
    sigs = {p: m.add(h.Signal(name="s_" + p)) for p in call.ports}
    m.add(call(**sigs), name="i")
    pdk.compile(m)
    return m, h.to_proto(m).modules[0].instances[0]

def netlist(m, fmt="spice"):
    s = io.StringIO(); h.netlist(m, s, fmt=fmt); return s.getvalue()

def pval(inst, name):
    """Numeric / text value of exported instance parameter `name` (None if absent)."""
    for p in inst.parameters:
        if p.name == name:
            v = p.value; k = v.WhichOneof("value")
            if k == "prefixed":
                pv = v.prefixed
                num = getattr(pv, pv.WhichOneof("number"))
                import vlsir
                name2exp = {"YOTTA":24,"ZETTA":21,"EXA":18,"PETA":15,"TERA":12,"GIGA":9,"MEGA":6,"KILO":3,"HECTO":2,"DECA":1,"UNIT":0,"DECI":-1,"CENTI":-2,"MILLI":-3,"MICRO":-6,"NANO":-9,"PICO":-12,"FEMTO":-15,"ATTO":-18,"ZEPTO":-21,"YOCTO":-24}
                return float(num) * 10.0 ** name2exp[vlsir.SIPrefix.Name(pv.prefix)]
            return getattr(v, k)
    return None

# Finding 6: GF180 (PDK units: metres) multiplies Literal-valued capacitor sizes by 1e6 - and no other size
import gf180_hdl21 as gf

def widths(call_p, call_l, pname):
    _, i1 = compile_one(gf, call_p); _, i2 = compile_one(gf, call_l)
    return pval(i1, pname), pval(i2, pname)
L = h.Literal("10e-6")
rows = {
    "Mos NFET_3p3V": widths(Mos(model="NFET_3p3V", w=10 * µ, l=10 * µ), Mos(model="NFET_3p3V", w=L, l=L), "w"),
    "PhysicalResistor RM1": widths(PhysicalResistor(model="RM1", w=10 * µ, l=10 * µ), PhysicalResistor(model="RM1", w=L, l=L), "r_width"),
    "PhysicalCapacitor MIM_1p5fF": widths(PhysicalCapacitor(model="MIM_1p5fF", w=10 * µ, l=10 * µ), PhysicalCapacitor(model="MIM_1p5fF", w=L, l=L), "c_width"),
}
bad = []
for k, (a, b) in rows.items():
    print(f"{k}: 10*µ -> {a}   Literal('10e-6') -> {b} = {eval(b)}")
    if abs(eval(b) - a) > 1e-12:
        bad.append(f"{k}: a 10 um size given as Literal compiles to {b} = {eval(b)} (PDK unit is the metre; given as 10*µ it compiles to {a})")
if bad:
    print("VIOLATION ('sized with the given values'):")
    print("\n".join("  " + b for b in bad))
    sys.exit(1)
print("ok")
