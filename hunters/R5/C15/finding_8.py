import os, sys; sys.path.insert(0, os.getcwd())
for _p in ("pdks/Sky130", "pdks/Gf180", "pdks/Asap7"):
    sys.path.insert(0, os.path.join(os.getcwd(), _p))
import io
import hdl21 as h
from hdl21.prefix import µ
from hdl21.primitives import *

def compile_one(pdk, call):
    """One-instance module around `call`, every port on its own signal; compile; return (module, proto instance)."""
    m = h.Module(name="T")
    sigs = {p: m.add(h.Signal(name="s_" + p)) for p in call.ports}
    m.add(call(**sigs), name="i")
    pdk.compile(m)
    return m, h.to_proto(m).modules[0].instances[0]

def netlist(m, fmt="spice"):
    s = io.StringIO(); h.netlist(m, s, fmt=fmt); return s.getvalue()

def pval(inst, name):
    """Numeric / text value of exported instance parameter `name` (None if absent)."""
    for p in inst.parameters:
        if p.name == name:
            v = p.value; k = v.WhichOneof("value")
            if k == "prefixed":
                pv = v.prefixed
                num = getattr(pv, pv.WhichOneof("number"))
                import vlsir
                name2exp = {"YOTTA":24,"ZETTA":21,"EXA":18,"PETA":15,"TERA":12,"GIGA":9,"MEGA":6,"KILO":3,"HECTO":2,"DECA":1,"UNIT":0,"DECI":-1,"CENTI":-2,"MILLI":-3,"MICRO":-6,"NANO":-9,"PICO":-12,"FEMTO":-15,"ATTO":-18,"ZEPTO":-21,"YOCTO":-24}
                return float(num) * 10.0 ** name2exp[vlsir.SIPrefix.Name(pv.prefix)]
            return getattr(v, k)
    return None

# Finding 8: Sky130 truncates the multiplier of bipolars to an integer (2.5 -> 2, 0.5 -> 0), and crashes on a Literal one
import sky130_hdl21 as sky, gf180_hdl21 as gf

bad = []
for mult in (2.5, 0.5):
    _, inst = compile_one(sky, Bipolar(model="PNP_5p0V_0p68x0p68", mult=mult))
    got = pval(inst, "m")
    _, inst2 = compile_one(sky, Mos(model="NMOS_1p8V_STD", mult=mult))
    _, inst3 = compile_one(gf, Bipolar(model="PNP_5p0x5p0", mult=mult))
    print(f"mult={mult}: sky130 bipolar m={got}; sky130 mos mult={pval(inst2, 'mult')}; gf180 bipolar m={pval(inst3, 'm')}")
    if got != mult:
        bad.append(f"Bipolar(mult={mult}) compiles to m={got}")
try:
    compile_one(sky, Bipolar(model="PNP_5p0V_0p68x0p68", mult=h.Literal("nmult")))
except Exception as e:
    bad.append(f"Bipolar(mult=Literal('nmult')) -> {type(e).__name__}: {e}")
if bad:
    print("VIOLATION ('sized with the given values ... multipliers'):")
    print("\n".join("  " + b for b in bad))
    sys.exit(1)
print("ok")
