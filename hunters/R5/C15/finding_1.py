import os, sys; sys.path.insert(0, os.getcwd())
for _p in ("pdks/Sky130", "pdks/Gf180", "pdks/Asap7"):
    sys.path.insert(0, os.path.join(os.getcwd(), _p))
import io
import hdl21 as h
from hdl21.prefix import µ
from hdl21.primitives import *

def compile_one(pdk, call):
    """One-instance module around `call`, every port on its own signal; compile; return (module, proto instance)."""
    m = h.Module(name="T")
    sigs = {p: m.add(h.Signal(name="s_" + p)) for p in call.ports}
    m.add(call(**sigs), name="i")
    pdk.compile(m)
    return m, h.to_proto(m).modules[0].instances[0]

def netlist(m, fmt="spice"):
    s = io.StringIO(); h.netlist(m, s, fmt=fmt); return s.getvalue()

def pval(inst, name):
    """Numeric / text value of exported instance parameter `name` (None if absent)."""
    for p in inst.parameters:
        if p.name == name:
            v = p.value; k = v.WhichOneof("value")
            if k == "prefixed":
                pv = v.prefixed
                num = getattr(pv, pv.WhichOneof("number"))
                import vlsir
                name2exp = {"YOTTA":24,"ZETTA":21,"EXA":18,"PETA":15,"TERA":12,"GIGA":9,"MEGA":6,"KILO":3,"HECTO":2,"DECA":1,"UNIT":0,"DECI":-1,"CENTI":-2,"MILLI":-3,"MICRO":-6,"NANO":-9,"PICO":-12,"FEMTO":-15,"ATTO":-18,"ZEPTO":-21,"YOCTO":-24}
                return float(num) * 10.0 ** name2exp[vlsir.SIPrefix.Name(pv.prefix)]
            return getattr(v, k)
    return None

# Finding 1: Sky130 precision resistors ignore the given length
import sky130_hdl21 as sky

bad = []
for key in ("PP_PREC_0p35", "PM_PREC_2p85", "PP_PREC_5p73"):
    outs = []
    for l in (7 * µ, 20 * µ):
        m, inst = compile_one(sky, ThreeTerminalResistor(model=key, l=l))
        outs.append(pval(inst, "l"))
    # Two different given lengths must not produce the same device length
    if outs[0] == outs[1]:
        bad.append(f"{key}: given l=7u and l=20u both compile to device l={outs[0]}")
# For comparison: the generic resistors of the same PDK do use the given length
m, inst = compile_one(sky, PhysicalResistor(model="GEN_PO", l=7 * µ, w=1 * µ))
print("GEN_PO with l=7u ->", pval(inst, "l"))
if bad:
    print("VIOLATION: 'sized with the given values or the PDK's defaults' - the given length of a Sky130 precision resistor is dropped:")
    print("\n".join("  " + b for b in bad))
    sys.exit(1)
print("ok")
