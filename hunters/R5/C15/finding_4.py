import os, sys; sys.path.insert(0, os.getcwd())
for _p in ("pdks/Sky130", "pdks/Gf180", "pdks/Asap7"):
    sys.path.insert(0, os.path.join(os.getcwd(), _p))
import io
import hdl21 as h
from hdl21.prefix import µ
from hdl21.primitives import *

def compile_one(pdk, call):
    """One-instance module around `call`, every port on its own signal; compile; return (module, proto instance)."""
    m = h.Module(name="T")
    sigs = {p: m.add(h.Signal(name="s_" + p)) for p in call.ports}
    m.add(call(**sigs), name="i")
    pdk.compile(m)
    return m, h.to_proto(m).modules[0].instances[0]

def netlist(m, fmt="spice"):
    s = io.StringIO(); h.netlist(m, s, fmt=fmt); return s.getvalue()

def pval(inst, name):
    """Numeric / text value of exported instance parameter `name` (None if absent)."""
    for p in inst.parameters:
        if p.name == name:
            v = p.value; k = v.WhichOneof("value")
            if k == "prefixed":
                pv = v.prefixed
                num = getattr(pv, pv.WhichOneof("number"))
                import vlsir
                name2exp = {"YOTTA":24,"ZETTA":21,"EXA":18,"PETA":15,"TERA":12,"GIGA":9,"MEGA":6,"KILO":3,"HECTO":2,"DECA":1,"UNIT":0,"DECI":-1,"CENTI":-2,"MILLI":-3,"MICRO":-6,"NANO":-9,"PICO":-12,"FEMTO":-15,"ATTO":-18,"ZEPTO":-21,"YOCTO":-24}
                return float(num) * 10.0 ** name2exp[vlsir.SIPrefix.Name(pv.prefix)]
            return getattr(v, k)
    return None

# Finding 4: ASAP7 turns Literal-valued sizes into dicts; the compiled design cannot be exported
import asap7_hdl21 as asap

m = h.Module(name="T"); m.a = h.Signal()
m.x = Mos(tp=MosType.NMOS, w=h.Literal("wn"), l=h.Literal("ln"))(d=m.a, g=m.a, s=m.a, b=m.a)
asap.compile(m)
try:
    h.to_proto(m); netlist(m); netlist(m, "spectre")
except Exception as e:
    print("VIOLATION ('The compiled design ... exports and netlists in spice and spectre format'):")
    print(f"  compiled device parameters: {m.x.of.params}")
    print(f"  export raises {type(e).__name__}: {e}")
    # The same design compiles and netlists with the sample PDK
    import hdl21.pdk.sample_pdk as sp
    m2 = h.Module(name="T2"); m2.a = h.Signal()
    m2.x = Mos(tp=MosType.NMOS, w=h.Literal("wn"), l=h.Literal("ln"))(d=m2.a, g=m2.a, s=m2.a, b=m2.a)
    sp.compile(m2); print("  (sample PDK netlists it:", [l for l in netlist(m2).splitlines() if "w=" in l], ")")
    sys.exit(1)
print("ok")
