import os, sys; sys.path.insert(0, os.getcwd())
for _p in ("pdks/Sky130", "pdks/Gf180", "pdks/Asap7"):
    sys.path.insert(0, os.path.join(os.getcwd(), _p))
import io
import hdl21 as h
from hdl21.prefix import µ
from hdl21.primitives import *

def compile_one(pdk, call):
    """One-instance module around `call`, every port on its own signal; compile; return (module, proto instance)."""
    m = h.Module(name="T")
    sigs = {p: m.add(h.Signal(name="s_" + p)) for p in call.ports}
    m.add(call(**sigs), name="i")
    pdk.compile(m)
    return m, h.to_proto(m).modules[0].instances[0]

def netlist(m, fmt="spice"):
    s = io.StringIO(); h.netlist(m, s, fmt=fmt); return s.getvalue()

def pval(inst, name):
    """Numeric / text value of exported instance parameter `name` (None if absent)."""
    for p in inst.parameters:
        if p.name == name:
            v = p.value; k = v.WhichOneof("value")
            if k == "prefixed":
                pv = v.prefixed
                num = getattr(pv, pv.WhichOneof("number"))
                import vlsir
                name2exp = {"YOTTA":24,"ZETTA":21,"EXA":18,"PETA":15,"TERA":12,"GIGA":9,"MEGA":6,"KILO":3,"HECTO":2,"DECA":1,"UNIT":0,"DECI":-1,"CENTI":-2,"MILLI":-3,"MICRO":-6,"NANO":-9,"PICO":-12,"FEMTO":-15,"ATTO":-18,"ZEPTO":-21,"YOCTO":-24}
                return float(num) * 10.0 ** name2exp[vlsir.SIPrefix.Name(pv.prefix)]
            return getattr(v, k)
    return None

# Finding 11: a deep-copied (or pickled) primitive call is silently left uncompiled by every PDK
import copy, pickle
import sky130_hdl21 as sky, gf180_hdl21 as gf, asap7_hdl21 as asap
import hdl21.pdk.sample_pdk as sp

bad = []
for name, pdk in (("sample", sp), ("sky130", sky), ("gf180", gf), ("asap7", asap)):
    for how, f in (("copy.deepcopy", copy.deepcopy), ("pickle round-trip", lambda c: pickle.loads(pickle.dumps(c)))):
        orig = Mos(tp=MosType.NMOS, family=MosFamily.CORE, vth=MosVth.STD)
        call = f(orig)
        m, inst = compile_one(pdk, call)
        tgt = inst.module.external
        if (tgt.domain, tgt.name) == ("hdl21.primitives", "Mos"):
            bad.append(f"{name}: instance of a {how} of Mos(...) is still {tgt.domain}.{tgt.name} after compile (no error)")
if bad:
    print("VIOLATION ('replaces the target of every instance of a technology-mapped generic primitive'):")
    print("\n".join("  " + b for b in bad))
    print("  (the copy is exported as hdl21.primitives.Mos like the original; the compilers test `call.prim is Mos`)")
    sys.exit(1)
print("ok")
