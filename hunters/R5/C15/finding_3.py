import os, sys; sys.path.insert(0, os.getcwd())
for _p in ("pdks/Sky130", "pdks/Gf180", "pdks/Asap7"):
    sys.path.insert(0, os.path.join(os.getcwd(), _p))
import io
import hdl21 as h
from hdl21.prefix import µ
from hdl21.primitives import *

def compile_one(pdk, call):
    """One-instance module around `call`, every port on its own signal; compile; return (module, proto instance)."""
    m = h.Module(name="T")
    sigs = {p: m.add(h.Signal(name="s_" + p)) for p in call.ports}
    m.add(call(**sigs), name="i")
    pdk.compile(m)
    return m, h.to_proto(m).modules[0].instances[0]

def netlist(m, fmt="spice"):
    s = io.StringIO(); h.netlist(m, s, fmt=fmt); return s.getvalue()

def pval(inst, name):
    """Numeric / text value of exported instance parameter `name` (None if absent)."""
    for p in inst.parameters:
        if p.name == name:
            v = p.value; k = v.WhichOneof("value")
            if k == "prefixed":
                pv = v.prefixed
                num = getattr(pv, pv.WhichOneof("number"))
                import vlsir
                name2exp = {"YOTTA":24,"ZETTA":21,"EXA":18,"PETA":15,"TERA":12,"GIGA":9,"MEGA":6,"KILO":3,"HECTO":2,"DECA":1,"UNIT":0,"DECI":-1,"CENTI":-2,"MILLI":-3,"MICRO":-6,"NANO":-9,"PICO":-12,"FEMTO":-15,"ATTO":-18,"ZEPTO":-21,"YOCTO":-24}
                return float(num) * 10.0 ** name2exp[vlsir.SIPrefix.Name(pv.prefix)]
            return getattr(v, k)
    return None

# Finding 3: ASAP7 passes the generic *selection* parameters on as device parameters, and ignores the model name
import asap7_hdl21 as asap

bad = []
m, inst = compile_one(asap, Mos(tp=MosType.PMOS, vth=MosVth.LOW, family=MosFamily.IO, w=3, l=1))
names = [p.name for p in inst.parameters]
leaked = [n for n in names if n in ("tp", "family", "vth", "model")]
if leaked:
    line = [l for l in netlist(m).splitlines() if "tp=" in l or "family=" in l]
    bad.append(f"device {inst.module.external.name} is called with parameters {names}: {leaked} are the generic selectors, not device parameters. Netlist: {line}")
# Selection by model name: the ASAP7 table has {n,p}mos_slvt and {n,p}mos_sram, which no MosVth value reaches
m, inst = compile_one(asap, Mos(tp=MosType.NMOS, model="nmos_slvt"))
if inst.module.external.name != "nmos_slvt":
    bad.append(f"Mos(model='nmos_slvt') compiles to {inst.module.external.name} with parameters {[(p.name, p.value.literal) for p in inst.parameters]} - no error, model name ignored")
if bad:
    print("VIOLATION ('device ... selected by the documented type/family/threshold parameters or by model name, sized with the given values or the PDK's defaults'):")
    print("\n".join("  " + b for b in bad))
    sys.exit(1)
print("ok")
