import os, sys; sys.path.insert(0, os.getcwd())
for _p in ("pdks/Sky130", "pdks/Gf180", "pdks/Asap7"):
    sys.path.insert(0, os.path.join(os.getcwd(), _p))
import io
import hdl21 as h
from hdl21.prefix import µ
from hdl21.primitives import *

def compile_one(pdk, call):
    """One-instance module around `call`, every port on its own signal; compile; return (module, proto instance)."""
    m = h.Module(name="T")
    sigs = {p: m.add(h.Signal(name="s_" + p)) for p in call.ports}
    m.add(call(**sigs), name="i")
    pdk.compile(m)
    return m, h.to_proto(m).modules[0].instances[0]

def netlist(m, fmt="spice"):
    s = io.StringIO(); h.netlist(m, s, fmt=fmt); return s.getvalue()

def pval(inst, name):
    """Numeric / text value of exported instance parameter `name` (None if absent)."""
    for p in inst.parameters:
        if p.name == name:
            v = p.value; k = v.WhichOneof("value")
            if k == "prefixed":
                pv = v.prefixed
                num = getattr(pv, pv.WhichOneof("number"))
                import vlsir
                name2exp = {"YOTTA":24,"ZETTA":21,"EXA":18,"PETA":15,"TERA":12,"GIGA":9,"MEGA":6,"KILO":3,"HECTO":2,"DECA":1,"UNIT":0,"DECI":-1,"CENTI":-2,"MILLI":-3,"MICRO":-6,"NANO":-9,"PICO":-12,"FEMTO":-15,"ATTO":-18,"ZEPTO":-21,"YOCTO":-24}
                return float(num) * 10.0 ** name2exp[vlsir.SIPrefix.Name(pv.prefix)]
            return getattr(v, k)
    return None

# Finding 7: a Diode whose size is a Literal (e.g. the name of a netlist parameter) crashes Sky130 and GF180 compilation with a bare TypeError
import sky130_hdl21 as sky, gf180_hdl21 as gf

bad = []
for name, pdk, model in (("sky130", sky, "PWND_5p5V"), ("gf180", gf, "PW2DW")):
    for kw in (dict(w=h.Literal("wd"), l=h.Literal("ld")), dict(w=h.Literal("wd"), l=1 * µ)):
        try:
            m, inst = compile_one(pdk, Diode(model=model, **kw))
            netlist(m); netlist(m, "spectre")
        except Exception as e:
            if not ("iode" in str(e) or "Literal size" in str(e)):
                bad.append(f"{name}: Diode(model={model!r}, {kw}) -> {type(e).__name__}: {e}")
# Every other device kind of the same PDKs takes Literal sizes
m, inst = compile_one(sky, Mos(model="NMOS_1p8V_STD", w=h.Literal("wd"), l=h.Literal("ld"))); netlist(m)
m, inst = compile_one(gf, PhysicalResistor(model="RM1", w=h.Literal("wd"), l=h.Literal("ld"))); netlist(m)
if bad:
    print("VIOLATION (Literal sizes are valid `Scalar` parameter values, 'sized with the given values'; the failure is an undescriptive TypeError from inside the compiler):")
    print("\n".join("  " + b for b in bad))
    sys.exit(1)
print("ok")
