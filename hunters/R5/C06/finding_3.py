"""C06 finding 3: packages whose names are unique in VLSIR terms, but which both vlsirtools netlisters refuse.
 (a) Two Modules with the same name, defined in two different Python modules (two cell libraries which both have an `Inv`).
     Their exported names `c06_liba.Inv` / `c06_libb.Inv` are distinct, so to_proto succeeds and the package is well formed,
     but the netlisters name sub-circuits by the last path segment and raise `Module Inv doubly defined`.
 (b) Two ExternalModules with one name in two domains (e.g. devices of two PDKs). (domain, name) is unique and the
     package declares both, but the netlisters raise `Conflicting ExternalModule definitions`.
The property demands that the spice and spectre netlisters accept every package to_proto returns."""
import os, sys; sys.path.insert(0, os.getcwd())
import io, tempfile, importlib
import hdl21 as h
import vlsirtools

problems = []
tmp = tempfile.mkdtemp()
src = '''
import hdl21 as h
@h.module
class Inv:
    i, o, VDD, VSS = h.Ports(4)
    r = h.R(r={r})(p=i, n=o)
    c = h.C(c=1e-15)(p=VDD, n=VSS)
'''
for lib, r in (("c06_liba", 1000), ("c06_libb", 2000)):
    with open(os.path.join(tmp, lib + ".py"), "w") as f:
        f.write(src.format(r=r))
sys.path.insert(0, tmp)
liba, libb = importlib.import_module("c06_liba"), importlib.import_module("c06_libb")

top = h.Module(name="Top")
top.a, top.b, top.c, top.VDD, top.VSS = h.Ports(5)
top.i1 = liba.Inv(i=top.a, o=top.b, VDD=top.VDD, VSS=top.VSS)
top.i2 = libb.Inv(i=top.b, o=top.c, VDD=top.VDD, VSS=top.VSS)
pkg = h.to_proto(top)
names = [m.name for m in pkg.modules]
print("(a) module names:", names)
assert len(set(names)) == len(names)
h.from_proto(pkg)  # accepted
for fmt in ("spice", "spectre"):
    try:
        vlsirtools.netlist(pkg=pkg, dest=io.StringIO(), fmt=fmt)
    except Exception as e:
        problems.append(f"(a) {fmt} netlister rejects the package: {type(e).__name__}: {str(e)[:80]!r}")

# (b)
N1 = h.ExternalModule(name="nfet", domain="pdk_one", port_list=[h.Port(name=n) for n in "dgsb"], paramtype=dict)
N2 = h.ExternalModule(name="nfet", domain="pdk_two", port_list=[h.Port(name=n) for n in "dgsb"], paramtype=dict)
top2 = h.Module(name="Top2")
top2.d, top2.g, top2.s = h.Ports(3)
top2.m1 = N1(w=1)(d=top2.d, g=top2.g, s=top2.s, b=top2.s)
top2.m2 = N2(w=1)(d=top2.d, g=top2.g, s=top2.s, b=top2.s)
pkg2 = h.to_proto(top2)
print("(b) external modules:", [(e.name.domain, e.name.name) for e in pkg2.ext_modules])
h.from_proto(pkg2)  # accepted
for fmt in ("spice", "spectre"):
    try:
        vlsirtools.netlist(pkg=pkg2, dest=io.StringIO(), fmt=fmt)
    except Exception as e:
        problems.append(f"(b) {fmt} netlister rejects the package: {type(e).__name__}: {str(e)[:50]!r}")

if problems:
    print("VIOLATION of C06 ('the vlsirtools spice and spectre netlisters accept it'):")
    for p in problems:
        print("  -", p)
    sys.exit(1)
print("no violation")
sys.exit(0)
