"""C06 finding 6 (borderline, probably by design of vlsirtools): a package which holds an instance of a PHYSICAL
hdl21 primitive (Mos, Bipolar, Diode, PhysicalResistor, ..., also the results of the built-in `MosStack` generator
with its default unit) is returned by to_proto, is well formed and is accepted by from_proto, but neither netlister
accepts it: `Invalid direct-netlisting of physical hdl21.Primitive`. The property quantifies the netlisters'
acceptance over *every* package to_proto returns, including 'built-in generators over their parameter ranges'."""
import os, sys; sys.path.insert(0, os.getcwd())
import io
import hdl21 as h
import vlsirtools
from hdl21.generators import MosStack

problems = []
m = h.Module(name="HasMos")
m.d, m.g, m.s = h.Ports(3)
m.n = h.Nmos(w=1 * h.prefix.µ)(d=m.d, g=m.g, s=m.s, b=m.s)
for label, top in (("module with h.Nmos", m), ("MosStack(nser=2)", MosStack(nser=2))):
    pkg = h.to_proto(top)
    h.from_proto(pkg)
    for fmt in ("spice", "spectre"):
        try:
            vlsirtools.netlist(pkg=pkg, dest=io.StringIO(), fmt=fmt)
        except Exception as e:
            problems.append(f"{label}: {fmt} netlister rejects the package: {type(e).__name__}: {str(e)[:75]!r}")
if problems:
    print("VIOLATION of C06 ('the vlsirtools spice and spectre netlisters accept it'):")
    for p in problems:
        print("  -", p)
    sys.exit(1)
print("no violation")
sys.exit(0)
