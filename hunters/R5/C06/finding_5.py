"""C06 finding 5: one object under two names of one Module is still exported twice, if the second name is given
after the object passed through another Module. (The repair for `a = b = h.Port()` compares the object's *current*
name with the new one; a detour through a second, never-elaborated Module changes the current name first.)

    m.a = s          # s is attribute `a` of m
    tmp.x = s        # allowed, as `m` has not been elaborated: s is renamed `x` and re-parented to tmp
    m.y = s          # accepted: s is named `x`, which is no attribute of m.  m now holds s as `a` AND as `y`

Elaboration (Orphanage: s._parent_module is m) and to_proto succeed; the package declares signal / port / instance
`y` twice, and both netlisters reject it."""
import os, sys; sys.path.insert(0, os.getcwd())
import io, collections
import hdl21 as h
import vlsirtools

problems = []

def dupes(names):
    return [n for n, c in collections.Counter(names).items() if c > 1]

# (a) internal signal
m, tmp = h.Module(name="M"), h.Module(name="Tmp")
s = h.Signal()
m.a = s
tmp.x = s
m.y = s
m.r = h.R(r=1)(p=s, n=s)
pkg = h.to_proto(m)
d = dupes([x.name for x in pkg.modules[0].signals])
print("(a) signals:", [x.name for x in pkg.modules[0].signals])
if d:
    problems.append(f"(a) module {pkg.modules[0].name} declares signal(s) {d} more than once")

# (b) port
m, tmp = h.Module(name="M2"), h.Module(name="Tmp2")
p = h.Port()
m.a = p
tmp.x = p
m.y = p
m.r = h.R(r=1)(p=p, n=p)
pkg_b = h.to_proto(m)
d = dupes([x.signal for x in pkg_b.modules[0].ports])
print("(b) ports:", [x.signal for x in pkg_b.modules[0].ports])
if d:
    problems.append(f"(b) module {pkg_b.modules[0].name} declares port(s) {d} more than once")
for fmt in ("spice", "spectre"):
    try:
        vlsirtools.netlist(pkg=pkg_b, dest=io.StringIO(), fmt=fmt)
    except Exception as e:
        problems.append(f"(b) {fmt} netlister rejects the package: {type(e).__name__}: {str(e)[:70]!r}")

# (c) instance
m, tmp = h.Module(name="M3"), h.Module(name="Tmp3")
m.s = h.Signal()
i = h.R(r=1)(p=m.s, n=m.s)
m.a = i
tmp.x = i
m.y = i
pkg_c = h.to_proto(m)
d = dupes([x.name for x in pkg_c.modules[0].instances])
print("(c) instances:", [x.name for x in pkg_c.modules[0].instances])
if d:
    problems.append(f"(c) module {pkg_c.modules[0].name} holds instance(s) {d} more than once")

# (d) instance array: same mechanism, different symptom - the array is dissolved twice, the package holds 2 x 2 resistors
m, tmp = h.Module(name="M4"), h.Module(name="Tmp4")
m.s = h.Signal()
arr = 2 * h.R(r=1)(p=m.s, n=m.s)
m.a = arr
tmp.x = arr
m.y = arr
pkg_d = h.to_proto(m)
names = [x.name for x in pkg_d.modules[0].instances]
print("(d) instances of a 2-element array:", names)
if len(names) != 2:
    problems.append(f"(d) a 2-element instance array held under two names is exported as {len(names)} instances {names} (silent, names unique)")

if problems:
    print("VIOLATION of C06 ('within a module, signal, port and instance names are unique'):")
    for p in problems:
        print("  -", p)
    sys.exit(1)
print("no violation")
sys.exit(0)
