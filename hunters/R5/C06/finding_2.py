"""C06 finding 2: the exporter identifies primitives by the *name* of the `Primitive` object, not by identity.
`hdl21.Primitive` is a public class; a user-defined Primitive is accepted by elaboration and to_proto:
 (a) a PHYSICAL one is exported as an instance of `hdl21.primitives.<name>`, which is not a known primitive
     (from_proto crashes with `AttributeError: external`);
 (b) one which carries the name of a built-in primitive (e.g. "IdealResistor", "Mos") but other ports is exported
     as an instance of that built-in (`vlsir.primitives.resistor` / `hdl21.primitives.Mos`) with connections to
     ports the target does not have, and the target's own ports unconnected."""
import os, sys; sys.path.insert(0, os.getcwd())
import io
import hdl21 as h
import vlsirtools
from hdl21.primitives import Primitive, PrimitiveType

@h.paramclass
class NoP:
    x = h.Param(dtype=int, desc="x", default=1)

def build(prim):
    m = h.Module(name="Top_" + prim.name)
    m.s = h.Signal()
    m.i = prim()(**{p.name: m.s for p in prim.port_list})
    return m

problems = []

# (a) unknown physical primitive
foo = Primitive(name="Foo", desc="user primitive", port_list=[h.Port(name="a")], paramtype=NoP, primtype=PrimitiveType.PHYSICAL)
pkg = h.to_proto(build(foo))
ref = pkg.modules[0].instances[0].module.external
print(f"(a) exported reference: {ref.domain}.{ref.name}")
if ref.domain == "hdl21.primitives" and not isinstance(getattr(h.primitives, ref.name, None), Primitive):
    problems.append(f"(a) instance refers to `{ref.domain}.{ref.name}`, which is neither a module of the package, a declared external module nor a known primitive")
try:
    h.from_proto(pkg)
except Exception as e:
    problems.append(f"(a) from_proto rejects it: {type(e).__name__}: {str(e)[:80]!r}")

# (b) ideal primitive named like a built-in, with other ports
fake = Primitive(name="IdealResistor", desc="not the built-in", port_list=[h.Port(name="a"), h.Port(name="b"), h.Port(name="c")], paramtype=NoP, primtype=PrimitiveType.IDEAL)
assert fake is not h.primitives.IdealResistor
pkg = h.to_proto(build(fake))
inst = pkg.modules[0].instances[0]
ref = inst.module.external
conns = sorted(c.portname for c in inst.connections)
print(f"(b) exported reference: {ref.domain}.{ref.name}, connections {conns}")
if (ref.domain, ref.name) == ("vlsir.primitives", "resistor") and conns != ["n", "p"]:
    problems.append(f"(b) instance of vlsir.primitives.resistor (ports p, n) connects {conns}")
for fmt in ("spice", "spectre"):
    try:
        vlsirtools.netlist(pkg=pkg, dest=io.StringIO(), fmt=fmt)
    except Exception as e:
        problems.append(f"(b) {fmt} netlister rejects it: {type(e).__name__}: {str(e)[:60]!r}")
try:
    h.from_proto(pkg)
except Exception as e:
    problems.append(f"(b) from_proto rejects it: {type(e).__name__}: {str(e)[:60]!r}")

# (c) physical primitive named "Mos" with two ports
fake = Primitive(name="Mos", desc="not the built-in", port_list=[h.Port(name="a"), h.Port(name="b")], paramtype=NoP, primtype=PrimitiveType.PHYSICAL)
pkg = h.to_proto(build(fake))
inst = pkg.modules[0].instances[0]
conns = sorted(c.portname for c in inst.connections)
print(f"(c) exported reference: {inst.module.external.domain}.{inst.module.external.name}, connections {conns}")
if conns != ["b", "d", "g", "s"]:
    problems.append(f"(c) instance of hdl21.primitives.Mos (ports d, g, s, b) connects {conns}")
try:
    h.from_proto(pkg)
except Exception as e:
    problems.append(f"(c) from_proto rejects it: {type(e).__name__}: {str(e)[:60]!r}")

if problems:
    print("VIOLATION of C06:")
    for p in problems:
        print("  -", p)
    sys.exit(1)
print("no violation")
sys.exit(0)
