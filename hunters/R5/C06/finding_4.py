"""C06 finding 4: from_proto refuses (or silently loses part of) well-formed packages because it rebuilds the dotted
module names as a tree of SimpleNamespaces, in which Modules, sub-namespaces and each namespace's own `name`
attribute share one attribute space.
 (a) A package `c06_pkg` whose `__init__` defines a Module named `cells`, and whose sub-module `c06_pkg.cells`
     defines a Module `Inv`: exported names `c06_pkg.cells` and `c06_pkg.cells.Inv` are unique, to_proto succeeds,
     from_proto raises `Invalid namespace path ... overwriting Module(name=cells)` (or, in the other order, silently
     replaces the namespace holding `Inv` by the Module).
 (b) Any Module defined in a Python module one of whose path segments is `name` (file `name.py`): every namespace
     has a string attribute `name`, so from_proto raises `Invalid namespace path ['c06_lib', 'name'] overwriting c06_lib`.
The same happens for user-given Module names containing dots, e.g. `h.Module(name="P")` and `h.Module(name="P.Q")`."""
import os, sys; sys.path.insert(0, os.getcwd())
import tempfile, importlib
import hdl21 as h

problems = []
tmp = tempfile.mkdtemp()
os.makedirs(os.path.join(tmp, "c06_pkg"))
os.makedirs(os.path.join(tmp, "c06_lib"))
cell = '''
import hdl21 as h
@h.module
class {name}:
    i, o = h.Ports(2)
    r = h.R(r=1000)(p=i, n=o)
'''
open(os.path.join(tmp, "c06_pkg", "__init__.py"), "w").write(cell.format(name="cells"))
open(os.path.join(tmp, "c06_pkg", "cells.py"), "w").write(cell.format(name="Inv"))
open(os.path.join(tmp, "c06_lib", "__init__.py"), "w").write("")
open(os.path.join(tmp, "c06_lib", "name.py"), "w").write(cell.format(name="Inv"))
sys.path.insert(0, tmp)
pkg_cells_module = importlib.import_module("c06_pkg").cells  # the hdl21 Module named `cells`
inv = importlib.import_module("c06_pkg.cells").Inv
inv2 = importlib.import_module("c06_lib.name").Inv

def well_formed(pkg):
    names = [m.name for m in pkg.modules]
    return len(set(names)) == len(names)

# (a)
for order, tops in (("cells first", [pkg_cells_module, inv]), ("Inv first", [inv, pkg_cells_module])):
    pkg = h.to_proto(tops)
    names = [m.name for m in pkg.modules]
    assert well_formed(pkg)
    try:
        ns = h.from_proto(pkg)
    except Exception as e:
        problems.append(f"(a, {order}) package {names}: from_proto raises {type(e).__name__}: {str(e)[:90]!r}")
        continue
    got = getattr(ns.c06_pkg, "cells", None)
    if not (isinstance(got, h.Module) or hasattr(got, "Inv")) or (isinstance(got, h.Module) and not hasattr(got, "Inv")):
        # one of the two modules is no longer reachable from the returned namespace
        problems.append(f"(a, {order}) package {names}: from_proto returns a namespace in which `c06_pkg.cells` is {got!r}; `c06_pkg.cells.Inv` was lost silently")

# (b)
pkg = h.to_proto(inv2)
print("(b) module names:", [m.name for m in pkg.modules])
try:
    h.from_proto(pkg)
except Exception as e:
    problems.append(f"(b) from_proto raises {type(e).__name__}: {str(e)[:90]!r}")

# (c) user-given dotted names
def mk(name):
    m = h.Module(name=name); m.a = h.Port(); m.r = h.R(r=1)(p=m.a, n=m.a); return m
pkg = h.to_proto([mk("P"), mk("P.Q")])
assert well_formed(pkg)
try:
    h.from_proto(pkg)
except Exception as e:
    problems.append(f"(c) modules {[m.name for m in pkg.modules]}: from_proto raises {type(e).__name__}: {str(e)[:90]!r}")

if problems:
    print("VIOLATION of C06 ('from_proto ... accept it'):")
    for p in problems:
        print("  -", p)
    sys.exit(1)
print("no violation")
sys.exit(0)
