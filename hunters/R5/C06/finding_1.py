"""C06 finding 1: an ExternalModule declared in one of the reserved primitive domains
("vlsir.primitives", "hdl21.primitives", "hdl21.ideal") is accepted and exported.
The package then holds an instance which (for every reader of the package) refers to the built-in
primitive of that name, but connects the ExternalModule's ports: ports of the primitive are left
unconnected and connections are made to ports it does not have. from_proto and both netlisters reject it."""
import os, sys; sys.path.insert(0, os.getcwd())
import io
import hdl21 as h
import vlsirtools
from vlsirtools import primitives as vprims

problems = []

def build(domain, name, ports):
    E = h.ExternalModule(name=name, domain=domain, port_list=[h.Port(name=p) for p in ports], paramtype=dict)
    m = h.Module(name=f"Top_{name}")
    m.s = h.Signal()
    m.i = E()(**{p: m.s for p in ports})
    return m

# (a) "vlsir.primitives.resistor" with ports a, b (the real one has p, n and a required parameter r)
pkg = h.to_proto(build("vlsir.primitives", "resistor", ["a", "b"]))
inst = pkg.modules[0].instances[0]
ref = inst.module.external
conn_ports = sorted(c.portname for c in inst.connections)
prim_ports = sorted(p.signal for p in vprims.dct["resistor"].ports)
print(f"(a) instance refers to {ref.domain}.{ref.name}; connects ports {conn_ports}; the primitive's ports are {prim_ports}")
if ref.domain == "vlsir.primitives" and conn_ports != prim_ports:
    problems.append("(a) instance of known primitive vlsir.primitives.resistor does not connect that target's ports")
for fmt in ("spice", "spectre"):
    try:
        vlsirtools.netlist(pkg=pkg, dest=io.StringIO(), fmt=fmt)
    except Exception as e:
        problems.append(f"(a) {fmt} netlister rejects the package: {type(e).__name__}: {str(e)[:80]}")
try:
    h.from_proto(pkg)
except Exception as e:
    problems.append(f"(a) from_proto rejects the package: {type(e).__name__}: {str(e)[:80]!r}")

# (b) "hdl21.primitives.Mos" with a single port x
pkg = h.to_proto(build("hdl21.primitives", "Mos", ["x"]))
inst = pkg.modules[0].instances[0]
conn_ports = sorted(c.portname for c in inst.connections)
print(f"(b) instance refers to {inst.module.external.domain}.{inst.module.external.name}; connects ports {conn_ports}; Mos has d, g, s, b")
if conn_ports != ["b", "d", "g", "s"]:
    problems.append("(b) instance of known primitive hdl21.primitives.Mos connects port 'x' only")
try:
    h.from_proto(pkg)
except Exception as e:
    problems.append(f"(b) from_proto rejects the package: {type(e).__name__}: {str(e)[:80]!r}")

# (c) an unknown name in the reserved domain: neither a declared-and-resolvable external module nor a known primitive
pkg = h.to_proto(build("vlsir.primitives", "foo", ["p", "n"]))
for fmt in ("spice", "spectre"):
    try:
        vlsirtools.netlist(pkg=pkg, dest=io.StringIO(), fmt=fmt)
    except Exception as e:
        problems.append(f"(c) {fmt} netlister rejects vlsir.primitives.foo: {type(e).__name__}: {str(e)[:60]!r}")
try:
    h.from_proto(pkg)
except Exception as e:
    problems.append(f"(c) from_proto rejects vlsir.primitives.foo: {type(e).__name__}: {str(e)[:80]!r}")

if problems:
    print("VIOLATION of C06 (instance refers to a known primitive but does not connect that target's ports; from_proto / netlisters reject):")
    for p in problems:
        print("  -", p)
    sys.exit(1)
print("no violation")
sys.exit(0)
