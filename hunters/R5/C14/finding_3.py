"""C14 finding 3: a Prefixed parameter whose Decimal mantissa prints in scientific notation is netlisted as a
malformed / silently different number ("1E-7e-1"), for every prefix that the netlisters write as an exponent
suffix (YOCTO, ZEPTO, CENTI, DECI, DECA, HECTO, EXA, ZETTA, YOTTA).

`hdl21.proto.exporting.export_prefixed` exports the mantissa as `str(number)`. Decimal's str() switches to
scientific notation for exponents > 0 or values below 1e-6, which are everyday results of `scale()` and of the
arithmetic operators (e.g. `(5*n).scale(Y)` is `5E-33*YOTTA`, `1e-7 * DECI` is `1E-7*DECI`). The netlist writers
append the prefix as text, giving "1E-7e-1": SPICE-class readers take the "e-1" as a unit suffix and use 1e-7
(ten times the value), or reject the token. (The exponent-suffix concatenation is in vlsirtools, the choice of a
mantissa text that cannot take a suffix is Hdl21's.)
"""
import os, sys; sys.path.insert(0, os.getcwd())
import io, re
from decimal import Decimal as D
import hdl21 as h
from hdl21.prefix import Prefix, Prefixed

cases = {
    "r0": (D("1E-7") * Prefix.DECI, D("1E-8")),
    "r1": (1e-7 * Prefix.CENTI, D("1E-9")),
    "r2": (Prefixed.new(D("1.5E-7"), Prefix.HECTO), D("1.5E-5")),
    "r3": (D("1.5E+20") * Prefix.DECA, D("1.5E+21")),
    "r4": ((5 * Prefix.NANO).scale(Prefix.YOTTA), D("5E-9")),  # 5E-33*YOTTA (YOTTA itself is also written "e19" by vlsirtools, not counted here)
    "r5": (D("2.5E-7") * Prefix.KILO, D("2.5E-4")),     # letter suffix: "2.5E-7K" is fine
}

@h.module
class M:
    a, b = h.Signals(2)
for name, (v, _) in cases.items():
    M.add(h.R(r=v)(p=M.a, n=M.b), name=name)

s = io.StringIO(); h.netlist(M, s, fmt="spice"); text = s.getvalue()
lines = [l.strip() for l in text.splitlines()]
SUFFIX = {"a": -18, "f": -15, "p": -12, "n": -9, "u": -6, "m": -3, "K": 3, "M": 6, "G": 9, "T": 12, "P": 15, "": 0}
NUM = re.compile(r"^\+ ([-+]?(?:\d+\.?\d*|\.\d+)(?:[eE][-+]?\d+)?)([afpnumKMGTP]?)$")
problems = []
for name, (v, exact) in cases.items():
    i = lines.index("r" + name)            # the instance line; the value follows the ports line
    tok = lines[i + 2]
    mm = NUM.match(tok)
    if not mm:
        problems.append(f"{name}: r={v!r} (exactly {exact}) is written as '{tok[2:]}', which is not a number")
    elif D(mm.group(1)).scaleb(SUFFIX[mm.group(2)]) != exact:
        problems.append(f"{name}: r={v!r} (exactly {exact}) is written as '{tok[2:]}'")
if problems:
    print("VIOLATION of C14 ('conversion of prefixed numbers return[s] exactly the decimal result ... for any combination of the 21 prefixes'), observed in the SPICE netlist:")
    for p in problems: print("  -", p)
    sys.exit(1)
print("ok")
