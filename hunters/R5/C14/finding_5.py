"""C14 finding 5 (accepted ill-formed input, silently wrong result): misspelt or mistyped prefix arguments are
silently dropped, so the number built / returned is not the one asked for.

 - `Prefixed(number=1, prefx=KILO)` (misspelt keyword) is 1*UNIT - a factor 1000 off - because the model ignores
   unknown keyword arguments (the paramclasses reject them again since 73beb9f, `Prefixed` does not).
 - `x.scale(3)`, `x.scale("MEGA")`, `x.scale(e(6))`, `x.scale(K*K)`: anything that is not a `Prefix` is taken as
   "no prefix given" and the number is auto-scaled instead of rescaled to the requested prefix (or rejected).
 - `Prefixed.new(1, True)` is 1*DECA (True == 1).
"""
import os, sys; sys.path.insert(0, os.getcwd())
from decimal import Decimal as D
import hdl21
from hdl21.prefix import Prefix, Prefixed, e, K

problems = []
def attempt(label, f, acceptable):
    try:
        r = f()
    except Exception as ex:
        return  # a loud rejection is fine
    if not acceptable(r):
        problems.append(f"{label} -> {r!r}")

attempt("Prefixed(number=1, prefx=Prefix.KILO)", lambda: Prefixed(number=1, prefx=Prefix.KILO), lambda r: float(r) == 1000.0)
attempt("Prefixed(number=1, Prefix=Prefix.KILO)", lambda: Prefixed(number=1, Prefix=Prefix.KILO), lambda r: float(r) == 1000.0)
x = 1 * Prefix.KILO
attempt("(1*KILO).scale(6)", lambda: x.scale(6), lambda r: r.prefix == Prefix.MEGA)
attempt("(1*KILO).scale('MEGA')", lambda: x.scale("MEGA"), lambda r: r.prefix == Prefix.MEGA)
attempt("(1*KILO).scale(e(6))", lambda: x.scale(e(6)), lambda r: r.prefix == Prefix.MEGA)
attempt("(1*KILO).scale(K*K)", lambda: x.scale(K * K), lambda r: r.prefix == Prefix.MEGA)
attempt("Prefixed.new(1, True)", lambda: Prefixed.new(1, True), lambda r: False)
if problems:
    print("VIOLATION (ill-formed input accepted silently; C14 'rescaling and conversion ... return exactly the decimal result'):")
    for p in problems: print("  -", p)
    sys.exit(1)
print("ok")
