"""C14 finding 1: the comparison tolerance grows with the operands' prefix.

Comparisons scale both operands to the smaller of the two PREFIXES and round the *mantissas* to 20 decimal places.
When both prefixes are above UNIT (DECA ... YOTTA) the tolerance is therefore 1e-20 * 10**prefix - up to 1e+4 for two
YOTTA numbers - instead of the documented 1e-20: numbers whose exact values differ by far more than 1e-20 compare equal
(and are neither < nor >), the order is not transitive, and equal-comparing numbers hash differently.
"""
import os, sys; sys.path.insert(0, os.getcwd())
import itertools
from decimal import Decimal as D, Context, MAX_PREC, MAX_EMAX, MIN_EMIN
import hdl21
from hdl21.prefix import Prefix, Prefixed

X = Context(prec=MAX_PREC, Emax=MAX_EMAX, Emin=MIN_EMIN)
def val(p): return X.scaleb(p.number, p.prefix.value)
TOL = D("1e-20")
problems = []

# (a) Directed: one kilo-unit and two kilo-units, both rescaled (exactly) to YOTTA
K, Y, U = Prefix.KILO, Prefix.YOTTA, Prefix.UNIT
a = Prefixed.new(1, K).scale(Y)   # 1E-21*YOTTA, exactly 1000
b = Prefixed.new(2, K).scale(Y)   # 2E-21*YOTTA, exactly 2000
assert val(a) == 1000 and val(b) == 2000
if a == b or not (a < b) or not (b > a) or not (a != b):
    problems.append(f"{a} (=1000) vs {b} (=2000): ==:{a == b} <:{a < b} >:{a > b} !=:{a != b}  hash equal: {hash(a) == hash(b)}")
zero = Prefixed.new(0, Y)
if a <= zero or not (a > zero):
    problems.append(f"{a} (=1000) <= {zero}: {a <= zero}; > : {a > zero}")
# not transitive / not an equivalence
one_k, two_k = Prefixed.new(1, K), Prefixed.new(2, K)
if (a == one_k) and (a == b) and (b == two_k) and (one_k != two_k):
    problems.append(f"1*KILO == {a} == {b} == 2*KILO, but 1*KILO != 2*KILO")

# (b) Directed: 22 significant digits, same prefix KILO, exact difference 1e-18 > 1e-20
c = Prefixed.new(D("1.000000000000000000001"), K)
d = Prefixed.new(D("1.000000000000000000002"), K)
if abs(val(c) - val(d)) > TOL and (c == d or not c < d):
    problems.append(f"{c} vs {d}: exact difference {abs(val(c)-val(d))} > 1e-20 but ==:{c == d} <:{c < d}")

# (c) Exhaustive over ordered prefix pairs: values differing by 3e-20 (3x the tolerance)
count = 0; pairs = set()
for p1, p2 in itertools.product(Prefix, Prefix):
    x = Prefixed.new(X.scaleb(D("1"), -p1.value), p1)                      # exactly 1
    y = Prefixed.new(X.scaleb(D("1.00000000000000000003"), -p2.value), p2)  # exactly 1 + 3e-20
    assert val(y) - val(x) == D("3e-20")
    if (x == y) or not (x < y) or not (y > x) or (x >= y):
        count += 1; pairs.add((p1.name, p2.name))
if count:
    problems.append(f"{count} of 441 ordered prefix pairs treat 1 and 1+3e-20 as equal, e.g. {sorted(pairs)[:4]} ... (all pairs with both prefixes above UNIT)")

if problems:
    print("VIOLATION of C14 ('agrees with the comparison of their exact values whenever they differ by more than the documented 1e-20 tolerance'):")
    for p in problems: print("  -", p)
    sys.exit(1)
print("ok")
