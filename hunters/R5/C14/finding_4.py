"""C14 finding 4 (a case repair a84a146 missed): `==` / `!=` between a Prefixed number and a non-finite number, or a
string spelling one, raise pydantic's ValidationError instead of returning False / True.

`Prefixed.__eq__` catches InvalidOperation and RuntimeError from the conversion of the other operand, but the
conversion goes through `Prefixed(number=...)`, whose pydantic validation rejects NaN / Infinity with a
ValidationError (a ValueError). So `x == "abc"` is False but `x == "nan"`, `x == "inf"`, `x == float("inf")`,
`x == Decimal("Infinity")` and `x in [float("nan")]` raise.
"""
import os, sys; sys.path.insert(0, os.getcwd())
from decimal import Decimal as D
import hdl21
from hdl21.prefix import Prefix, Prefixed

x = 1 * Prefix.KILO
assert (x == "abc") is False and (x != "abc") is True and (x == None) is False   # the repaired cases
problems = []
for other in ["nan", "inf", "-Infinity", "sNaN", float("inf"), float("nan"), D("Infinity"), D("NaN")]:
    for name, op in [("==", lambda: x == other), ("!=", lambda: x != other), ("in", lambda: x in [other]), ("reflected ==", lambda: other == x)]:
        try:
            r = op()
            if name in ("==", "in", "reflected ==") and r is not False: problems.append(f"{x} {name} {other!r} -> {r}")
        except Exception as ex:
            problems.append(f"{x} {name} {other!r} raises {type(ex).__name__}")
if problems:
    print("VIOLATION (C14: comparisons never raise; commit a84a146: '== / != with a non-number return False / True'):")
    for p in problems[:12]: print("  -", p)
    print(f"  ... {len(problems)} raising combinations in all")
    sys.exit(1)
print("ok")
