"""C14 finding 2: comparing two finite Prefixed numbers raises MemoryError (or, for somewhat smaller exponents,
allocates gigabytes and takes seconds to minutes) when a mantissa has a large positive exponent.

Every comparison operator first *materialises* both operands to 20 decimal places (`_round` -> `quantize(..., 1E-20)`),
so `1E+N` needs N+20 digits of storage, although the two Decimals could be compared directly in O(1).
hash(), int-free arithmetic and the export of the same numbers work (fix fbadc3d handled the export only).
"""
import os, sys; sys.path.insert(0, os.getcwd())
import resource, time
# Safety net only: never let this script eat the machine. (The big case below fails immediately even without it.)
try: resource.setrlimit(resource.RLIMIT_AS, (6 * 2**30, 6 * 2**30))
except Exception: pass
from decimal import Decimal as D
import hdl21
from hdl21.prefix import Prefix, Prefixed

problems = []
one = Prefixed.new(D(1), Prefix.UNIT)
big = Prefixed.new(D("1E+999999999999999"), Prefix.KILO)   # finite, one significant digit, accepted by Prefixed
hash(big); str(big); -big; abs(big); big.scale(Prefix.MEGA)  # all fine
for name, op in [("<", lambda: big < one), ("<=", lambda: big <= one), ("==", lambda: big == one), ("!=", lambda: big != one),
                 (">=", lambda: big >= one), (">", lambda: big > one), ("== itself", lambda: big == big)]:
    try:
        op()
    except BaseException as ex:
        problems.append(f"{big} {name} ... raises {type(ex).__name__}")

# A smaller exponent does not raise but shows the cost: ~0.5 s and ~0.5 GB for one comparison
mid = Prefixed.new(D("1E+300000000"), Prefix.UNIT)
t = time.time(); r = mid > one; dt = time.time() - t
if dt > 0.05:
    problems.append(f"1E+300000000*UNIT > 1*UNIT took {dt:.2f} s (result {r}); Decimal('1E+300000000') > 1 takes microseconds")

if problems:
    print("VIOLATION of C14 ('Comparing any two finite prefixed numbers never raises'):")
    for p in problems: print("  -", p)
    sys.exit(1)
print("ok")
