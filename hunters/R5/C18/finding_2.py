"""C18 finding 2: Bundle.__setattr__ / Bundle.add take objects that are attributes of a Module - even of an
ELABORATED Module - and rename them in place. The Module's namespace then says `a`, the object (and the export) say `x`."""
import os, sys; sys.path.insert(0, os.getcwd())
import hdl21 as h

child = h.Module(name="Child"); child.a = h.Input()
parent = h.Module(name="Parent"); parent.z = h.Signal(); parent.i = child(a=parent.z)
h.elaborate(parent)                      # Child and Parent are elaborated: no more edits

B = h.Bundle(name="B")
try:
    B.x = child.a                        # an edit of Child through the back door
except RuntimeError as e:
    print("OK: refused:", e); sys.exit(0)

problems = []
o = child.get("a")
if o is None or o.name != "a":
    problems.append(f"Child.get('a') is an object named {getattr(o,'name',None)!r}")
pkg = h.to_proto(parent)
mods = {x.name.split(".")[-1]: x for x in pkg.modules}
child_ports = [p.signal for p in mods["Child"].ports]
conn_ports = [c.portname for c in mods["Parent"].instances[0].connections]
if sorted(child_ports) != sorted(conn_ports):
    problems.append(f"exported Child has ports {child_ports} but Parent.i connects ports {conn_ports}")
if problems:
    print("VIOLATION (names coherent; edits after elaboration rejected):")
    for p in problems: print("  -", p)
    sys.exit(1)
sys.exit(0)
