"""C18 finding 9 (minor): h.Bundle(name=...) does not validate its name; h.Module(name=...) and `B.name = ...` do."""
import os, sys; sys.path.insert(0, os.getcwd())
import hdl21 as h
problems = []
for bad in (5, h.Signal(), ["x"]):
    try:
        h.Module(name=bad); problems.append(f"Module(name={bad!r}) accepted")
    except TypeError:
        pass
    try:
        b = h.Bundle(name=bad)
        problems.append(f"Bundle(name={bad!r:.30}) accepted; .name = {b.name!r:.40}")
    except TypeError:
        pass
    b = h.Bundle(name="ok")
    try:
        b.name = bad; problems.append(f"B.name = {bad!r} accepted")
    except TypeError:
        pass
if problems:
    print("VIOLATION (non-HDL / ill-typed values rejected; the name of a Bundle holds a Signal):")
    for q in problems: print("  -", q)
    sys.exit(1)
sys.exit(0)
