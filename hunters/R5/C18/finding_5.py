"""C18 finding 5: a Bundle definition from which modules were built THROUGH AN INSTANCE BUNDLE (h.Pair-style
InstanceBundleType) still accepts additions after elaboration: only BundleFlattener marks definitions."""
import os, sys; sys.path.insert(0, os.getcwd())
import hdl21 as h

def insts(m):
    pkg = h.to_proto(m)
    top = [x for x in pkg.modules if x.name.split(".")[-1] == m.name][0]
    return sorted(i.name for i in top.instances)

Leaf = h.Module(name="Leaf"); Leaf.x = h.Port()
Rgb = h.Bundle(name="Rgb"); Rgb.r = h.Signal(); Rgb.g = h.Signal()
Triple = h.InstanceBundleType("Triple", Rgb)

m1 = h.Module(name="M1"); m1.s = h.Signal(); m1.t = Triple(Leaf)(x=m1.s)
i1 = insts(m1)                                   # ['t_g', 't_r']  - M1 is built from Rgb's members
try:
    Rgb.b = h.Signal()
except RuntimeError as e:
    print("OK: refused:", e); sys.exit(0)
m2 = h.Module(name="M2"); m2.s = h.Signal(); m2.t = Triple(Leaf)(x=m2.s)
i2 = insts(m2)
print("VIOLATION (additions after elaboration are rejected):")
print(f"  - `Rgb.b = h.Signal()` accepted after M1 was elaborated and exported from Rgb")
print(f"  - identical definitions M1 / M2 export instances {i1} / {i2}")
sys.exit(1)
