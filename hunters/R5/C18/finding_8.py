"""C18 finding 8: non-HDL values under public names in a class body are silently dropped by @h.module and
@h.bundle, whereas the procedural equivalents raise TypeError (with a helpful 'did you mean to call it' message).
The docstring of h.module promises the TypeError."""
import os, sys; sys.path.insert(0, os.getcwd())
import hdl21 as h

Leaf = h.Module(name="Leaf"); Leaf.x = h.Port()
junk = dict(i=Leaf, pair=h.Signals(2), k=h.Signal, n=5, nc=h.NoConn())

problems = []
# procedural: every one is refused
for key, val in junk.items():
    for mk in (lambda: h.Module(name="P"), lambda: h.Bundle(name="P")):
        c = mk()
        try:
            setattr(c, key, val)
            problems.append(f"procedural {type(c).__name__}.{key} = {val!r:.40} accepted")
        except TypeError:
            pass
# class-style
try:
    @h.module
    class M:
        a = h.Port()
        i = Leaf                # forgot to call: no instance
        pair = h.Signals(2)     # forgot to unpack: no signals
        k = h.Signal            # forgot the parens
        n = 5
        nc = h.NoConn()
    problems.append(f"@h.module accepted a body with {sorted(junk)}; module has only {list(M.namespace)}")
except TypeError:
    pass
try:
    @h.bundle
    class B:
        a = h.Signal()
        i = Leaf
        pair = h.Signals(2)
        k = h.Signal
    problems.append(f"@h.bundle accepted a body with i, pair, k; bundle has only {list(B.namespace)}")
except TypeError:
    pass
if problems:
    print("VIOLATION (non-HDL values are rejected; class-style equals procedural):")
    for q in problems: print("  -", q)
    sys.exit(1)
sys.exit(0)
