"""C18 finding 7: with a re-used name, a class-style definition and the same assignments made procedurally give
different modules (port ORDER differs: positional in SPICE netlists), and the kind-specific view disagrees with
`namespace` about the order."""
import os, sys; sys.path.insert(0, os.getcwd())
import hdl21 as h

@h.module
class M:
    a = h.Port()
    b = h.Port()
    a = h.Port(width=2)     # name re-used

P = h.Module(name="M")
P.a = h.Port()
P.b = h.Port()
P.a = h.Port(width=2)

problems = []
if list(P.ports) != list(k for k in P.namespace if k in P.ports):
    problems.append(f"procedural: namespace order {list(P.namespace)} but ports order {list(P.ports)}")
pc = [(p.signal) for p in h.to_proto(M).modules[0].ports]
pp = [(p.signal) for p in h.to_proto(P).modules[0].ports]
if pc != pp:
    problems.append(f"exported port order: class-style {pc}, procedural {pp}")
if problems:
    print("VIOLATION (a class-style definition equals the equivalent procedural one; views agree):")
    for q in problems: print("  -", q)
    sys.exit(1)
sys.exit(0)
