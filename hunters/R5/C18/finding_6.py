"""C18 finding 6: the ports view does not follow a Signal's visibility. Re-assigning a Signal whose visibility
was changed since puts ONE object in BOTH `ports` and `signals` (exported twice); without the re-assignment
a port-visible Signal is not listed (nor exported) as a port."""
import os, sys; sys.path.insert(0, os.getcwd())
import hdl21 as h
from hdl21 import Visibility

problems = []
m = h.Module(name="M")
s = h.Signal()
m.a = s
s.vis = Visibility.PORT          # the designer decides `a` is a port after all ...
if ("a" in m.ports) != (m.a.vis == Visibility.PORT):
    problems.append(f"after `s.vis = PORT`: vis={m.a.vis.name} but ports={list(m.ports)} signals={list(m.signals)}")
m.a = s                          # ... and says so again: same name, same object
if "a" in m.ports and "a" in m.signals:
    problems.append(f"after re-assigning `m.a = s`: `a` is in BOTH views: ports={list(m.ports)} signals={list(m.signals)}")
pkg = h.to_proto(m)
names = [x.name for x in pkg.modules[0].signals]
if len(names) != len(set(names)):
    problems.append(f"exported module declares signals {names}")

# the other direction
m2 = h.Module(name="M2"); p = h.Port(); m2.a = p; p.vis = Visibility.INTERNAL; m2.a = p
if "a" in m2.ports:
    problems.append(f"internal Signal listed as port: ports={list(m2.ports)} signals={list(m2.signals)}; exported ports "
                    f"{[q.signal for q in h.to_proto(m2).modules[0].ports]}")
if problems:
    print("VIOLATION (a signal is listed as a port exactly when it has port visibility; one name - one view):")
    for q in problems: print("  -", q)
    sys.exit(1)
sys.exit(0)
