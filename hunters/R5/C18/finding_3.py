"""C18 finding 3: Module.__setattr__ / Module.add (and another Bundle) take objects that are members of a Bundle
definition - even an ELABORATED one - and rename them in place. Bundle flattening names the flat signals after
`sig.name`, so modules built from the Bundle afterwards get other port names than the ones built before."""
import os, sys; sys.path.insert(0, os.getcwd())
import hdl21 as h

def ports(m):
    pkg = h.to_proto(m)
    return {x.name.split(".")[-1]: [p.signal for p in x.ports] for x in pkg.modules}

B = h.Bundle(name="B"); B.a = h.Signal(); B.c = h.Signal()
t1 = h.Module(name="T1"); t1.b = B(port=True)
before = ports(t1)["T1"]                 # ['b_a', 'b_c']; B is now "elaborated" and takes no additions

m = h.Module(name="M")
try:
    m.q = B.a                            # accepted: member `a` of B is now an object named `q`
except RuntimeError as e:
    print("OK: refused:", e); sys.exit(0)

problems = []
if B.get("a").name != "a":
    problems.append(f"B.get('a') is an object named {B.get('a').name!r}")
t2 = h.Module(name="T2"); t2.b = B(port=True)
after = ports(t2)["T2"]
if sorted(after) != sorted(before):
    problems.append(f"a module built from B before has ports {before}, one built after has {after}")
t3 = h.Module(name="T3"); t3.b = B(); t3.i = t1(b=t3.b)
try:
    h.to_proto(t3)
except RuntimeError as e:
    problems.append("connecting B to the B-port of the earlier module now fails: " + str(e).strip().splitlines()[-1])
if problems:
    print("VIOLATION (names coherent; a definition that modules were built from is edited):")
    for p in problems: print("  -", p)
    sys.exit(1)
sys.exit(0)
