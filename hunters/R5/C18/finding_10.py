"""C18 finding 10: a Bundle accepts an instance of ITSELF (directly or through another Bundle) as a member;
elaboration of any module using it dies with a bare RecursionError. (Modules instantiating themselves get a
descriptive 'circular dependency' error.)"""
import os, sys; sys.path.insert(0, os.getcwd())
import hdl21 as h
B = h.Bundle(name="B"); B.a = h.Signal()
try:
    B.sub = B()
except RuntimeError as e:
    print("OK: refused:", e); sys.exit(0)
m = h.Module(name="M"); m.b = B(port=True)
try:
    h.to_proto(m)
except RecursionError as e:
    print("VIOLATION: `B.sub = B()` accepted; elaboration:", type(e).__name__, e)
    sys.exit(1)
except RuntimeError as e:
    print("OK: descriptive error:", str(e).strip().splitlines()[-1]); sys.exit(0)
sys.exit(0)
