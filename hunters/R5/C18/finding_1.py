"""C18 finding 1: one object ends up under TWO names of one Module (duplicate names exported),
by letting another container rename it in between. Only Module attribute assignments are used."""
import os, sys; sys.path.insert(0, os.getcwd())
import hdl21 as h

m = h.Module(name="M")
other = h.Module(name="Other")   # (a h.Bundle works just as well)
s = h.Port()

m.a = s          # `s` is attribute `a` of M
other.x = s      # accepted: `s` is renamed `x`, M still lists it under `a`
try:
    m.b = s      # the "already is its attribute" check looks under the CURRENT name `x` only -> accepted
except RuntimeError as e:
    print("OK: second name refused:", e)
    sys.exit(0)

problems = []
if m.get("a") is m.get("b"):
    problems.append(f"M.get('a') and M.get('b') are the same object, named {m.get('a').name!r}")
if list(m.ports) != ["b"]:
    problems.append(f"M.ports lists {list(m.ports)} for a single Port object")
pkg = h.to_proto(m)
pm = [x for x in pkg.modules if x.name.endswith("M")][0]
portnames = [p.signal for p in pm.ports]
signames = [x.name for x in pm.signals]
if len(set(portnames)) != len(portnames) or len(set(signames)) != len(signames):
    problems.append(f"exported module declares ports {portnames} and signals {signames}: duplicate names")
if problems:
    print("VIOLATION (each name denotes exactly one object / one object has one name):")
    for p in problems: print("  -", p)
    sys.exit(1)
sys.exit(0)
