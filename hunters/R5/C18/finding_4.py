"""C18 finding 4: an HDL value assigned to an underscore name of a Bundle - procedurally or in an @h.bundle class
body - is silently lost. Module refuses both (repair 506b3aa); the Bundle repair a7107cd covered add() only."""
import os, sys; sys.path.insert(0, os.getcwd())
import hdl21 as h

problems = []
B = h.Bundle(name="B")
try:
    B._x = h.Signal()
    problems.append(f"`B._x = h.Signal()` accepted; B.get('_x') = {B.get('_x')}, namespace = {list(B.namespace)}")
except RuntimeError:
    pass
try:
    B._sub = h.Diff()
    problems.append(f"`B._sub = h.Diff()` accepted; namespace = {list(B.namespace)}")
except RuntimeError:
    pass
try:
    @h.bundle
    class BB:
        a = h.Signal()
        _b = h.Signal()
    problems.append(f"class-body `_b = h.Signal()` accepted; members = {list(BB.namespace)}")
except RuntimeError:
    pass

# For reference: Module refuses the same
for f in (lambda: setattr(h.Module(name="m"), "_x", h.Signal()),):
    try:
        f(); problems.append("(Module accepted it too)")
    except RuntimeError:
        pass

if problems:
    m = h.Module(name="Top"); m.b = B(port=True)
    pkg = h.to_proto(m)
    print("exported ports of a module with a `B` port:", [p.signal for p in pkg.modules[0].ports])
    print("VIOLATION (an assigned HDL value is neither a member nor rejected):")
    for p in problems: print("  -", p)
    sys.exit(1)
sys.exit(0)
