"""C17 finding 3: fields of sim attributes are validated by their constructors only. A value assigned to
the field afterwards (`tran.tstop = None`, `opt.value = None`, `inc.path = None` ...) which the constructor
refuses is not refused by the exporter either: it is silently exported as a different, well-formed-looking
entry (tstop 0.0, a value-less option / param, the include path "None", a sweep point 0.0)."""
import os, sys; sys.path.insert(0, os.getcwd())
import hdl21 as h
import hdl21.sim as hs
from hdl21.sim import Sim, Tran, Options, Param, Include, Dc, LinearSweep, to_proto

def mk(n):
    t = hs.tb(n); t.x = h.Signal(); t.r = h.R(r=1)(p=t.x, n=t.VSS); return t

# The constructors refuse all of these
for label, f in [
    ("Tran(tstop=None)", lambda: Tran(tstop=None)),
    ("Options(value=None)", lambda: Options(value=None, name="reltol")),
    ("Param(val=None)", lambda: Param(name="p", val=None)),
    ("Include(path=None)", lambda: Include(path=None)),
    ("LinearSweep(start=None)", lambda: LinearSweep(start=None, stop=1, step=1)),
]:
    try:
        f(); print(f"note: constructor accepted {label}")
    except Exception as e:
        print(f"constructor refuses {label} ({type(e).__name__})")

s = Sim(tb=mk("f3_tb"))
tr = s.tran(tstop=1e-9, name="tr"); tr.tstop = None
op = s.options(value=1e-6, name="reltol"); op.value = None
pa = s.param(name="p", val=5); pa.val = None
inc = s.include("/models/a.sp"); inc.path = None
dc = s.dc(var="p", sweep=LinearSweep(1, 2, 1), name="dc"); dc.sweep.start = None

bad = []
try:
    p = to_proto(s)
except Exception as e:
    print(f"ok: export rejected the edited Sim ({type(e).__name__}: {str(e)[:80]})")
    sys.exit(0)

tran = p.an[0].tran
if tran.tstop == 0.0:
    bad.append(f"tran.tstop = None exported as tstop={tran.tstop}")
if not p.opts[0].HasField("value"):
    bad.append(f"options.value = None exported as option {p.opts[0].name!r} without a value")
par = [c.param for c in p.ctrls if c.WhichOneof('ctrl') == 'param'][0]
if not par.HasField("value"):
    bad.append(f"param.val = None exported as param {par.name!r} without a value")
incl = [c.include for c in p.ctrls if c.WhichOneof('ctrl') == 'include'][0]
if incl.path == "None":
    bad.append(f"include.path = None exported as path {incl.path!r}")
lin = p.an[1].dc.sweep.linear
if lin.start == 0.0:
    bad.append(f"sweep.start = None exported as start={lin.start} (stop={lin.stop}, step={lin.step})")
for b in bad:
    print("BAD ", b)
if bad:
    print("\nVIOLATION: values the constructors refuse are accepted through attribute assignment and exported as other values")
    sys.exit(1)
sys.exit(0)
