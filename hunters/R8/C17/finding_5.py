"""C17 finding 5 (low): non-finite numbers are refused by the Scalar fields (`Tran(tstop=float('inf'))` is a
ValidationError: "Input should be a finite number"), but a finite Prefixed beyond the float range
(Decimal('1e400'), "1e400", 10**400, 1e300 * YOTTA * YOTTA) is accepted and exported as the float `inf`,
which is not a float "nearest" anything and not a usable stop time / sweep bound."""
import os, sys, math; sys.path.insert(0, os.getcwd())
from decimal import Decimal
import hdl21 as h
import hdl21.sim as hs
from hdl21.sim import Sim, Tran, Ac, LogSweep, Dc, PointSweep, to_proto

try:
    Tran(tstop=float("inf")); print("note: constructor accepts inf")
except Exception as e:
    print(f"constructor refuses float('inf'): {type(e).__name__}")

t = hs.tb("f5_tb"); t.x = h.Signal(); t.r = h.R(r=1)(p=t.x, n=t.VSS)
s = Sim(tb=t, attrs=[
    Tran(tstop=Decimal("1e400"), name="a"),
    Tran(tstop="1e400", name="b"),
    Tran(tstop=10**400, name="c"),
    Tran(tstop=h.Prefixed(number=Decimal("1e300"), prefix=h.prefix.Prefix.YOTTA), name="d"),
    Ac(sweep=LogSweep(1, Decimal("-1e400"), 10), name="e"),
    Dc(var="v", sweep=PointSweep([1, "1e999"]), name="f"),
])
try:
    p = to_proto(s)
except Exception as e:
    print(f"ok: rejected ({type(e).__name__}: {str(e)[:100]})"); sys.exit(0)
vals = [("tran a tstop", p.an[0].tran.tstop), ("tran b tstop", p.an[1].tran.tstop), ("tran c tstop", p.an[2].tran.tstop),
        ("tran d tstop", p.an[3].tran.tstop), ("ac e fstop", p.an[4].ac.fstop), ("dc f points[1]", p.an[5].dc.sweep.points.points[1])]
bad = [(k, v) for k, v in vals if not math.isfinite(v)]
for k, v in bad:
    print(f"BAD  {k} exported as {v}")
if bad:
    print("\nVIOLATION: finite (if absurd) inputs are exported as non-finite floats, which the fields themselves refuse as input")
    sys.exit(1)
sys.exit(0)
