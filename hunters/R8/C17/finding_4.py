"""C17 finding 4: the repair which refuses *unnamed* Signals / Instances as Save / Noise targets
("exported as empty names") is not reached by the other documented target forms: an empty list of
Signals, an empty list of names, an empty name, a list with an empty name, and an empty
`input_source` / `output` name all export an entry with an EMPTY target name."""
import os, sys; sys.path.insert(0, os.getcwd())
import hdl21 as h
import hdl21.sim as hs
from hdl21.sim import Sim, Save, Noise, LogSweep, to_proto

def mk(n):
    t = hs.tb(n); t.x = h.Signal(); t.v = h.V(dc=1)(p=t.x, n=t.VSS); return t

bad = []
def check(label, mkattr):
    t = mk("f4_" + str(len(bad)) + label.split()[0])
    try:
        p = to_proto(Sim(tb=t, attrs=[mkattr(t)]))
    except Exception as e:
        print(f"ok   {label}: rejected ({type(e).__name__})"); return
    empties = []
    for c in p.ctrls:
        if c.save.WhichOneof("save") == "signal" and "" in c.save.signal.split(","):
            empties.append(f"save.signal={c.save.signal!r}")
    for a in p.an:
        if a.noise.output_p == "": empties.append("noise.output_p=''")
        if a.noise.input_source == "": empties.append("noise.input_source=''")
    if empties:
        bad.append(label); print(f"BAD  {label}: exported {empties}")
    else:
        print(f"ok   {label}")

check("control: unnamed Signal", lambda t: Save(h.Signal()))
check("Save([]) (empty list of Signals / names)", lambda t: Save([]))
check("Save('')", lambda t: Save(""))
check("Save(['x', ''])", lambda t: Save(["x", ""]))
check("Noise(output='')", lambda t: Noise(output="", input_source=t.v, sweep=LogSweep(1, 10, 2)))
check("Noise(output=(t.x, ''))  [exports a single-ended output]", lambda t: Noise(output=(t.x, ""), input_source=t.v, sweep=LogSweep(1, 10, 2)))
check("Noise(input_source='')", lambda t: Noise(output=t.x, input_source="", sweep=LogSweep(1, 10, 2)))

if bad:
    print(f"\nVIOLATION: {len(bad)} forms export a Save / Noise entry with an empty target name")
    sys.exit(1)
sys.exit(0)
