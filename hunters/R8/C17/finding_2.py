"""C17 finding 2: Noise(input_source=<Instance>) exports the Instance's name without checking that the
Instance is one of the testbench: a source inside the DUT, in another testbench, or never added to any
Module is exported as `input_source` of a testbench which has no such instance.
(The same repair refuses Signals of other Modules as outputs.)"""
import os, sys; sys.path.insert(0, os.getcwd())
import hdl21 as h
import hdl21.sim as hs
from hdl21.sim import Sim, Noise, LogSweep, to_proto

def dut():
    m = h.Module(name="f2_dut"); m.VSS = h.Port(); m.inp = h.Signal()
    m.vin = h.V(dc=1)(p=m.inp, n=m.VSS)
    m.r = h.R(r=1)(p=m.inp, n=m.VSS)
    return m

bad = []
def check(label, tbm, src):
    try:
        p = to_proto(Sim(tb=tbm, attrs=[Noise(output=tbm.x, input_source=src, sweep=LogSweep(1, 10, 2))]))
    except Exception as e:
        print(f"ok   {label}: rejected ({type(e).__name__})"); return
    top = [m for m in p.pkg.modules if m.name == p.top][0]
    insts = {i.name for i in top.instances}
    got = p.an[0].noise.input_source
    if got not in insts:
        bad.append(label); print(f"BAD  {label}: input_source={got!r}, but the instances of {p.top} are {sorted(insts)}")
    else:
        print(f"ok   {label}")

d = dut()
t = hs.tb("f2_tb"); t.x = h.Signal(); t.dut = d(VSS=t.VSS); t.r = h.R(r=1)(p=t.x, n=t.VSS)
check("source Instance inside the DUT", t, d.vin)

t2 = hs.tb("f2_tb2"); t2.x = h.Signal(); t2.r = h.R(r=1)(p=t2.x, n=t2.VSS)
o = hs.tb("f2_other"); o.x = h.Signal(); o.vsrc = h.V(dc=1)(p=o.x, n=o.VSS)
check("source Instance of another testbench", t2, o.vsrc)

t3 = hs.tb("f2_tb3"); t3.x = h.Signal(); t3.r = h.R(r=1)(p=t3.x, n=t3.VSS)
loose = h.V(dc=1)(); loose.name = "vloose"
check("source Instance never added to a Module", t3, loose)

t4 = hs.tb("f2_tb4"); t4.x = h.Signal(); t4.vs = h.V(dc=1)(p=t4.x, n=t4.VSS)
check("control: source Instance of the testbench", t4, t4.vs)

if bad:
    print(f"\nVIOLATION: Noise.input_source names an Instance that the testbench does not have ({len(bad)} routes)")
    sys.exit(1)
sys.exit(0)
