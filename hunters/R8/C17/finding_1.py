"""C17 finding 1: Save / Noise targets which are Signals, but NOT members of the testbench, are exported
as if they were - whenever the Signal has no `_parent_module` (never added to a Module, replaced in the
testbench by another attribute of the same name, a Signal of a Bundle definition, a port of a Primitive).
The repair f3c6164 refuses Signals of *other Modules* only."""
import os, sys; sys.path.insert(0, os.getcwd())
import hdl21 as h
import hdl21.sim as hs
from hdl21.sim import Sim, Save, Noise, LogSweep, to_proto

def mk(n):
    t = hs.tb(n); t.x = h.Signal(); t.r = h.R(r=1)(p=t.x, n=t.VSS); return t

bad = []
def check(label, tbm, attrs):
    try:
        p = to_proto(Sim(tb=tbm, attrs=attrs))
    except Exception as e:
        print(f"ok   {label}: rejected ({type(e).__name__})"); return
    members = {s.name for m in p.pkg.modules if m.name == p.top for s in m.signals}
    names = []
    for c in p.ctrls:
        names += [n for n in c.save.signal.split(",")]
    for a in p.an:
        names += [n for n in (a.noise.output_p, a.noise.output_n) if n]
    foreign = [n for n in names if n not in members]
    if foreign:
        bad.append(label); print(f"BAD  {label}: exported target(s) {foreign}; testbench {p.top} only has signals {sorted(members)}")
    else:
        print(f"ok   {label}")

check("never-added Signal as Save target", mk("f1a"), [Save(h.Signal(name="foo"))])
check("never-added Signal in a Save list", (t := mk("f1b")), [Save([t.x, h.Signal(name="foo")])])
check("never-added Signal as Noise output", mk("f1c"), [Noise(output=h.Signal(name="zz"), input_source="v", sweep=LogSweep(1, 10, 2))])
check("never-added Signal in a Noise output pair", (t := mk("f1d")), [Noise(output=(t.x, h.Signal(name="zz")), input_source="v", sweep=LogSweep(1, 10, 2))])
t = mk("f1e"); old = t.y = h.Signal(); t.y = h.R(r=1)(p=t.x, n=t.VSS)  # `y` is an Instance now
check("Signal since replaced in the testbench by an Instance", t, [Save(old)])
check("Signal of a Bundle definition (Diff.p)", mk("f1f"), [Save(h.Diff.p)])
check("port of a Primitive (R.p)", mk("f1g"), [Save(h.R.port_list[0])])
other = mk("f1_other"); other.q = h.Signal()
check("control: Signal of another Module", mk("f1h"), [Save(other.q)])

if bad:
    print(f"\nVIOLATION: {len(bad)} Save/Noise targets that are not Signals of the testbench were exported by (foreign) name")
    sys.exit(1)
sys.exit(0)
