"""C10 finding 2 (minor): the leaf `ports` of a bundle port named `bundle` is not given its documented name.

Documented name: instance name + member path joined by underscores = `bundle_ports`. The flattener treats the
names of `Module`'s own Python attributes as taken (`bundle_ports` is one: a leftover helper property), so the
leaf is silently exported as `bundle_ports_`. No designer name, dissolved name or other bundle competes for it.
Checks the exported VLSIR package only. Exit 1 = violation observed.
"""
import os, sys; sys.path.insert(0, os.getcwd())
import hdl21 as h


@h.bundle
class P:
    ports = h.Input()
    other = h.Output()


m = h.Module(name="M")
m.bundle = P(port=True)
pkg = h.to_proto(m)
got = sorted(p.signal for p in pkg.modules[-1].ports)
want = sorted(["bundle_ports", "bundle_other"])
if got != want:
    print("VIOLATION of C10 ('named by joining the instance name and the member path with underscores'):")
    print(f" - port `bundle = P(port=True)` with leaves `ports`, `other`: expected {want}, exported {got}")
    sys.exit(1)
print("no violation observed")
sys.exit(0)
