"""C10 finding 3: a copy of an AnonymousBundle shares its member table with the original.

`a1 = h.bundlize(i=p)` lacks member `o` of the bundle port it is connected to - a connection the library
otherwise refuses ("Missing connection to `o`"). After `a2 = copy.copy(a1); a2.add("o", q)` the ORIGINAL a1 is
silently accepted, and the port's `o` leaf is wired to a signal a1 was never given.
(The repair for copies of BundleInstances - connections and references of their own - did not reach AnonymousBundle.)
Checks the exported VLSIR package only. Exit 1 = violation observed.
"""
import os, sys; sys.path.insert(0, os.getcwd())
import copy
import hdl21 as h


@h.bundle
class Sub:
    i = h.Input(width=2)
    o = h.Output()


@h.module
class Inner:
    s = Sub(port=True)


def build(with_copy: bool) -> h.Module:
    m = h.Module(name="WithCopy" if with_copy else "Plain")
    m.p = h.Signal(width=2)
    m.q = h.Signal()
    a1 = h.bundlize(i=m.p)  # incomplete: no `o`
    if with_copy:
        a2 = copy.copy(a1)
        a2.add("o", m.q)  # completes the COPY only
    m.u = Inner(s=a1)
    return m


# Control: the incomplete bundle is refused
try:
    h.to_proto(build(False))
    control = "accepted"
except RuntimeError:
    control = "refused"

try:
    pkg = h.to_proto(build(True))
except RuntimeError:
    print("no violation observed (refused)")
    sys.exit(0)

pm = [m for m in pkg.modules if m.name.endswith("WithCopy")][0]
conns = {c.portname: c.target.sig for c in pm.instances[0].connections}
if control == "refused" and conns.get("s_o") == "q":
    print("VIOLATION of C10 ('both sides of every bundle connection agree on which flattened port carries which member'):")
    print(f" - Inner(s=a1) with a1 = bundlize(i=p) is refused on its own, but accepted after a member was added to copy.copy(a1);")
    print(f"   exported connections {conns}: leaf `s_o` is driven onto `q`, which a1 was never given")
    sys.exit(1)
print("no violation observed")
sys.exit(0)
