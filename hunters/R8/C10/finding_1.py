"""C10 finding 1: a (shallow) copy of a Bundle definition shares its member tables with the original.

Members added to the copy silently become members of the original too: every bundle-valued port of the
ORIGINAL type then flattens to a scalar port for a leaf its definition never declared - also when the original
was already closed to additions by an earlier elaboration, in which case two modules using "the same" Bundle
type flatten to different port lists.

Checks only exported behaviour (the VLSIR package from h.to_proto). Exit 1 = violation observed.
"""
import os, sys; sys.path.insert(0, os.getcwd())
import copy
import hdl21 as h

problems = []


def ports_of(mod):
    pkg = h.to_proto(mod)
    pm = [m for m in pkg.modules if m.name.endswith(mod.name)][0]
    sigs = {s.name: s.width for s in pm.signals}
    return {p.signal: (sigs[p.signal], p.direction) for p in pm.ports}


# ---- (a) plain history: derive a variant from a copy -----------------------------------------------
@h.bundle
class B:
    x = h.Input()


Bext = copy.copy(B)  # the designer wants a variant of B with one more member
Bext.name = "Bext"
Bext.y = h.Output(width=5)  # added to the COPY only

Ma = h.Module(name="Ma")
Ma.b = B(port=True)  # a port of the ORIGINAL type: its only leaf is `x`
got = ports_of(Ma)
want = {"b_x"}
if set(got) != want:
    problems.append(
        f"(a) port `b = B(port=True)`, B declares the single leaf `x`: expected ports {sorted(want)}, "
        f"exported {sorted(got)} - `y` was only ever added to copy.copy(B)"
    )

# ---- (b) the copy also by-passes 'Bundle definitions take no additions once elaboration has begun' --
@h.bundle
class C:
    x = h.Input()


Ccopy = copy.copy(C)  # taken while C is still open

M1 = h.Module(name="M1")
M1.c = C(port=True)
p1 = ports_of(M1)  # elaborates M1, closes C

refused = False
try:
    C.z = h.Output()
except RuntimeError:
    refused = True  # as documented: C is closed
Ccopy.z = h.Output()  # ... but this is accepted, and lands in C's own tables

M2 = h.Module(name="M2")
M2.c = C(port=True)
p2 = ports_of(M2)
if refused and set(p1) != set(p2):
    problems.append(
        f"(b) two modules with the identical port `c = C(port=True)` export different flattened ports: "
        f"M1 {sorted(p1)} vs M2 {sorted(p2)}; C itself refused the addition, its copy accepted it on C's behalf"
    )

if problems:
    print("VIOLATION of C10 ('flattens to one scalar port per leaf signal'):")
    for p in problems:
        print(" -", p)
    sys.exit(1)
print("no violation observed")
sys.exit(0)
