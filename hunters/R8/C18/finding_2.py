"""C18 finding 2: the members of copy.deepcopy(Bundle) are owned by nobody (Signal.__deepcopy__ drops `_parent_bundle`),
so the one-object-one-holder check does not see them: a Module or a second Bundle can take a member of the
copied definition. One Signal object is then a member of two holders; an edit made through one silently changes the other."""
import os, sys; sys.path.insert(0, os.getcwd())
import copy
import hdl21 as h

bad = []
B = h.Bundle(name="B"); B.x = h.Signal()

# Reference behaviour on the original: refused.
for holder in (h.Module(name="M0"), h.Bundle(name="O0")):
    try:
        holder.x = B.x
        bad.append(f"{holder} took a member of the original Bundle")
    except RuntimeError:
        pass

D = copy.deepcopy(B); D.name = "D"       # accepted, silently
other = h.Bundle(name="Other")
M = h.Module(name="M")
try:
    other.x = D.x                          # same defect on the copy: must be refused ("Add a copy instead.")
    if other.get("x") is D.get("x"):
        bad.append("Bundles `D` and `Other` hold ONE Signal object as their member `x`")
except RuntimeError as e:
    print("refused (fine):", e)

if other.get("x") is not None:
    other.x.width = 3                       # an (allowed, pre-elaboration) edit of Other's member ...
    T = h.Module(name="T"); T.d = D(port=True)   # ... T uses D only
    pkg = h.to_proto(T)
    widths = {s.name: s.width for s in pkg.modules[0].signals}
    if widths.get("d_x") != 1:
        bad.append(f"editing Other.x changed the exported width of D's member: {widths}")

D2 = copy.deepcopy(B); D2.name = "D2"
try:
    M.x = D2.x
    if M.get("x") is D2.get("x"):
        bad.append("Module `M` and Bundle `D2` hold ONE Signal object as `x`")
except RuntimeError as e:
    print("refused (fine):", e)

if bad:
    print("VIOLATION (C18: each name denotes exactly one object, which reports that holder as its parent):")
    for b in bad: print(" -", b)
    sys.exit(1)
print("ok")
