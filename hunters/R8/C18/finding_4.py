"""C18 finding 4 (low; a route repair 6724a4a missed): a member of a Bundle definition re-named after it was added is
reported when the Bundle is used through a bundle instance, but accepted silently when the Bundle is used only
through an instance bundle (h.InstanceBundleType): two members of MyB then carry the name `n`."""
import os, sys; sys.path.insert(0, os.getcwd())
import hdl21 as h

MyB = h.Bundle(name="MyB"); MyB.p = h.Signal(); MyB.n = h.Signal()
P2 = h.InstanceBundleType("P2", bundle=MyB)
Leaf = h.Module(name="Leaf"); Leaf.x = h.Input()
MyB.p.name = "n"        # get("p").name == get("n").name == "n"

T = h.Module(name="T"); T.s = h.Signal(width=2)
T.pr = P2(of=Leaf)(x=h.AnonymousBundle(p=T.s[0], n=T.s[1]))
try:
    pkg = h.to_proto(T)
except RuntimeError as e:
    print("reported (fine):", str(e).splitlines()[-1]); sys.exit(0)

# Reference: the same definition through a bundle instance is refused
T2 = h.Module(name="T2"); T2.b = MyB()
try:
    h.to_proto(T2); ref = "accepted too"
except RuntimeError as e:
    ref = "refused: " + str(e).splitlines()[-1]
print("VIOLATION (C18: each name denotes exactly one object / get(name) and the object's own name agree):")
print(" - Bundle MyB with members", {k: v.name for k, v in MyB.namespace.items()}, "was elaborated and exported through an instance bundle:",
      [i.name for i in pkg.modules[-1].instances])
print(" - through a bundle instance the same definition is", ref)
sys.exit(1)
