"""C18 finding 3 (low): the string spellings of Visibility are honoured by the constructor but not by the attribute,
and the other way round for BundleInstance.port.
 (a) h.Signal(vis="PORT") is a port; `s = h.Signal(); s.vis = "PORT"` BEFORE it is ever added is silently filed under
     `signals` (module._add compares `val.vis == Visibility.PORT`), so M has no port.
 (b) h.Signal(vis="INTERNAL") is internal, but B(port="INTERNAL") / bi.port = "INTERNAL" is a PORT (bool("INTERNAL")),
     although the Visibility.INTERNAL spelling was repaired (a852f9c, c0ae334)."""
import os, sys; sys.path.insert(0, os.getcwd())
import hdl21 as h

bad = []
m1 = h.Module(name="M1"); m1.a = h.Signal(vis="PORT")
s = h.Signal(); s.vis = "PORT"
m2 = h.Module(name="M2"); m2.a = s
p1 = [p.signal for p in h.to_proto(m1).modules[0].ports]
p2 = [p.signal for p in h.to_proto(m2).modules[0].ports]
if p1 != p2:
    bad.append(f"(a) Signal(vis='PORT') exports ports {p1}; the same spelling assigned as an attribute before adding exports {p2} (views: ports={list(m2.ports)} signals={list(m2.signals)}, vis={s.vis!r})")

B = h.Bundle(name="B"); B.x = h.Signal()
bi = B(port="INTERNAL")
bj = B(); bj.port = "INTERNAL"
m3 = h.Module(name="M3"); m3.b = bi; m3.c = bj
bp = list(m3.bundle_ports)
if bp:
    p3 = [p.signal for p in h.to_proto(m3).modules[0].ports]
    bad.append(f"(b) B(port='INTERNAL') / .port = 'INTERNAL' are ports: bundle_ports={bp}, exported ports {p3}")

if bad:
    print("VIOLATION (C18: a signal is listed as a port exactly when it has port visibility):")
    for b in bad: print(" -", b)
    sys.exit(1)
print("ok")
