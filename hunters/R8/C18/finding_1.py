"""C18 finding 1: copy.copy(Module) / copy.copy(Bundle) is a second handle onto the SAME namespace dicts.
Additions through the copy land in the original - even after the original has been elaborated (closed) -
and the added object reports the copy, not the module that lists it, as its parent."""
import os, sys; sys.path.insert(0, os.getcwd())
import copy
import hdl21 as h

bad = []

m = h.Module(name="M")
m.a = h.Port()
cp = copy.copy(m)          # accepted, silently
h.elaborate(m)
try:
    m.b = h.Port()
    bad.append("direct addition after elaboration accepted")
except RuntimeError:
    pass                    # as the property demands
try:
    cp.b = h.Port()         # the same edit, through the copy
except Exception as e:
    print("refused (fine):", e); cp = None
if cp is not None:
    if m.get("b") is not None:
        bad.append(f"elaborated Module M gained attribute `b` through its copy: ports={list(m.ports)}")
        if m.get("b")._parent_module is not m:
            bad.append("M.get('b') does not report M as its parent")
    ports = [p.signal for p in h.to_proto(m).modules[0].ports]
    if ports != ["a"]:
        bad.append(f"exported ports of the (already elaborated) M are {ports}, not ['a']")

B = h.Bundle(name="B"); B.x = h.Signal()
cb = copy.copy(B)
T = h.Module(name="T"); T.b = B(port=True)
h.elaborate(T)              # closes B
try:
    B.y = h.Signal(); bad.append("direct addition to closed Bundle accepted")
except RuntimeError:
    pass
try:
    cb.y = h.Signal()
    if B.get("y") is not None:
        bad.append(f"closed Bundle B gained member `y` through its copy: signals={list(B.signals)}; parent is B: {B.y._parent_bundle is B}")
except Exception as e:
    print("refused (fine):", e)

if bad:
    print("VIOLATION (C18: additions after elaboration are rejected / object reports that module as parent):")
    for b in bad: print(" -", b)
    sys.exit(1)
print("ok")
