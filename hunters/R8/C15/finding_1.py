"""
C15 finding 1: PDK compile makes a device call that the netlist binds to a user Module of the same (bare) name.

Run with cwd = the hdl21 work tree:  /venv/bin/python _out/finding_1.py
"""
import os, sys, io, re
sys.path.insert(0, os.getcwd())
for p in ("pdks/Sky130", "pdks/Gf180", "pdks/Asap7"):
    sys.path.insert(0, os.path.join(os.getcwd(), p))
import hdl21 as h
from hdl21.prefix import µ
from hdl21.pdk import sample_pdk
import gf180_hdl21


def design(inner_name: str, family=None):
    # A user cell which happens to carry the name of a PDK device. It is NOT a transistor: a 1-ohm resistor d-s.
    inner = h.Module(name=inner_name)
    inner.d, inner.g, inner.s, inner.b = h.Ports(4)
    inner.r = h.R(r=1)(p=inner.d, n=inner.s)
    top = h.Module(name="Top")
    top.a, top.b, top.c, top.VSS = h.Signals(4)
    top.u = inner(d=top.a, g=top.b, s=top.c, b=top.VSS)
    kw = dict(family=family) if family is not None else {}
    top.x = h.Nmos(w=1 * µ, l=1 * µ, **kw)(d=top.a, g=top.b, s=top.c, b=top.VSS)
    return top


bad = []
for pdkmod, devname, fam in ((sample_pdk, "nmos", None), (gf180_hdl21, "nfet_03v3", h.MosFamily.CORE)):
    top = design(devname, fam)
    h.pdk.compile(top, pdk=pdkmod)
    # The VLSIR package itself keeps the two apart (local vs external reference) ...
    pkg = h.to_proto(top)
    tgt = [i for i in pkg.modules[-1].instances if i.name == "x"][0].module
    assert tgt.WhichOneof("to") == "external" and tgt.external.name == devname
    # ... but both netlists, which h.netlist writes without complaint, refer to both by the one bare name
    for fmt in ("spice", "spectre"):
        s = io.StringIO()
        try:
            h.netlist(top, s, fmt=fmt)
        except Exception as e:
            print(f"{pdkmod.__name__}/{fmt}: refused ({type(e).__name__}) - fine")
            continue
        txt = s.getvalue()
        defines = re.search(r"(?im)^\.?subckt\s+%s\b" % re.escape(devname), txt) is not None
        if defines:
            bad.append((pdkmod.__name__, fmt, devname))

if bad:
    print("VIOLATION: the compiled design netlists, and the netlist DEFINES a sub-circuit with the name of the PDK device")
    print("that the compiled transistor instance `x` calls; `x` therefore binds to the user's cell (a resistor), not to the device:")
    for b in bad:
        print("   pdk=%s fmt=%s name=%s" % b)
    print("The exporter's Module-vs-ExternalModule name check (commit 8c197b5) compares `<domain>.<name>` of the device")
    print("('sample_pdk.nmos') with the Module's name ('nmos'), so it cannot fire for any PDK device (all carry a domain),")
    print("while the netlists drop the domain.")
    sys.exit(1)
print("no violation")
sys.exit(0)
