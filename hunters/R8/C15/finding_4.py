"""
C15 finding 4: the sample PDK and ASAP7 accept requests for devices they do not have (threshold / family),
and hand out their standard core device instead of raising.
(GF180 ignoring `vth` is on record; this is the same kind of defect in the two other PDKs, and for `family` too.)

Run with cwd = the hdl21 work tree:  /venv/bin/python _out/finding_4.py
"""
import os, sys
sys.path.insert(0, os.getcwd())
for p in ("pdks/Sky130", "pdks/Gf180", "pdks/Asap7"):
    sys.path.insert(0, os.path.join(os.getcwd(), p))
import hdl21 as h
from hdl21.pdk import sample_pdk
import asap7_hdl21

cases = [
    (sample_pdk, dict(vth=h.MosVth.HIGH)),
    (sample_pdk, dict(vth=h.MosVth.NATIVE, family=h.MosFamily.IO)),
    (sample_pdk, dict(family=h.MosFamily.RF)),
    (asap7_hdl21, dict(family=h.MosFamily.IO)),
    (asap7_hdl21, dict(family=h.MosFamily.RF, vth=h.MosVth.LOW)),
]
bad = []
for pdkmod, kw in cases:
    m = h.Module(name="T")
    m.d, m.g, m.s, m.b = h.Signals(4)
    m.x = h.Nmos(**kw)(d=m.d, g=m.g, s=m.s, b=m.b)
    ref = h.Module(name="R")
    ref.d, ref.g, ref.s, ref.b = h.Signals(4)
    ref.x = h.Nmos(**({"vth": kw["vth"]} if pdkmod is asap7_hdl21 and "vth" in kw else {}))(d=ref.d, g=ref.g, s=ref.s, b=ref.b)
    try:
        h.pdk.compile(m, pdk=pdkmod)
    except Exception as e:
        print(f"{pdkmod.__name__}: {kw} refused ({type(e).__name__}) - fine")
        continue
    h.pdk.compile(ref, pdk=pdkmod)
    if m.x.of.module is ref.x.of.module:
        bad.append((pdkmod.__name__, {k: str(v) for k, v in kw.items()}, m.x.of.module.name))
if bad:
    print("VIOLATION: requests no device of the PDK satisfies are accepted, and compile to the device of a plain request:")
    for b in bad:
        print("   %-22s Nmos(%s) -> %s" % b)
    sys.exit(1)
print("no violation")
sys.exit(0)
