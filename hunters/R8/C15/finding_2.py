"""
C15 finding 2: a model name silently overrides an explicitly requested, contradicting device TYPE:
`h.Pmos(model=<an n-channel device>)` compiles to the n-channel device, `h.Npn(model=<a pnp>)` to the pnp.

Run with cwd = the hdl21 work tree:  /venv/bin/python _out/finding_2.py
"""
import os, sys
sys.path.insert(0, os.getcwd())
for p in ("pdks/Sky130", "pdks/Gf180", "pdks/Asap7"):
    sys.path.insert(0, os.path.join(os.getcwd(), p))
import hdl21 as h
from hdl21.pdk import sample_pdk
import sky130_hdl21, gf180_hdl21, asap7_hdl21

cases = [
    # pdk, constructor (explicit type), model name of a device of the OTHER type, ports
    (sample_pdk, h.Pmos, "nmos", "dgsb"),
    (asap7_hdl21, h.Pmos, "nmos_rvt", "dgsb"),
    (sky130_hdl21, h.Pmos, "NMOS_1p8V_STD", "dgsb"),
    (gf180_hdl21, h.Pmos, "NFET_3p3V", "dgsb"),
    (sky130_hdl21, h.Npn, "PNP_5p0V_0p68x0p68", "cbe"),
    (gf180_hdl21, h.Npn, "PNP_5p0x5p0", "cbe"),
]
bad = []
for pdkmod, ctor, model, ports in cases:
    m = h.Module(name="T")
    conns = {p: m.add(h.Signal(name="n_" + p)) for p in ports}
    m.x = ctor(model=model)(**conns)
    asked = m.x.of.params.tp  # PMOS / NPN: set by the typed constructor
    try:
        h.pdk.compile(m, pdk=pdkmod)
    except Exception as e:
        print(f"{pdkmod.__name__}: {ctor.__name__}(model={model!r}) refused: {type(e).__name__} - fine")
        continue
    bad.append((pdkmod.__name__, ctor.__name__, model, str(asked), m.x.of.module.name))

if bad:
    print("VIOLATION: contradicting requests are accepted and the device of the OTHER polarity is instantiated, silently:")
    for b in bad:
        print("   %-22s %s(model=%r)  [tp=%s]  ->  %s" % b)
    print("The property selects devices 'by the documented type/family/threshold parameters or by model name' and wants")
    print("'a request no device satisfies' to raise: no device is both of the requested type and of that name.")
    print("(The typed constructors do refuse a contradicting `tp=` keyword since commit 52da9db.)")
    sys.exit(1)
print("no violation")
sys.exit(0)
