"""
C15 finding 3 (low confidence - cannot be checked against the PDK's own files here): three Sky130 low-power logic
cells are declared WITHOUT their supply pins, by another mechanism than the known '+ continuation' cut-off
(their port lists are short, complete-looking one-liners whose siblings of other drive strengths / libraries differ).

Run with cwd = the hdl21 work tree:  /venv/bin/python _out/finding_3.py
"""
import os, sys, io, re
sys.path.insert(0, os.getcwd())
for p in ("pdks/Sky130", "pdks/Gf180", "pdks/Asap7"):
    sys.path.insert(0, os.path.join(os.getcwd(), p))
import hdl21 as h
import sky130_hdl21
from sky130_hdl21.digital_cells import low_power as lp, high_density as hd


def netlisted_nodes(cell: h.ExternalModule):
    """Instantiate `cell` with all ports connected, netlist, and return the nodes of the instance line"""
    t = h.Module(name="T")
    inst = h.Instance(of=cell(), name="i")
    for p in cell.port_list:
        inst.connect(p.name, t.add(h.Signal(name=p.name)))
    t.add(inst)
    h.pdk.compile(t, pdk=sky130_hdl21)
    s = io.StringIO()
    h.netlist(t, s, fmt="spice")
    m = re.search(r"^xi\s*\n\+ (.*?)\s*\n\+ (\S+)", s.getvalue(), flags=re.M)
    return m.group(1).split()


bad = []
pairs = [
    (lp.inv_16, lp.inv_8),  # same cell, other drive strength
    (lp.nor2_lp, lp.nor2_1),
    (lp.sdfbbp_1, hd.sdfbbp_1),  # same cell, other library
]
for cell, sibling in pairs:
    nodes, sib = netlisted_nodes(cell), netlisted_nodes(sibling)
    missing = [s for s in ("VGND", "VPWR") if s in sib and s not in nodes]
    if missing:
        bad.append((cell.name, nodes, sibling.name, sib, missing))

if bad:
    print("SUSPECT: cells netlisted 'with all ports connected' have no supply pin(s), unlike their siblings:")
    for name, nodes, sname, sib, missing in bad:
        print(f"   {name}: {nodes}\n      vs {sname}: {sib}\n      missing {missing}")
    print("None of the three is a '+ continuation' cut-off: those drop the TAIL of a long list, these lack pins in the MIDDLE of a short one.")
    sys.exit(1)
print("no violation")
sys.exit(0)
