"""C13 finding 5 (minor): negative zero loses its sign. "prefixed numbers keep their exact decimal digits": `-0.0`
(float, str or Decimal) converts to the Prefixed `-0.0`, which is exported as int64_value 0; the same float in a
dict-valued parameter is exported as double -0.0."""
import os, sys; sys.path.insert(0, os.getcwd())
import hdl21 as h
from decimal import Decimal

m = h.Module(name="Top"); m.x = h.Signal()
m.v = h.V(dc=-0.0)(p=m.x, n=m.x)
m.w = h.V(dc=Decimal("-0.00"))(p=m.x, n=m.x)
bad = False
for inst in h.to_proto(m).modules[-1].instances:
    p = inst.parameters[0].value.prefixed
    kind = p.WhichOneof("number")
    val = getattr(p, kind)
    print(inst.name, kind, repr(val))
    if not str(val).startswith("-"):
        bad = True
if bad:
    print("VIOLATION (minor): the digits / sign of a negative zero are not kept")
    sys.exit(1)
sys.exit(0)
