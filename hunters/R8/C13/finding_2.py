"""C13 finding 2: `Pmos(MosParams(tp=NMOS, ...))` / `Pnp(BipolarParams(tp=NPN, ...))` silently export the OTHER type.
The repair for `Nmos(MosParams(tp=PMOS))` refuses a contradicting parameters object only when the contradicting
type differs from the field's default; an explicitly given NMOS / NPN is over-written."""
import os, sys; sys.path.insert(0, os.getcwd())
import hdl21 as h
from hdl21.primitives import MosParams, MosType, BipolarParams, BipolarType

def exported_tp(call):
    m = h.Module(name="Top")
    m.x = h.Signal()
    m.i = call(**{p: m.x for p in call.ports})
    inst = h.to_proto(m).modules[-1].instances[0]
    return {p.name: p.value.literal for p in inst.parameters}["tp"]

bad = []
for what, fn, given in [
    ("Pmos(MosParams(tp=MosType.NMOS, w=1))", lambda: h.Pmos(MosParams(tp=MosType.NMOS, w=1)), "NMOS"),
    ("Pnp(BipolarParams(tp=BipolarType.NPN))", lambda: h.Pnp(BipolarParams(tp=BipolarType.NPN)), "NPN"),
    # the mirror images, which ARE refused
    ("Nmos(MosParams(tp=MosType.PMOS))", lambda: h.Nmos(MosParams(tp=MosType.PMOS)), "PMOS"),
    ("Npn(BipolarParams(tp=BipolarType.PNP))", lambda: h.Npn(BipolarParams(tp=BipolarType.PNP)), "PNP"),
]:
    try:
        got = exported_tp(fn())
    except Exception as ex:
        print(f"ok   {what}: refused ({type(ex).__name__})")
        continue
    if got != given:
        bad.append(what)
        print(f"BAD  {what}: given tp={given}, exported tp={got}")
    else:
        print(f"ok   {what}: exported tp={got}")
if bad:
    print("\nVIOLATION: an explicitly given enum parameter value is replaced by another one without an error")
    sys.exit(1)
sys.exit(0)
