"""C13 finding 3: a user-defined `h.Primitive` named like a built-in one is exported as a reference to the built-in
(`vlsir.primitives.resistor`, `hdl21.primitives.Mos`) with its own parameter names: the "documented parameter renaming"
/ parameter set of the VLSIR primitive is not what reaches the package. (ExternalModules may not be declared in the
primitive domains since repair f371c4e; the `Primitive` constructor is the other route into them.)"""
import os, sys; sys.path.insert(0, os.getcwd())
import hdl21 as h
from hdl21.primitives import Primitive, PrimitiveType

@h.paramclass
class MyParams:
    ohms = h.Param(dtype=h.Scalar, desc="resistance", default=1)

bad = []
try:
    mine = Primitive(name="IdealResistor", desc="mine", port_list=[h.Port(name="a"), h.Port(name="b"), h.Port(name="c")],
                     paramtype=MyParams, primtype=PrimitiveType.IDEAL)
    m = h.Module(name="Top"); m.x = h.Signal()
    m.i = mine(ohms=5)(a=m.x, b=m.x, c=m.x)
    inst = h.to_proto(m).modules[-1].instances[0]
    ref = f"{inst.module.external.domain}.{inst.module.external.name}"
    names = [p.name for p in inst.parameters]; ports = [c.portname for c in inst.connections]
    print(f"exported as {ref} with parameters {names} and ports {ports}")
    if ref == "vlsir.primitives.resistor" and names != ["r"]:
        bad.append(ref)
except Exception as ex:
    print("refused:", type(ex).__name__, str(ex)[:100])
if bad:
    print("VIOLATION: an instance of vlsir.primitives.resistor without `r`, with a parameter `ohms` and three ports, is exported silently")
    sys.exit(1)
sys.exit(0)
