"""C13 finding 1: the parameters of a PrimitiveCall / ExternalModuleCall are type-checked in the constructor only.
Assigned through the attribute (`call.params = ...`, the way `Nmos()` itself writes them) they are exported unchecked:
an ideal resistor without `r` and with the parameters of another primitive reaches the package."""
import os, sys; sys.path.insert(0, os.getcwd())
import hdl21 as h

def export(call):
    m = h.Module(name="Top")
    m.x = h.Signal()
    m.i = call(**{p: m.x for p in call.ports})
    inst = h.to_proto(m).modules[-1].instances[0]
    return inst.module.external.name, sorted(p.name for p in inst.parameters)

bad = []
# Constructor route: refused (this is the check the attribute route misses)
try:
    h.PrimitiveCall(prim=h.R, params=h.V.Params(dc=3))
    bad.append("constructor accepted foreign params")
except TypeError:
    pass

cases = {}
c = h.R(r=1); c.params = h.V.Params(dc=3, ac=1); cases["R <- DcVoltageSourceParams"] = c
c = h.R(r=1); c.params = {"foo": 1}; cases["R <- dict"] = c
c = h.V(dc=1); c.params = h.Vpulse.Params(v1=1, delay=2); cases["V <- PulseVoltageSourceParams"] = c
P = h.paramclass(type("P", (), {"a": h.Param(dtype=int, desc="a", default=1)}))
em = h.ExternalModule(name="em", port_list=[h.Port(name="p")], paramtype=P)
c = em(a=2); c.params = {"not_a_param_of_em": 5}; cases["ExternalModule(paramtype=P) <- dict"] = c

for what, call in cases.items():
    try:
        name, params = export(call)
    except Exception as ex:
        print(f"ok   {what}: refused ({type(ex).__name__})")
        continue
    bad.append(what)
    print(f"BAD  {what}: exported as `{name}` with parameters {params}")

if bad:
    print("\nVIOLATION: parameter objects of the wrong type for their primitive / external module are exported silently")
    sys.exit(1)
sys.exit(0)
