"""C13 finding 4 (borderline: PDK compile x copies): `copy.deepcopy` of a PrimitiveCall also copies its `Primitive`.
The exporter goes by `prim.name` and exports the copy like the original, but every PDK walker selects by identity
(`call.prim is Mos`), so the copy is silently left uncompiled: same parameters, one instance becomes `sample_pdk.nmos`
(w, l, nf, m) and its copy stays `hdl21.primitives.Mos` (w, l, tp, vth, family) in the same package."""
import os, sys, copy; sys.path.insert(0, os.getcwd())
import hdl21 as h
from hdl21.prefix import MICRO
import hdl21.pdk.sample_pdk as sample_pdk

orig = h.Nmos(w=1 * MICRO, l=1 * MICRO)
dup = copy.deepcopy(orig)
m = h.Module(name="Top"); m.x = h.Signal()
m.a = orig(d=m.x, g=m.x, s=m.x, b=m.x)
m.b = dup(d=m.x, g=m.x, s=m.x, b=m.x)
sample_pdk.compile(m)
insts = {i.name: i for i in h.to_proto(m).modules[-1].instances}
refs = {n: (i.module.external.domain, i.module.external.name, [p.name for p in i.parameters]) for n, i in insts.items()}
for n, r in refs.items():
    print(n, r)
if refs["a"][:2] != refs["b"][:2]:
    print("VIOLATION: equal calls compile to different devices with different parameter sets; no error")
    sys.exit(1)
sys.exit(0)
