"""C03 finding 1 (low severity, close relative of the on-record `from_proto` clamping):
`h.from_proto` reads a VLSIR Slice whose bounds are NEGATIVE as Python negative indices.
VLSIR `Slice(signal="s", top=-2, bot=-3)` of a 4-bit `s` names bits outside the signal (ill-formed);
Hdl21 accepts it silently and re-exports it as bits 2:1 of `s`; `top=-2, bot=0` even silently becomes the
THREE bits 2:0. Nothing is raised at import, at `.width`, at elaboration or at export.
Exit code 1 if the ill-formed package is accepted, 0 if it is rejected."""
import os, sys; sys.path.insert(0, os.getcwd())
import hdl21 as h
import vlsir.circuit_pb2 as vckt

def pkg_with(top_, bot_, portwidth):
    pkg = vckt.Package(domain="d")
    inner = vckt.Module(name="Inner")
    inner.signals.append(vckt.Signal(name="p", width=portwidth))
    inner.ports.append(vckt.Port(signal="p", direction=vckt.Port.Direction.NONE))
    pkg.modules.append(inner)
    m = vckt.Module(name="Top")
    m.signals.append(vckt.Signal(name="s", width=4))
    i = vckt.Instance(name="i"); i.module.local = "Inner"
    tgt = vckt.ConnectionTarget(slice=vckt.Slice(signal="s", top=top_, bot=bot_))
    i.connections.append(vckt.Connection(portname="p", target=tgt))
    m.instances.append(i); pkg.modules.append(m)
    return pkg

bad = []
for (t, b, pw) in [(-2, -3, 2), (-2, 0, 3), (-1, -2, 1)]:
    try:
        ns = h.from_proto(pkg_with(t, b, pw))
        out = h.to_proto(ns.Top)
        top = [m for m in out.modules if m.name.endswith("Top")][0]
        tg = top.instances[0].connections[0].target
        bad.append(f"VLSIR slice s[top={t}:bot={b}] of 4-bit `s` accepted; re-exported as {str(tg).strip()!r}")
    except Exception as e:
        print(f"(top={t}, bot={b}) rejected: {type(e).__name__}")
if bad:
    print("VIOLATION: out-of-signal (negative) VLSIR slice bounds silently accepted and re-interpreted:")
    for x in bad: print("  ", x)
    sys.exit(1)
sys.exit(0)
