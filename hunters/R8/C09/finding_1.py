"""C09 finding 1: -0.0 inside NamedTuple- / pydantic-BaseModel-valued parameters is spelt into the generated name.
(The repair 067db60 covers exact `tuple`, `list`, `dict`, sets and dataclasses only.)
Equal parameters -> one cached call -> one Module, but its exported name depends on which spelling was seen first."""
import os, sys; sys.path.insert(0, os.getcwd())
from typing import NamedTuple, Optional
import pydantic
import hdl21 as h

class Pt(NamedTuple):
    x: float
    y: float

class BM(pydantic.BaseModel):
    model_config = dict(frozen=True)
    x: float

@h.paramclass
class P:
    pt = h.Param(dtype=Optional[Pt], desc="a point", default=None)
    bm = h.Param(dtype=Optional[BM], desc="a model", default=None)

@h.generator
def G(p: P) -> h.Module:
    m = h.Module()
    m.s = h.Signal()
    return m

def exported_name(mod):
    return h.to_proto(mod).modules[-1].name

bad = []
for label, first, second in [
    ("NamedTuple", dict(pt=Pt(0.0, 1.0)), dict(pt=Pt(-0.0, 1.0))),
    ("BaseModel", dict(bm=BM(x=0.0)), dict(bm=BM(x=-0.0))),
]:
    assert P(**first) == P(**second) and hash(P(**first)) == hash(P(**second))
    h.generator.cache.reset()  # history 1: `first` spelling seen first
    a = G(**first); a2 = G(**second)
    assert a is a2, "equal parameters must be one call"
    n1 = exported_name(a)
    h.generator.cache.reset()  # history 2 (a new process would do the same): `second` spelling seen first
    b = G(**second); b2 = G(**first)
    assert b is b2
    n2 = exported_name(b)
    if n1 != n2:
        bad.append(f"{label}: equal parameters {first} == {second}; exported name is {n1} when the +0.0 call comes first, {n2} when the -0.0 call comes first")

if bad:
    print("VIOLATION (C09: name depends only on generator and parameter values, not on call order):")
    print("\n".join(bad))
    sys.exit(1)
print("ok")
