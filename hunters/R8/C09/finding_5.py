"""C09 finding 5 (minor): enum-valued parameters are named by the JSON of the member's VALUE alone.
Members whose values are different Python objects with one JSON spelling (a tuple and a list here) are unequal
parameter values - two calls, two Modules - under one name."""
import os, sys; sys.path.insert(0, os.getcwd())
from enum import Enum
import hdl21 as h

class Taps(Enum):
    FIXED = (1, 2)
    TRIMMABLE = [1, 2]

@h.paramclass
class P:
    taps = h.Param(dtype=Taps, desc="taps")

@h.generator
def G(p: P) -> h.Module:
    m = h.Module()
    m.s = h.Signal()
    if p.taps is Taps.TRIMMABLE:
        m.trim = h.Signal()
    return m

assert Taps.FIXED is not Taps.TRIMMABLE and Taps.FIXED != Taps.TRIMMABLE
a, b = G(taps=Taps.FIXED), G(taps=Taps.TRIMMABLE)
assert a is not b
na, nb = h.to_proto(a).modules[-1].name, h.to_proto(b).modules[-1].name
if na == nb:
    print("VIOLATION (C09: calls with unequal parameters return distinct Modules whose exported names differ):")
    print(f"G(taps=Taps.FIXED) and G(taps=Taps.TRIMMABLE) are distinct Modules (signals {list(a.signals)} vs {list(b.signals)}) both exported as `{na}`")
    sys.exit(1)
print("ok")
