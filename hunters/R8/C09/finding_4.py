"""C09 finding 4 (state leaking between calls): an ExternalModuleCall with `dict` parameters is a MUTABLE key of the generator cache.
Its hash covers the dictionary's keys only and its `==` reads the live dictionary, so an edit of `call.params[...]`
after the call was used as a parameter value silently re-addresses the cached entry:
 - G(dev=X(w=2)) now returns the Module that was generated and NAMED for w=1;
 - G(dev=X(w=1)) runs the body again and returns a second Module under the name the first one already has.
(The repairs df425fa / 122cb40 copy the caller's dictionary; the call's own dictionary stays editable and shared with the cache.)"""
import os, sys; sys.path.insert(0, os.getcwd())
import hdl21 as h

X = h.ExternalModule(name="X", port_list=[h.Port(name="p")], paramtype=dict)

@h.paramclass
class P:
    dev = h.Param(dtype=h.Instantiable, desc="device")

runs = []

@h.generator
def G(p: P) -> h.Module:
    runs.append(dict(p.dev.params))
    m = h.Module()
    m.p = h.Port()
    m.i = p.dev(p=m.p)
    return m

x = X(w=1)
a = G(dev=x)
name_before = h.to_proto(a).modules[-1].name
x.params["w"] = 2  # the caller goes on to its next device, re-using its call object
b = G(dev=X(w=2))  # a different parameter value than the one `a` was generated (and named) for
c = G(dev=X(w=1))  # the value `a` was generated for

msgs = []
if b is a:
    msgs.append(f"G(dev=X(w=2)) returned the Module generated for X(w=1), still named `{name_before}`; the body ran {len(runs)} time(s): {runs}")
if c is not a:
    nc = h.to_proto(c).modules[-1].name
    if nc == name_before:
        msgs.append(f"G(dev=X(w=1)) ran the body again and returned a second Module under the first one's name `{nc}`")
if msgs:
    print("VIOLATION (C09: unequal parameters give distinct Modules with different names; equal parameters give the identical Module, body run once):")
    print("\n".join(msgs))
    sys.exit(1)
print("ok")
