"""C09 finding 3: the name of a generated module is taken from the returned Module when that is named already
(`@h.module class Gate` inside the body, the documented style), and the generator's name is then left out entirely.
Two different generators of one file whose bodies both define a fresh inner `class Gate` export DIFFERENT modules under ONE name.
(No hand-written module is shared or re-named here: each body creates its own, new Module.)"""
import os, sys; sys.path.insert(0, os.getcwd())
import hdl21 as h

@h.paramclass
class P:
    n = h.Param(dtype=int, desc="size", default=1)

@h.generator
def Nand(p: P) -> h.Module:
    @h.module
    class Gate:
        a, b = h.Inputs(2)
        z = h.Output()
    return Gate

@h.generator
def Inv(p: P) -> h.Module:
    @h.module
    class Gate:
        a = h.Input()
        z = h.Output()
    return Gate

x, y = Nand(n=1), Inv(n=1)
assert x is not y
nx = h.to_proto(x).modules[-1].name
ny = h.to_proto(y).modules[-1].name
if nx == ny:
    print("VIOLATION (C09: the name depends on the generator and the parameter values; never two different generated modules under one export name):")
    print(f"Nand(n=1) (ports {list(x.ports)}) and Inv(n=1) (ports {list(y.ports)}) are both exported as `{nx}`")
    sys.exit(1)
print("ok")
