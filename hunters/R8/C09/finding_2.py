"""C09 finding 2: generators are named by `func.__name__`, not by their qualified name.
Two generators of one Python file kept in two class namespaces (`Analog.Inv`, `Digital.Inv`: different `__qualname__`s,
no closures involved) give DIFFERENT modules ONE export name; as generator-valued parameters they name two different
calls alike, too."""
import os, sys; sys.path.insert(0, os.getcwd())
import hdl21 as h

@h.paramclass
class P:
    n = h.Param(dtype=int, desc="size", default=1)

class Analog:
    @h.generator
    def Inv(p: P) -> h.Module:
        m = h.Module()
        m.i, m.o = h.Input(), h.Output()
        return m

class Digital:
    @h.generator
    def Inv(p: P) -> h.Module:
        m = h.Module()
        m.i, m.o, m.en = h.Input(), h.Output(), h.Input()
        return m

assert Analog.Inv.func.__qualname__ != Digital.Inv.func.__qualname__

a, d = Analog.Inv(n=1), Digital.Inv(n=1)
assert a is not d
na = h.to_proto(a).modules[-1].name
nd = h.to_proto(d).modules[-1].name
msgs = []
if na == nd:
    msgs.append(f"Analog.Inv(n=1) and Digital.Inv(n=1) are different Modules (ports {list(a.ports)} vs {list(d.ports)}) exported under one name `{na}`")

# The same, as generator-valued parameters
@h.paramclass
class Q:
    unit = h.Param(dtype=h.Generator, desc="unit generator")

@h.generator
def Buf(q: Q) -> h.Module:
    m = h.Module()
    m.i, m.o = h.Input(), h.Output()
    u = q.unit(n=1)
    conns = {k: getattr(m, k) if k in ("i", "o") else m.add(h.Signal(name=f"s_{k}")) for k in u.ports}
    m.u = u(**conns)
    return m

b1, b2 = Buf(unit=Analog.Inv), Buf(unit=Digital.Inv)
assert b1 is not b2
n1 = h.to_proto(b1).modules[-1].name
n2 = h.to_proto(b2).modules[-1].name
if n1 == n2:
    msgs.append(f"Buf(unit=Analog.Inv) and Buf(unit=Digital.Inv) - unequal parameters, distinct Modules - are both exported as `{n1}`")

if msgs:
    print("VIOLATION (C09: unequal calls give Modules whose exported names differ; never two different generated modules under one export name):")
    print("\n".join(msgs))
    sys.exit(1)
print("ok")
