"""C04 finding 1: copy.copy(AnonymousBundle) shares the member namespace with its original.

A connection made on the COPY (`a2.add("y", u)`, a2 connected to instance `j` only) silently becomes part of the
connection of instance `i`, which was tied to the ORIGINAL anonymous bundle `a1` (members: x only).
Expected: the copy is independent (as copies of Instances, Signals and BundleInstances are since their repairs), so
`i.b` - connected to an anonymous bundle lacking member `y` - is reported as incomplete, and in no case is `i.b_y`
tied to net `u`, which was never connected to any object that `i` was connected to.
Observed: elaboration succeeds and exports i.b_y = u; the original even refuses its own `add("y", ...)` as a duplicate.
"""
import os, sys; sys.path.insert(0, os.getcwd())
import copy
import hdl21 as h


@h.bundle
class B:
    x = h.Signal()
    y = h.Signal()


@h.module
class Leaf:
    b = B(port=True)


def main() -> int:
    m = h.Module(name="Top")
    m.s, m.t, m.u = h.Signals(3)

    a1 = h.AnonymousBundle(x=m.s)  # incomplete: no `y` (yet)
    m.i = Leaf(b=a1)

    a2 = copy.copy(a1)  # a copy, for another instance
    a2.add("y", m.u)  # ... completed with net `u`
    m.j = Leaf(b=a2)

    problems = []
    if a1.get("y") is not None:
        problems.append(f"original anonymous bundle gained member y={a1.get('y')} through an edit of its copy")
    try:
        a1.add("y", m.t)  # completing the original with ITS net `t`
    except RuntimeError as e:
        problems.append(f"original refuses its own member `y`: {e}")

    try:
        pkg = h.to_proto(m)
    except RuntimeError as e:
        # Only acceptable if the copy was independent and `a1` stayed incomplete
        if not problems:
            print("OK: incomplete connection reported:", str(e).splitlines()[-1])
            return 0
        print("\n".join(problems))
        return 1

    top = [pm for pm in pkg.modules if pm.name.endswith("Top")][0]
    conns = {i.name: {c.portname: c.target.sig for c in i.connections} for i in top.instances}
    print("exported connections:", conns)
    if conns["i"].get("b_y") == "u":
        problems.append("instance `i` port b_y is tied to net `u`, which was only ever added to the COPY connected to `j`")
    if problems:
        print("VIOLATION:")
        print("\n".join(" - " + p for p in problems))
        return 1
    return 0


if __name__ == "__main__":
    sys.exit(main())
