"""C02 finding 1: on an InstanceArray, a bundle-valued port accepts a BundleInstance of ANOTHER Bundle type whose
member widths differ from the port's. The same connection on a plain Instance is refused ("width mismatch").
ConnTypes never compares bundle types for arrays; after flattening, every member is (re-)interpreted on its own by the
array broadcasting rule, so one bundle connection is silently half broadcast, half split."""
import os, sys; sys.path.insert(0, os.getcwd())
import io
import hdl21 as h


def design(array: bool):
    PortB = h.Bundle(name="PortB")          # what the child declares
    PortB.x = h.Signal(width=2)
    PortB.y = h.Signal(width=1)
    OtherB = h.Bundle(name="OtherB")        # what the parent connects: y is 2 wide, not 1
    OtherB.x = h.Signal(width=2)
    OtherB.y = h.Signal(width=2)

    child = h.Module(name="Child_arr" if array else "Child_inst")
    child.bp = PortB(port=True)

    top = h.Module(name="Top_arr" if array else "Top_inst")
    top.b = OtherB()
    if array:
        top.u = 2 * child(bp=top.b)
    else:
        top.u = child(bp=top.b)
    return top


def attempt(array: bool):
    try:
        pkg = h.to_proto(design(array))
    except Exception as e:
        return None, f"{type(e).__name__}: {str(e).strip().splitlines()[-1]}"
    return pkg, None


pkg_i, err_i = attempt(array=False)
pkg_a, err_a = attempt(array=True)
print("plain Instance :", "ACCEPTED" if pkg_i is not None else f"refused ({err_i})")
print("InstanceArray  :", "ACCEPTED" if pkg_a is not None else f"refused ({err_a})")

if pkg_a is not None and pkg_i is None:
    top = [m for m in pkg_a.modules if m.name.endswith("Top_arr")][0]
    for inst in top.instances:
        print(" ", inst.name, {c.portname: str(c.target).strip().replace("\n", " ") for c in inst.connections})
    s = io.StringIO()
    h.netlist(pkg_a, s, fmt="spice")
    print("VIOLATION: a Bundle of another type (member `y` 2 wide on a 1-wide bundle-port member) is refused on an Instance,")
    print("but yields a package and a netlist on an InstanceArray; `x` is shared by both elements while `y` is split bit by bit.")
    sys.exit(1)
sys.exit(0)
