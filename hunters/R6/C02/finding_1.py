"""C02 finding 1: a Module and an ExternalModule with one and the same qualified name are both exported.

"... or an unnamed or name-clashing module, then elaborate, to_proto and netlist raise."
The exporter refuses two Modules with one name, and two conflicting ExternalModules with one (domain, name),
but not a Module clashing with an ExternalModule.  The netlist then has an instance `xe s t Foo` of the
two-port external `Foo` right next to `.SUBCKT Foo a` (one port) - it binds to the wrong definition.
"""
import os, sys
sys.path.insert(0, os.getcwd())
import io
import hdl21 as h
from hdl21.qualname import qualname

def build(how):
    if how == "same-domain":
        # Defined the ordinary way, in this Python module: qualified name `<__name__>.Foo`
        Foo = h.Module(name="Foo")
        E = h.ExternalModule(name="Foo", domain=__name__, port_list=[h.Port(name="a"), h.Port(name="b")])
        Top = h.Module(name="Top_" + how.replace("-", "_"))
    else:
        # Defined outside any Python module (exec / notebook / python -c): qualified name `Foo`, like an
        # ExternalModule without domain
        ns = {}
        exec("import hdl21 as h\nFoo = h.Module(name='Foo')\nTop = h.Module(name='Top_nodomain')\n"
             "E = h.ExternalModule(name='Foo', port_list=[h.Port(name='a'), h.Port(name='b')])\n", ns)
        Foo, E, Top = ns["Foo"], ns["E"], ns["Top"]
    Foo.a = h.Port()
    Top.s, Top.t = h.Signals(2)
    Top.i = Foo(a=Top.s)
    Top.e = E()(a=Top.s, b=Top.t)
    return Foo, E, Top

bad = False
for how in ("no-domain", "same-domain"):
    Foo, E, Top = build(how)
    assert qualname(Foo) == qualname(E), (qualname(Foo), qualname(E))
    try:
        pkg = h.to_proto(Top)
        dest = io.StringIO()
        h.netlist(Top, dest, fmt="spice")
    except Exception as e:
        print(f"[{how}] OK, refused: {type(e).__name__}: {str(e)[:100]}")
        continue
    bad = True
    local = [m.name for m in pkg.modules]
    ext = [(m.name.domain, m.name.name) for m in pkg.ext_modules]
    print(f"[{how}] VIOLATION: Module and ExternalModule both have qualified name `{qualname(Foo)}`, "
          f"yet to_proto returned a package with modules {local} and ext_modules {ext}, and netlist() wrote:")
    print("\n".join(l for l in dest.getvalue().splitlines() if l.strip() and not l.startswith("*")))

sys.exit(1 if bad else 0)
