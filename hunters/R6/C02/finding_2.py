"""C02 finding 2: a no-connect that is also referenced elsewhere is accepted when the reference sits
inside a Concat (or Slice) whose selected bits do not include it.

"... a no-connect that is also referenced elsewhere ... then elaborate, to_proto and netlist raise."

    m.j = Inner(q=NoConn(), ...)
    m.i.q = m.j.q                       # -> refused: "Invalid multiply-connected `NoConn`"   (as demanded)
    m.i.q = Concat(m.s, m.j.q)[1]       # -> refused, by luck: "Unresolved reference PortRef" (late, in SliceResolver)
    m.i.q = Concat(m.s, m.j.q)[0]       # -> ACCEPTED: package + netlist are produced

ResolvePortRefs only groups a no-connected port with the ports connected *directly* to its reference;
references used through Slices / Concats are not seen by `handle_noconn`.
"""
import os, sys
sys.path.insert(0, os.getcwd())
import io
import hdl21 as h


def design(tag, how):
    inner = h.Module(name=f"Inner_{tag}")
    inner.p, inner.q = h.Port(width=2), h.Port()
    m = h.Module(name=f"Top_{tag}")
    m.s = h.Signal()
    m.p0, m.p1 = h.Signals(2, width=2)
    m.j = inner(p=m.p0, q=h.NoConn())  # `j.q` is marked "not connected" ...
    m.i = inner(p=m.p1)
    m.i.q = how(m)  # ... and referenced here all the same
    return m


cases = {
    "direct": lambda m: m.j.q,
    "concat_bit1": lambda m: h.Concat(m.s, m.j.q)[1],
    "concat_bit0": lambda m: h.Concat(m.s, m.j.q)[0],
    "concat_slice": lambda m: h.Concat(m.s, m.s, m.j.q)[0:2][1],
}
bad = False
for tag, how in cases.items():
    m = design(tag, how)
    try:
        pkg = h.to_proto(m)
        dest = io.StringIO()
        h.netlist(m, dest, fmt="spice")
    except Exception as e:
        print(f"[{tag}] OK, refused: {type(e).__name__}: {str(e).splitlines()[-1][:110]}")
        continue
    bad = True
    top = [pm for pm in pkg.modules if pm.name.endswith(f"Top_{tag}")][0]
    conns = {pi.name: {c.portname: str(c.target).strip() for c in pi.connections} for pi in top.instances}
    print(f"[{tag}] VIOLATION: port `j.q` carries a NoConn and is referenced by the connection of `i.q`, "
          f"but to_proto / netlist returned. Exported connections: {conns}")

sys.exit(1 if bad else 0)
