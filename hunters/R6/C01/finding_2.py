"""
Finding 2: partial elaboration with a custom `Elaborator(passes=[ResolvePortRefs])`, followed by the normal
elaboration / export, shorts the no-connected ports of the two instances of a `Pair`.

`h.elab.Elaborator(passes=[...])` is public API; the library's own test-suite (test_bundles.py::test_bundle2)
runs `Elaborator(passes=[ResolvePortRefs]).elaborate(m)` and then `h.elaborate(m)` "the rest of the way".
With a `Pair` in the module that history silently produces a different circuit: `ResolvePortRefs` replaces the
`NoConn` on the (not yet dissolved) InstanceBundle by ONE new signal, its class-level cache then marks the module done,
and the later `InstBundleElabPass` hands that one signal to both instances.
"""
import os, sys; sys.path.insert(0, os.getcwd())
import hdl21 as h
from hdl21.elab import Elaborator
from hdl21.elab.passes import ResolvePortRefs


def build(name):
    m = h.Module(name=name)
    m.vss = h.Port()
    m.pr = h.Pair(h.R(r=1))(p=h.NoConn(), n=m.vss)
    return m


def net_of(pmod, inst_suffix, port):
    for inst in pmod.instances:
        if inst.name.rstrip("_").endswith(inst_suffix):
            for c in inst.connections:
                if c.portname == port:
                    assert c.target.WhichOneof("stype") == "sig"
                    return c.target.sig
    raise KeyError((inst_suffix, port))


def main() -> int:
    # Reference: plain export
    ref = h.to_proto(build("PairNc_ref")).modules[0]
    ref_p, ref_n = net_of(ref, "pr_p", "p"), net_of(ref, "pr_n", "p")
    print(f"plain export            : pr_p.p on `{ref_p}`, pr_n.p on `{ref_n}`")
    assert ref_p != ref_n

    # History: partial elaboration first (as in hdl21's own test_bundle2), then export
    m = build("PairNc_partial")
    Elaborator(passes=[ResolvePortRefs]).elaborate(m)
    got = h.to_proto(m).modules[0]
    got_p, got_n = net_of(got, "pr_p", "p"), net_of(got, "pr_n", "p")
    print(f"after partial elaboration: pr_p.p on `{got_p}`, pr_n.p on `{got_n}`")
    print("instances:", [i.name for i in got.instances], "signals:", [s.name for s in got.signals])

    if got_p == got_n:
        print("VIOLATION: 'A port connected to a no-connect ends on a net that contains nothing else' -")
        print("the two no-connected `p` terminals of the Pair share one net, silently.")
        return 1
    return 0


if __name__ == "__main__":
    sys.exit(main())
