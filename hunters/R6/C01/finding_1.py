"""
Finding 1: copy.copy() of an Instance shares the original's `conns` dict and reference table.

A partially connected "template" instance is copied twice; each copy then gets its own connection for
the remaining port. Both copies (and the template) share ONE `conns` dict, so the second connection
silently replaces the first: the exported package wires both instances' port `a` to `y` and leaves `x` floating.
No error is raised at any point.

The library supports copying connectables/attributes in the same spirit (`Signal.__copy__`, `BundleInstance.__copy__`,
`n * h.Signal()`, `n * B()`, `h.flipped()`); the equivalent defect for BundleInstance copies was repaired in e812671.
"""
import os, sys; sys.path.insert(0, os.getcwd())
import copy
import hdl21 as h


def nets_of(pmod):
    """{signal-name: sorted list of 'inst.port'} for a flat (primitive-only) proto module"""
    out = {}
    for inst in pmod.instances:
        for c in inst.connections:
            assert c.target.WhichOneof("stype") == "sig"
            out.setdefault(c.target.sig, []).append(f"{inst.name}.{c.portname}")
    return {k: sorted(v) for k, v in out.items()}


def main() -> int:
    m = h.Module(name="TemplateCopies")
    m.vss, m.x, m.y = h.Ports(3)

    tmpl = h.R(r=1)(n=m.vss)  # a template: `n` tied to vss, `p` still open

    i1 = copy.copy(tmpl)
    i1.p = m.x  # first copy: p = x
    i2 = copy.copy(tmpl)
    i2.p = m.y  # second copy: p = y

    m.i1 = i1
    m.i2 = i2

    pkg = h.to_proto(m)
    got = nets_of(pkg.modules[0])
    want = {"vss": ["i1.n", "i2.n"], "x": ["i1.p"], "y": ["i2.p"]}
    print("exported nets:", got)
    print("written nets :", want)
    if got != want:
        print("VIOLATION: the designer wrote i1.p = x and i2.p = y; the package puts both on one net and leaves x floating.")
        print("(copy.copy(Instance) shares `conns` and `_refs` with the original; hdl21/instance.py:_Instance has no __copy__)")
        return 1
    return 0


if __name__ == "__main__":
    sys.exit(main())
