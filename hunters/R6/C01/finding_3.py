"""
Finding 3 (names): an invented net name takes the name of a flattened bundle PORT, so the module's interface changes
with the way an internal connection was written.

Module `Top` has a `Diff` port `i_o` (flattened ports: `i_o_p`, `i_o_n`) and an instance `i` whose port `o_p` is
wired to `j.o_p` either through an explicit signal `w`, or through the port reference `i.o_p`.
Both describe the same circuit. With the reference, `ResolvePortRefs` (pass 3) invents the net `i_o_p` before
`BundleFlattener` (pass 5) names the port, which then becomes `i_o_p_`: the package declares a port `i_o_p_` and an
INTERNAL signal `i_o_p`, which is joined to `i.o_p` and `j.o_p` - terminals the design never tied to port `i_o.p`.
"""
import os, sys; sys.path.insert(0, os.getcwd())
import hdl21 as h


def leaf():
    m = h.Module(name="F3Leaf")
    m.o_p, m.q = h.Ports(2)
    m.r = h.R(r=1)(p=m.o_p, n=m.q)
    return m


L = leaf()


def build(name, use_ref):
    m = h.Module(name=name)
    m.i_o = h.Diff(port=True)
    m.i = L(q=m.i_o.n)
    if use_ref:
        m.j = L(o_p=m.i.o_p, q=m.i_o.p)  # `i.o_p` otherwise unconnected: elaboration invents its net
    else:
        m.w = h.Signal()
        m.i.o_p = m.w
        m.j = L(o_p=m.w, q=m.i_o.p)
    return m


def describe(pm):
    ports = [p.signal for p in pm.ports]
    on_net = {}
    for inst in pm.instances:
        for c in inst.connections:
            on_net.setdefault(c.target.sig, []).append(f"{inst.name}.{c.portname}")
    return ports, on_net


def main() -> int:
    ports_a, nets_a = describe(h.to_proto(build("F3TopSig", False)).modules[-1])
    ports_b, nets_b = describe(h.to_proto(build("F3TopRef", True)).modules[-1])
    print("explicit signal : ports", ports_a, " net `i_o_p`:", nets_a.get("i_o_p"))
    print("port reference  : ports", ports_b, " net `i_o_p`:", nets_b.get("i_o_p"))
    bad = False
    if sorted(ports_a) != sorted(ports_b):
        print("VIOLATION: the same circuit is exported with different top-level ports.")
        bad = True
    if "i_o_p" not in ports_b and "i_o_p" in nets_b:
        print("VIOLATION: `i_o_p` - the name of bundle port member i_o.p in every other module - is an internal net here,")
        print("           joined to", nets_b["i_o_p"], "which the design never connected to that port.")
        bad = True
    return 1 if bad else 0


if __name__ == "__main__":
    sys.exit(main())
