"""C10 finding 1: a port leaf of a bundle port loses its documented name `<inst>_<path>` to a net
name that an EARLIER elaboration pass invented (implicit net of a port reference / unnamed NoConn /
element of an instance Pair). The invented (arbitrary) name wins, the designer-visible port is renamed
with a trailing underscore, so the module's external port list depends on unrelated internal wiring."""
import os, sys; sys.path.insert(0, os.getcwd())
import hdl21 as h


def ports_of(top, modname):
    pkg = h.to_proto(top)
    (m,) = [m for m in pkg.modules if m.name.endswith("." + modname) or m.name == modname]
    sigs = {s.name: s.width for s in m.signals}
    return [p.signal for p in m.ports], [s for s in sigs if s not in {p.signal for p in m.ports}]


def build(variant: str):
    @h.bundle
    class B:
        b_c = h.Input()  # member path `b_c` -> documented flat name `a_b_c`
        d = h.Output()

    @h.module
    class Leaf:
        c = h.Inout()

    m = h.Module(name="M_" + variant)
    m.a = B(port=True)
    if variant == "baseline":
        m.n = h.Signal()
        m.a_b = Leaf(c=m.n)
        m.k = Leaf(c=m.n)
    elif variant == "portref":
        # implicit net between two instances: named `a_b_c` by ResolvePortRefs, before bundles are flattened
        m.a_b = Leaf()
        m.k = Leaf(c=m.a_b.c)
    elif variant == "noconn":
        m.a_b = Leaf(c=h.NoConn())  # un-named no-connect: net named `a_b_c`
    elif variant == "bundle-portref":
        # implicit BUNDLE net `a_b_q` (port reference to a bundle-valued port): its leaf `a_b_q_c` is flattened first
        Q = h.Bundle(name="Q")
        Q.add(h.Input(), name="c")
        B3 = h.Bundle(name="B3")
        B3.add(h.Input(), name="b_q_c")
        LeafQ = h.Module(name="LeafQ")
        LeafQ.q = Q(port=True)
        m3 = h.Module(name="M_bundle_portref")
        m3.a = B3(port=True)
        m3.a_b = LeafQ()
        m3.k = LeafQ(q=m3.a_b.q)
        return m3, "a_b_q_c"
    elif variant == "pair":
        # Pair `a_b` dissolves into instances `a_b_p`, `a_b_n` (InstBundleElabPass): give B a member `b_p` instead
        B2 = h.Bundle(name="B2")
        B2.add(h.Input(), name="b_p")
        m2 = h.Module(name="M_pair")
        m2.a = B2(port=True)
        m2.s = h.Signal()
        m2.a_b = h.Pair(Leaf)(c=m2.s)
        return m2, "a_b_p"
    return m, "a_b_c"


bad = []
for variant in ["baseline", "portref", "noconn", "bundle-portref", "pair"]:
    m, want = build(variant)
    ports, internals = ports_of(m, m.name)
    ok = want in ports
    print(f"{variant:14s} ports={ports} internal={internals} -> documented port `{want}` {'present' if ok else 'MISSING'}")
    if not ok:
        bad.append(variant)

if bad:
    print("\nVIOLATION (C10: flattened port is 'named by joining the instance name and the member path with underscores'):")
    print(f"  in variants {bad} the bundle-port leaf is exported under another name (trailing '_'),")
    print("  because a name invented earlier in elaboration for an internal net / instance took the documented one.")
    sys.exit(1)
sys.exit(0)
