"""C10 finding 3: members of a Bundle definition which are re-named after being added (`B.x.name = "z"`,
`B.sub.name = "other"`) are accepted silently. The definition keeps them under the old keys (B.x, B.sub, ConnTypes,
references) but flattening names the ports after the carried name: ports `p_z`, `p_other_a` for member paths `x`, `sub.a`.
The same edit on a Module attribute is reported at elaboration since repair 9225655; Bundles were missed."""
import os, sys; sys.path.insert(0, os.getcwd())
import hdl21 as h


@h.bundle
class In:
    a = h.Input()


@h.bundle
class B:
    x = h.Input()
    y = h.Output(width=3)
    sub = In()


B.x.name = "z"
B.sub.name = "other"
assert list(B.signals) == ["x", "y"] and list(B.bundles) == ["sub"]  # the definition's member paths
assert B.get("z") is None and B.get("other") is None


@h.module
class C:
    p = B(port=True)


@h.module
class P:
    w = B()
    c = C(p=w)


try:
    pkg = h.to_proto(P)
except Exception as e:
    print("rejected (fine):", type(e).__name__, str(e).splitlines()[-1][:200])
    sys.exit(0)

mods = {m.name.split(".")[-1]: m for m in pkg.modules}
cports = [p.signal for p in mods["C"].ports]
print("members of B        :", list(B.signals), list(B.bundles), "->", "expected ports p_x, p_y, p_sub_a")
print("exported ports of C :", cports)
want = {"p_x", "p_y", "p_sub_a"}
if set(cports) != want:
    print("\nVIOLATION (C10: port 'named by joining the instance name and the member path with underscores'):")
    print("  accepted ill-formed input: re-named members; ports", sorted(set(cports) - want), "are not member paths of B,")
    print("  and", sorted(want - set(cports)), "are missing.")
    sys.exit(1)
sys.exit(0)
