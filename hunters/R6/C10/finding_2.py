"""C10 finding 2: the repaired `BundleInstance(port=Visibility.INTERNAL)` is still open through the attribute.
`bi.port = h.Visibility.INTERNAL` (the documented Signal-style spelling, readme: "set the `port` argument to either
the boolean `True` or the `hdl21.Visibility.PORT` value") is only truth-tested: the internal bundle is flattened to PORTS,
with directions, and its own copy (`h.flipped(bi)`, `2 * bi`) is internal - original and copy disagree."""
import os, sys; sys.path.insert(0, os.getcwd())
import hdl21 as h


@h.bundle
class B:
    x = h.Input()
    y = h.Output(width=3)


def ports(m):
    pkg = h.to_proto(m)
    (pm,) = pkg.modules
    return [p.signal for p in pm.ports], [s.name for s in pm.signals]


# Reference: constructor spelling (repaired) -> internal signals
ref = h.Module(name="Ref")
ref.b = B(port=h.Visibility.INTERNAL)
ref_ports, ref_sigs = ports(ref)

# Same declaration through the attribute
m = h.Module(name="M")
bi = B()
bi.port = h.Visibility.INTERNAL
m.b = bi
m.c = h.flipped(bi)  # a copy of the very same instance
got_ports, got_sigs = ports(m)

print("constructor spelling : ports", ref_ports, "signals", ref_sigs)
print("attribute spelling   : ports", got_ports, "signals", got_sigs)

if any(p.startswith("b_") for p in got_ports):
    print("\nVIOLATION (C10: 'Leaves of non-port bundle instances become internal signals'):")
    print("  bundle instance `b`, declared INTERNAL, was flattened into module ports", [p for p in got_ports if p.startswith("b_")])
    print("  while its copy `c` (h.flipped(b)) became internal signals - the same declaration, two visibilities.")
    sys.exit(1)
sys.exit(0)
