"""
C17 finding 1: a Noise analysis whose output is a `Diff` bundle instance is exported with the names
`<diff>_p` / `<diff>_n` *recomputed* by the Sim exporter, not with the names the bundle's `p` / `n`
actually received when the testbench was flattened. When the testbench already uses `<diff>_p`
(for an unrelated signal), the flattener calls the Diff's `p` net `<diff>_p_`, and the exported
NoiseInput silently names the *unrelated* net.
"""
import os, sys; sys.path.insert(0, os.getcwd())
import hdl21 as h
from hdl21.sim import Sim, Noise, LogSweep, tb, to_proto
from hdl21.prefix import K

t = tb("NoiseDiffTb")
t.d_p = h.Signal()                 # an unrelated net, which happens to be called `d_p`
t.d = h.Diff()                     # the differential output to be measured
t.v = h.Vdc(dc=1)(p=t.d_p, n=t.VSS)
t.rp = h.R(r=1 * K)(p=t.d.p, n=t.VSS)   # <= the only thing on the Diff's `p`
t.rn = h.R(r=1 * K)(p=t.d.n, n=t.VSS)

s = Sim(tb=t)
s.noise(output=t.d, input_source=t.v, sweep=LogSweep(1, 1e9, 10), name="n1")
inp = to_proto(s)

tbmod = [m for m in inp.pkg.modules if m.name == inp.top][0]
conns = {i.name: {c.portname: c.target.sig for c in i.connections} for i in tbmod.instances}
true_p = conns["rp"]["p"]  # The net which the Diff's `p` became, as connected to `rp`
true_n = conns["rn"]["p"]
noise = inp.an[0].noise
print(f"Diff `d` flattened to p={true_p!r} n={true_n!r}")
print(f"NoiseInput exported    output_p={noise.output_p!r} output_n={noise.output_n!r}")

if (noise.output_p, noise.output_n) != (true_p, true_n):
    print("VIOLATION: the exported noise output does not name the nets of the Diff bundle given as `output`;")
    print(f"  output_p={noise.output_p!r} is the unrelated net driven by source `v` ({conns['v']['p']!r}).")
    sys.exit(1)
print("OK")
sys.exit(0)
