"""
C17 finding 3: a Noise output given as a *pair* accepts a bundle instance as a member, and exports the
bundle instance's own name as a net name. After elaboration no such net exists in the testbench
(the bundle is flattened to `<name>_<member>` signals), so the exported NoiseInput names a net which
is not in the exported package. (The same bundle given alone is, correctly, refused unless it is a `Diff`.)
"""
import os, sys; sys.path.insert(0, os.getcwd())
import hdl21 as h
from hdl21.sim import Sim, Noise, LogSweep, tb, to_proto
from hdl21.prefix import K

@h.bundle
class Trio:
    x, y, z = h.Signals(3)

t = tb("PairBundleTb")
t.a = h.Signal()
t.b = Trio()
t.v = h.Vdc(dc=1)(p=t.a, n=t.VSS)
t.r = h.R(r=1 * K)(p=t.b.x, n=t.b.y)
t.r2 = h.R(r=1 * K)(p=t.b.z, n=t.a)

try:
    inp = to_proto(Sim(tb=t, attrs=[Noise(output=(t.b, t.a), input_source=t.v, sweep=LogSweep(1, 10, 1))]))
except Exception as e:
    print("rejected:", type(e).__name__, e)
    sys.exit(0)

tbmod = [m for m in inp.pkg.modules if m.name == inp.top][0]
nets = [s.name for s in tbmod.signals]
n = inp.an[0].noise
print("testbench nets:", nets)
print("noise output  :", repr(n.output_p), repr(n.output_n))
if n.output_p not in nets:
    print(f"VIOLATION: bundle-valued member of a Noise output pair accepted; exported output_p={n.output_p!r} is not a net of the testbench")
    sys.exit(1)
print("OK")
sys.exit(0)
