"""
C17 finding 2: simulation attributes which refer to *nameless* hardware objects (objects never added to any module)
are accepted, and exported silently as empty or garbage entries:
  * `Save(h.Signal())`            -> a `Control.save` with neither `mode` nor `signal` set (the target is lost)
  * `Noise(output=h.Diff(), ...)`  -> output_p="None_p", output_n="None_n"
  * `Noise(input_source=<Instance never added>)` -> input_source=""
(The list-of-signals form of the same `Save` does fail, with a TypeError from `str.join`.)
"""
import os, sys; sys.path.insert(0, os.getcwd())
import hdl21 as h
from hdl21.sim import Sim, Noise, Save, LogSweep, tb, to_proto

t = tb("NamelessTb")
t.a = h.Signal()
t.v = h.Vdc(dc=1)(p=t.a, n=t.VSS)
loose_inst = h.Vdc(dc=1)(p=t.a, n=t.VSS)  # never added to `t`: has no name

problems = []
try:
    inp = to_proto(Sim(tb=t, attrs=[Save(h.Signal())]))
    sv = inp.ctrls[0].save
    print("Save(unnamed Signal) ->", repr(sv), "oneof:", sv.WhichOneof("save"))
    if sv.WhichOneof("save") is None or sv.signal == "":
        problems.append("Save of a nameless Signal exported as an empty Save control")
except Exception as e:
    print("Save(unnamed Signal) rejected:", type(e).__name__)

try:
    inp = to_proto(Sim(tb=t, attrs=[Noise(output=h.Diff(), input_source="v", sweep=LogSweep(1, 10, 1))]))
    n = inp.an[0].noise
    print("Noise(output=unnamed Diff) ->", repr(n.output_p), repr(n.output_n))
    if "None" in n.output_p:
        problems.append(f"Noise output of a nameless Diff exported as {n.output_p!r}/{n.output_n!r}")
except Exception as e:
    print("Noise(unnamed Diff) rejected:", type(e).__name__)

try:
    inp = to_proto(Sim(tb=t, attrs=[Noise(output="a", input_source=loose_inst, sweep=LogSweep(1, 10, 1))]))
    n = inp.an[0].noise
    print("Noise(input_source=unnamed Instance) ->", repr(n.input_source))
    if n.input_source == "":
        problems.append("Noise input_source of a nameless Instance exported as ''")
except Exception as e:
    print("Noise(unnamed Instance) rejected:", type(e).__name__)

# Variant: a Signal which is named, but belongs to another module (here: an internal net of the DUT).
# It is exported by its bare name, which in the testbench is a *different* net.
@h.module
class Dut:
    VSS = h.Port()
    a = h.Signal()  # internal net, same bare name as the testbench's `a`
    r = h.R(r=1000)(p=a, n=VSS)

t2 = tb("ForeignTb")
t2.a = h.Signal()
t2.v = h.Vdc(dc=1)(p=t2.a, n=t2.VSS)
t2.dut = Dut(VSS=t2.VSS)
try:
    inp = to_proto(Sim(tb=t2, attrs=[Save(Dut.a)]))
    sig = inp.ctrls[0].save.signal
    print("Save(Dut.a) ->", repr(sig))
    if sig == "a":
        problems.append("Save of an internal net of the DUT exported as 'a', which names the testbench's own net `a`")
except Exception as e:
    print("Save(foreign Signal) rejected:", type(e).__name__)

if problems:
    print("VIOLATION (accepted ill-formed input, names not preserved):")
    for p in problems:
        print("  -", p)
    sys.exit(1)
print("OK")
sys.exit(0)
