"""
Finding 1 - Prefixed division and power round the mantissa to the ambient decimal context (28 digits),
while + - * and multiplication by prefixes / Exponents (repaired in 243d361, 6f71961, faf402d) are exact.
The rounded value is what reaches the exported package.
"""
import os, sys; sys.path.insert(0, os.getcwd())
from decimal import Decimal
from fractions import Fraction
import hdl21 as h
from hdl21.prefix import Prefixed, MICRO, UNIT, µ


def exported_value(val) -> Fraction:
    """Export `R(r=val)` and return the exact value of what the package says, as a Fraction."""
    m = h.Module(name="M")
    m.a, m.b = h.Signals(2)
    m.r = h.R(r=val)(p=m.a, n=m.b)
    pinst = h.to_proto(m).modules[0].instances[0]
    (param,) = [p for p in pinst.parameters if p.name == "r"]
    pp = param.value.prefixed
    num = Decimal(pp.string_value) if pp.WhichOneof("number") == "string_value" else Decimal(pp.int64_value)
    from hdl21.proto.importing import import_prefix
    return Fraction(num) * Fraction(10) ** import_prefix(pp.prefix).value


# A 35-digit mantissa (the property quantifies over "Decimal mantissas of any length")
digits = "2.4690246902469024690246902469024690"
x = Prefixed(number=Decimal(digits), prefix=MICRO)
X = Fraction(Decimal(digits)) / 10**6

cases = {
    "x * 1   (control: exact since 243d361)": (lambda: x * 1, X),
    "x / 1": (lambda: x / 1, X),
    "x / 2   (quotient has 35 digits, exactly representable)": (lambda: x / 2, X / 2),
    "x / (1*UNIT)": (lambda: x / (1 * UNIT), X),
    "x ** 1": (lambda: x**1, X),
    "(x*x) / x": (lambda: (x * x) / x, X),
}
failed = []
for name, (fn, want) in cases.items():
    got = exported_value(fn())
    ok = got == want
    print(("ok      " if ok else "VIOLATED"), name, "->", fn())
    if not ok:
        failed.append(name)

if failed:
    print()
    print("Property C13 violated: 'prefixed numbers keep their exact decimal digits and prefix' /")
    print("'Decimal mantissas of any length'. The exported resistor value differs from the exact quotient / power")
    print("for:", failed)
    print("x keeps all 35 digits through x*1, x+0, x*K, x*e(3) (all repaired), but x/1, x/2, x/(1*UNIT), x**1 silently")
    print("round to the 28 digits of the ambient decimal context; no error, no warning.")
    sys.exit(1)
print("no violation")
sys.exit(0)
