"""
Finding 3 - Sky130 compile silently drops the finger count `nf` given to a MOS that maps to one of the 20 V devices.
`Nmos(model="NMOS_20p0V_STD", w=30, l=1, nf=4, mult=2)` compiles to `sky130_fd_pr__nfet_20v0(w=30, l=1, m=2)`:
`nf=4` is gone, no error. (The same primitive mapped to a 1.8 V device keeps `nf=4`.)
Since the default family NONE selects the 20 V devices too, plain `h.Nmos(w=30, l=1, nf=4)` is hit as well.
"""
import os, sys
sys.path.insert(0, os.getcwd())
for p in ("Sky130", "Gf180", "Asap7"):
    sys.path.insert(1, os.path.join(os.getcwd(), "pdks", p))
import hdl21 as h
import hdl21.primitives as hp
import sky130_hdl21


def compiled_params(call):
    m = h.Module(name="M")
    m.s = h.Signal()
    m.x = call(d=m.s, g=m.s, s=m.s, b=m.s)
    sky130_hdl21.compile(m)
    pinst = h.to_proto(m).modules[0].instances[0]
    return pinst.module.external.name, {p.name: str(p.value).replace("\n", " ").strip() for p in pinst.parameters}


violations = []
for label, call in {
    "core (control)": hp.Nmos(family="CORE", w=30, l=1, nf=4, mult=2),
    "20 V by model": hp.Nmos(model="NMOS_20p0V_STD", w=30, l=1, nf=4, mult=2),
    "20 V by default family": hp.Nmos(w=30, l=1, nf=4, mult=2),
    "20 V, nf a netlist parameter": hp.Nmos(model="PMOS_20p0V", w=30, l=1, nf="nfingers"),
}.items():
    name, params = compiled_params(call)
    print(f"{label:30s} -> {name:28s} {params.get('nf', '<< nf missing >>')}")
    if "nf" not in params:
        violations.append(label)

if violations:
    print()
    print("Property C13 violated: the `nf` given to the primitive appears nowhere on the exported instance for", violations)
    print("(4 fingers silently became the device's single finger; nothing is raised.)")
    sys.exit(1)
print("no violation")
sys.exit(0)
