"""
Finding 2 - Sky130 compile silently replaces the length given to a precision resistor.
`PhysicalResistor(model="PP_PREC_0p35", l=7*µ)` compiles (no error, no warning) to a
`sky130_fd_pr__res_high_po_0p35` whose `l` is 0.35 - a number taken from the table `default_prec_res_L`
(whose entries are in fact the *widths* the device names spell: 0p35, 0p69, ...) whatever length was given.
A generic resistor (`GEN_PO`) given the same sizes keeps them.
"""
import os, sys
sys.path.insert(0, os.getcwd())
for p in ("Sky130", "Gf180", "Asap7"):
    sys.path.insert(1, os.path.join(os.getcwd(), "pdks", p))
from decimal import Decimal
from fractions import Fraction
import hdl21 as h
from hdl21.prefix import µ
import hdl21.primitives as hp
import sky130_hdl21
from hdl21.proto.importing import import_prefix


def value(param) -> Fraction:
    pp = param.value.prefixed
    num = Decimal(pp.string_value) if pp.WhichOneof("number") == "string_value" else Decimal(pp.int64_value)
    return Fraction(num) * Fraction(10) ** import_prefix(pp.prefix).value


def compiled_params(call):
    m = h.Module(name="M")
    m.a, m.b = h.Signals(2)
    m.r = call(p=m.a, n=m.b)
    sky130_hdl21.compile(m)
    pinst = h.to_proto(m).modules[0].instances[0]
    return pinst.module.external.name, {p.name: p for p in pinst.parameters}


given = 7 * µ
results = {}
for model in ("GEN_PO", "PP_PREC_0p35", "PM_PREC_5p73"):
    name, params = compiled_params(hp.PhysicalResistor(model=model, l=given))
    results[model] = (name, value(params["l"]))
    print(f"{model:14s} -> {name:34s} l = {float(value(params['l']))}   (given: 7e-06)")
    # and two different given lengths give one and the same device
    name2, params2 = compiled_params(hp.PhysicalResistor(model=model, l=70 * µ))
    results[model] += (value(params2["l"]),)

want = Fraction(7, 10**6)
bad = [m for m, (_, got, got2) in results.items() if got != want or got == got2]
if bad:
    print()
    print("Property C13 violated ('Every parameter value given to a primitive ... appears on the exported instance")
    print("... with exactly the same value'): the length given to the precision resistors", bad, "is dropped;")
    print("l=7µ and l=70µ both export as the table value, while the generic resistor keeps 7µ.")
    sys.exit(1)
print("no violation")
sys.exit(0)
