"""
C04 / borderline - one `NoConn` object tied to several ports is accepted, although the library's own rule
("Invalid multiply-connected `NoConn`") refuses a no-connect that reaches more than one port.

The rule is only applied when the second port gets there through a *port reference* (`i2.b = i1.b`).
When the very same `NoConn` object is given to two ports (by call, by assignment, by connect() or by replace(),
e.g. re-using the object that `disconnect()` / `replace()` returned), elaboration quietly makes one new net per
port. A *named* NoConn then shows up under two different net names (`probe`, `probe_`), i.e. the one connectable
the final mapping ties both ports to is built as two nets.

Exit code 1 when the shared no-connect is accepted, 0 when it is refused (or built as a single net).
"""
import os, sys

sys.path.insert(0, os.getcwd())
import hdl21 as h


@h.module
class Inner:
    a = h.Input()
    b = h.Output()


def nets(top):
    pkg = h.to_proto(top)
    mod = [m for m in pkg.modules if m.name.endswith(top.name)][0]
    return {(i.name, c.portname): c.target.sig for i in mod.instances for c in i.connections}, [
        s.name for s in mod.signals
    ]


def by_reference():
    """The form the library checks: the second port refers to the no-connected first one."""
    m = h.Module(name="ByRef")
    m.x = h.Signal()
    m.i1 = Inner(a=m.x, b=h.NoConn())
    m.i2 = Inner(a=m.x)
    m.i2.b = m.i1.b
    try:
        h.elaborate(m)
    except RuntimeError as e:
        return "refused: " + str(e).strip().splitlines()[-1][:60]
    return "accepted"


def by_object():
    """The same NoConn object, handed from one port to a second one as well."""
    m = h.Module(name="ByObj")
    m.x = h.Signal()
    m.y = h.Signal()
    nc = h.NoConn(name="probe")
    m.i1 = Inner(a=m.x, b=nc)
    m.i2 = Inner(a=m.x, b=m.y)
    old = m.i2.replace("b", nc)  # last connection made to i2.b: the no-connect i1.b already has
    assert old is m.y
    try:
        conns, sigs = nets(m)
    except RuntimeError as e:
        return "refused: " + str(e).strip().splitlines()[-1][:60], None, None
    return "accepted", conns, sigs


r1 = by_reference()
r2, conns, sigs = by_object()
print("NoConn reaching two ports through a port reference :", r1)
print("the same NoConn object connected to two ports      :", r2)
if r2 == "accepted":
    print("  connections:", conns)
    print("  signals    :", sigs)
    if conns[("i1", "b")] != conns[("i2", "b")]:
        print(
            "VIOLATION (borderline): one connectable object is the final connection of i1.b and of i2.b, "
            "yet two nets are built; the multiply-connected-NoConn rule is not applied."
        )
        sys.exit(1)
sys.exit(0)
