"""C15 finding 1: the sample PDK ignores the `model` selector (and `vth` / `family`).

Property clauses: "selected by the documented type/family/threshold parameters or by model name" and
"a request no device satisfies raises a descriptive error".

`hdl21.pdk.sample_pdk` has four devices (nmos, pmos, nmos_model, pmos_model). Its walker looks at `params.tp` only:
* `Mos(model="pmos")` - the name of the PDK's P-channel device - compiles to the N-channel `nmos`;
* `Mos(model="no_such_device")` compiles to `nmos` too, without any error;
* so does every threshold / family the PDK does not have (vth=NATIVE, family=RF, ...).
Sky130, GF180 and ASAP7 all select by model name and raise `RuntimeError("No Mos module for model name ...")` for an unknown one.
"""
import os, sys; sys.path.insert(0, os.getcwd())
import io
import hdl21 as h
from hdl21.pdk import sample_pdk


def compiled_target(call):
    m = h.Module(name="Top")
    m.d, m.g, m.s, m.b = h.Signals(4)
    m.x = call(d=m.d, g=m.g, s=m.s, b=m.b)
    sample_pdk.compile(m)
    pkg = h.to_proto(m)
    inst = pkg.modules[0].instances[0]
    buf = io.StringIO()
    h.netlist(m, buf, fmt="spice")
    return inst.module.external.name, buf.getvalue()


bad = []

# 1. Selection by model name: "pmos" is the name of the PDK's P-channel device
name, netlist = compiled_target(h.Mos(model="pmos"))
print(f"Mos(model='pmos')            -> {name}")
if name != "pmos":
    bad.append(f"Mos(model='pmos') compiled to `{name}`: the model name is ignored, an N-channel device is netlisted")

# 2. A model no device of the PDK has
try:
    name, _ = compiled_target(h.Mos(model="no_such_device"))
    print(f"Mos(model='no_such_device')  -> {name}")
    bad.append(f"Mos(model='no_such_device') compiled to `{name}` instead of raising a descriptive error")
except RuntimeError as e:
    print("Mos(model='no_such_device') raised", e)

# 3. A threshold / family the PDK does not have
try:
    name, _ = compiled_target(h.Mos(tp=h.MosType.PMOS, vth=h.MosVth.NATIVE, family=h.MosFamily.RF))
    print(f"Mos(PMOS, NATIVE, RF)        -> {name}")
    bad.append(f"Mos(tp=PMOS, vth=NATIVE, family=RF) compiled to `{name}` instead of raising: the sample PDK has no such device")
except RuntimeError as e:
    print("Mos(PMOS, NATIVE, RF) raised", e)

if bad:
    print("\nVIOLATION (C15):")
    for b in bad:
        print(" *", b)
    sys.exit(1)
print("OK")
sys.exit(0)
