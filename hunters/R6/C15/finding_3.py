"""C15 finding 3: Sky130 diodes - a given size and the PDK's default size disagree by 1e12 (area) and 1e6 (perimeter).

Property clause: "sized with the given values or the PDK's defaults".

The Sky130 package documents its diode parameters as `area` in pm^2 and `pj` scaled likewise ("measurements for diodes are
multiplied by 1e12 in Sky130"; read-me example `par(area=0.3 * TERA, pj=1.2 * MEGA)` for a 0.55 um x 0.55 um diode), and the
default device call is `area=1*TERA, pj=4*MEGA`: a 1 um x 1 um junction.
Asking for exactly that junction, `Diode(model=..., w=1*µ, l=1*µ)`, compiles to `area=1, pj=4`:
`Sky130Walker.diode_module_call` computes `w * l * TERA` and `2*(w+l) * MEGA` from the sizes in metres, i.e. 1e-12 * 1e12.
The netlisted device is 1e12 times smaller in area than the default device of the same drawn size; no error, no warning.
(GF180, whose diode parameters are in SI units, gives 1p / 4u in both cases.)
"""
import os, sys; sys.path.insert(0, os.getcwd())
sys.path.insert(1, os.path.join(os.getcwd(), "pdks", "Sky130"))
import io
import hdl21 as h
from hdl21.prefix import µ
import sky130_hdl21


def _num(pv):
    """Numeric value of an exported `vlsir.ParamValue`"""
    from decimal import Decimal
    import vlsir
    kind = pv.WhichOneof("value")
    if kind == "prefixed":
        pk = pv.prefixed.WhichOneof("number")
        exps = {"YOCTO": -24, "ZEPTO": -21, "ATTO": -18, "FEMTO": -15, "PICO": -12, "NANO": -9, "MICRO": -6, "MILLI": -3,
                "CENTI": -2, "DECI": -1, "UNIT": 0, "DECA": 1, "HECTO": 2, "KILO": 3, "MEGA": 6, "GIGA": 9, "TERA": 12,
                "PETA": 15, "EXA": 18, "ZETTA": 21, "YOTTA": 24}
        return float(Decimal(str(getattr(pv.prefixed, pk))).scaleb(exps[vlsir.SIPrefix.Name(pv.prefixed.prefix)]))
    return float(getattr(pv, kind))


def compiled(call):
    m = h.Module(name="Top")
    m.p, m.n = h.Signals(2)
    m.x = call(p=m.p, n=m.n)
    sky130_hdl21.compile(m)
    # The netlist, as the simulator gets it
    buf = io.StringIO()
    h.netlist(m, buf, fmt="spice")
    line = [l for l in buf.getvalue().splitlines() if "area=" in l][0].strip()
    # And the exported package
    inst = h.to_proto(m).modules[0].instances[0]
    vals = {p.name: _num(p.value) for p in inst.parameters}
    return vals["area"], vals["pj"], line


bad = []
for model in ("PWND_5p5V", "PDNW_11p0V"):
    a0, p0, s0 = compiled(h.Diode(model=model))
    a1, p1, s1 = compiled(h.Diode(model=model, w=1 * µ, l=1 * µ))
    print(f"{model}: default size      -> {s0}")
    print(f"{model}: w=1um, l=1um given -> {s1}")
    if a0 != a1 or p0 != p1:
        bad.append(f"{model}: default device area={a0:g} pj={p0:g}, but the same 1um x 1um size given explicitly yields area={a1:g} pj={p1:g} "
                   f"(ratio {a0/a1:g} / {p0/p1:g})")

if bad:
    print("\nVIOLATION (C15):")
    for b in bad:
        print(" *", b)
    sys.exit(1)
print("OK")
sys.exit(0)
