"""C15 finding 2: GF180 ignores the threshold selector `vth`; a request no device satisfies is compiled silently.

Property clauses: "selected by the documented type/family/threshold parameters or by model name" and
"a request no device satisfies raises a descriptive error"; quantified over "every type/family/threshold triple".

`Gf180Walker.mos_module` builds its match arguments from (tp, family) only. Hence
* `Mos(tp=NMOS, family=IO, vth=NATIVE)` compiles to the *standard* `nfet_06v0`, although the PDK's table does hold a
  native 6 V NMOS (`NFET_6p0V_NAT` -> `nfet_06v0_nvt`). The native device cannot be reached by any triple at all:
  its family NONE is shared by three NMOS entries, so (NMOS, NONE, NATIVE) is refused as "not well-defined".
* `Mos(tp=PMOS, family=CORE, vth=HIGH)` (GF180 has no high-threshold devices) compiles to `pfet_03v3`; so do LOW, ULTRA_LOW, ZERO ...
Sky130 and ASAP7 raise `RuntimeError("No Mos module for ...")` for thresholds they do not have.
(Related, same kind: ASAP7 ignores `family`: Mos(family=IO) / RF / LP / HP all compile to the core `nmos_rvt`.)
"""
import os, sys; sys.path.insert(0, os.getcwd())
for p in ("Gf180", "Asap7"):
    sys.path.insert(1, os.path.join(os.getcwd(), "pdks", p))
import hdl21 as h
import gf180_hdl21
from gf180_hdl21.primitives.prim_dicts import xtors


def compiled_target(compile_fn, call):
    m = h.Module(name="Top")
    m.d, m.g, m.s, m.b = h.Signals(4)
    m.x = call(d=m.d, g=m.g, s=m.s, b=m.b)
    compile_fn(m)
    return h.to_proto(m).modules[0].instances[0].module.external.name


bad = []
native = [k for k in xtors if "NAT" in k[0]]
print("GF180 table entries for native devices:", [(k[0], xtors[k].name) for k in native])

for tp, fam, vth in (
    (h.MosType.NMOS, h.MosFamily.IO, h.MosVth.NATIVE),
    (h.MosType.PMOS, h.MosFamily.CORE, h.MosVth.HIGH),
    (h.MosType.NMOS, h.MosFamily.CORE, h.MosVth.ULTRA_LOW),
):
    try:
        name = compiled_target(gf180_hdl21.compile, h.Mos(tp=tp, family=fam, vth=vth))
    except RuntimeError as e:
        print(f"({tp.name}, {fam.name}, {vth.name}) raised: {e}")
        continue
    std = compiled_target(gf180_hdl21.compile, h.Mos(tp=tp, family=fam, vth=h.MosVth.STD))
    print(f"GF180 ({tp.name}, {fam.name}, {vth.name}) -> {name}   [(.., STD) -> {std}]")
    if name == std:
        bad.append(f"GF180 Mos({tp.name}, {fam.name}, vth={vth.name}) silently compiled to the standard-threshold `{name}`")

# The native device is not reachable through its own documented triple
try:
    name = compiled_target(gf180_hdl21.compile, h.Mos(tp=h.MosType.NMOS, family=h.MosFamily.NONE, vth=h.MosVth.NATIVE))
    print("GF180 (NMOS, NONE, NATIVE) ->", name)
except RuntimeError as e:
    print("GF180 (NMOS, NONE, NATIVE) raised:", e)

# Related: ASAP7 and the family selector (reported, not counted)
try:
    import asap7_hdl21
    for fam in (h.MosFamily.IO, h.MosFamily.RF):
        print(f"ASAP7 (NMOS, {fam.name}, STD) ->", compiled_target(asap7_hdl21.compile, h.Mos(family=fam)))
except ImportError:
    pass

if bad:
    print("\nVIOLATION (C15):")
    for b in bad:
        print(" *", b)
    sys.exit(1)
print("OK")
sys.exit(0)
