"""
C09 finding 3 (accepted ill-formed input -> process / history dependent name and value):
a `Tuple[str, ...]` (or `Tuple[int, ...]`) parameter accepts a Python `set` and silently turns it into a tuple in the
set's iteration order.  That order is a function of the hash seed (strings) or of the set's insertion history (ints), so

  * the same source line `G(pins={"vdd", "vss", "inp", "inn", "out"})` yields a different parameter value, a different
    generated Module (different port order) and a different export name from process to process, and
  * within one process two EQUAL arguments ({0, 8} and {8, 0}) give two different Modules under two names.

  "The name depends only on the generator and the parameter values - not on call order, process or memory addresses"
  "Calling a generator twice with equal parameters ... returns the identical Module and runs the body once"

(Set-typed fields were made reproducible by commit 0d803d7; a set handed to a sequence-typed field is not refused.)
Exit code 1 when the violation occurs, 0 otherwise.
"""
import os, sys, subprocess

sys.path.insert(0, os.getcwd())

CHILD = r'''
import os, sys; sys.path.insert(0, os.getcwd())
from typing import Tuple
import hdl21 as h

@h.paramclass
class P:
    pins = h.Param(dtype=Tuple[str, ...], desc="Pin names, in order")

@h.generator
def Pads(p: P) -> h.Module:
    m = h.Module()
    for name in p.pins:
        m.add(h.Port(name=name))
    return m

m = Pads(pins={"vdd", "vss", "inp", "inn", "out"})
pm = h.to_proto(m).modules[-1]
print(pm.name, ",".join(p.signal for p in pm.ports))
'''


def child(seed: int) -> str:
    env = dict(os.environ, PYTHONHASHSEED=str(seed))
    r = subprocess.run([sys.executable, "-c", CHILD], capture_output=True, text=True, cwd=os.getcwd(), env=env)
    if r.returncode != 0:
        return "REFUSED: " + (r.stderr.strip().splitlines() or ["?"])[-1][:150]
    return r.stdout.strip()


def main() -> int:
    from typing import Tuple
    import hdl21 as h

    print("hdl21 from", h.__file__)
    bad = False

    # (a) across processes
    outs = {seed: child(seed) for seed in (1, 2, 3)}
    for seed, out in outs.items():
        print(f"PYTHONHASHSEED={seed}: {out}")
    if len(set(outs.values())) > 1 and not any(o.startswith("REFUSED") for o in outs.values()):
        bad = True
        print("   => one source line, different export names (and port orders) in different processes")

    # (b) within one process: equal arguments, different Modules
    @h.paramclass
    class Q:
        taps = h.Param(dtype=Tuple[int, ...], desc="Tap positions")

    runs = []

    @h.generator
    def Taps(p: Q) -> h.Module:
        runs.append(p)
        return h.Module()

    s1, s2 = {0, 8}, {8, 0}
    try:
        m1, m2 = Taps(taps=s1), Taps(taps=s2)
        n1, n2 = h.to_proto(m1).modules[-1].name, h.to_proto(m2).modules[-1].name
        print(f"s1 == s2: {s1 == s2};  Taps(taps=s1) is Taps(taps=s2): {m1 is m2};  body runs: {len(runs)};  names: {n1} / {n2}")
        if s1 == s2 and (m1 is not m2 or n1 != n2):
            bad = True
            print("   => equal arguments, two Modules under two names")
    except Exception as e:
        print("set refused for Tuple[int, ...]:", type(e).__name__, str(e)[:150])

    if bad:
        print()
        print("VIOLATION (C09): an unordered set is accepted for an ordered (tuple) parameter; name, value and generated")
        print("Module depend on the process' hash seed / the set's insertion history.")
        return 1
    print("no violation")
    return 0


if __name__ == "__main__":
    sys.exit(main())
