"""
C09 finding 1: -0.0 / 0.0 inside a *typed container* parameter (Tuple[float, ...], FrozenSet[float], a tuple inside
a nested param-class, a dict-valued external-module call) is not canonicalised in the generated name.

(0.0,) == (-0.0,) and hash equally, so both spellings are ONE memoised generator call and ONE Module - but that Module
is named after whichever spelling happened to be called first.  The export name therefore depends on call order
(and differs from process to process), which the property forbids:
  "The name depends only on the generator and the parameter values - not on call order, process or memory addresses"
The earlier repair (commit 89e56f5, `_positive_zero`) only covers float values that are *direct* fields.

Exit code 1 when the violation occurs, 0 otherwise.
"""
import os, sys, subprocess

sys.path.insert(0, os.getcwd())

CHILD = r'''
import os, sys; sys.path.insert(0, os.getcwd())
from typing import Tuple, FrozenSet
import hdl21 as h

@h.paramclass
class Inner:
    pts = h.Param(dtype=Tuple[float, ...], desc="points", default=())

@h.paramclass
class P:
    offs = h.Param(dtype=Tuple[float, ...], desc="offsets", default=())
    fs = h.Param(dtype=FrozenSet[float], desc="set of floats", default=frozenset())
    inner = h.Param(dtype=Inner, desc="nested", default=Inner())
    top = h.Param(dtype=float, desc="a direct float field (control: this one was repaired)", default=1.5)

BODY_RUNS = []

@h.generator
def G(p: P) -> h.Module:
    BODY_RUNS.append(p)
    m = h.Module()
    m.a = h.Port()
    return m

which, order = sys.argv[1], sys.argv[2]
POS = {"tuple": dict(offs=(0.0, 1.0)), "fset": dict(fs=frozenset([0.0])), "nested": dict(inner=Inner(pts=(0.0,))), "control": dict(top=0.0)}[which]
NEG = {"tuple": dict(offs=(-0.0, 1.0)), "fset": dict(fs=frozenset([-0.0])), "nested": dict(inner=Inner(pts=(-0.0,))), "control": dict(top=-0.0)}[which]
first, second = (POS, NEG) if order == "pos_first" else (NEG, POS)
m1 = G(**first)
m2 = G(**second)
assert m1 is m2 and len(BODY_RUNS) == 1, "the two spellings are expected to be one memoised call"

@h.module
class Top:
    a = h.Signal()
    i1 = m1(a=a)
    i2 = m2(a=a)

pkg = h.to_proto(Top)
names = [m.name for m in pkg.modules if "Top" not in m.name]
assert len(names) == 1
print(names[0])
'''


def child(which: str, order: str) -> str:
    env = dict(os.environ)
    r = subprocess.run([sys.executable, "-c", CHILD, which, order], capture_output=True, text=True, cwd=os.getcwd(), env=env)
    if r.returncode != 0:
        print(r.stderr)
        raise SystemExit(2)
    return r.stdout.strip()


def main() -> int:
    import hdl21

    print("hdl21 from", hdl21.__file__)
    bad = []
    for which in ["control", "tuple", "fset", "nested"]:
        a = child(which, "pos_first")
        b = child(which, "neg_first")
        same = a == b
        print(f"[{which:8}] export name when 0.0 is called first : {a}")
        print(f"[{which:8}] export name when -0.0 is called first: {b}   -> {'same' if same else 'DIFFERENT'}")
        if not same:
            bad.append(which)
    if bad:
        print()
        print("VIOLATION (C09): one memoised generator call / one Module (equal parameter values, body run once) is exported")
        print("under a name that depends on which spelling of zero was called first, for parameter shapes:", bad)
        print("The direct float field ('control') is canonicalised; floats nested in tuples / frozensets / nested param-classes are not.")
        return 1
    print("no violation")
    return 0


if __name__ == "__main__":
    sys.exit(main())
