"""
C09 finding 2: `@h.paramclass` silently accepts fields written as bare type annotations (`width: int`), although its
contract is "all non-Python-internal fields must be of type `Param`".  Such a field becomes a real, required,
type-checked constructor parameter of the param-class (it takes part in `==` and `hash`, so calls differing in it are
different memoised calls, and the generator body sees it) - but it is not in `__params__`, which is what the readable
`k=v k=v` form of the generated name (and `hasparams`) is built from.

Result: calls with unequal parameters return distinct Modules with the SAME exported name, silently:
  "calls with unequal parameters return distinct Modules whose exported names differ"

Exit code 1 when the violation occurs, 0 otherwise.
"""
import os, sys

sys.path.insert(0, os.getcwd())
import hdl21 as h

print("hdl21 from", h.__file__)

try:

    @h.paramclass
    class BusParams:
        width: int  # <- annotation style (the mistake the FIXME in paramclass() talks about). Accepted silently.
        depth = h.Param(dtype=int, desc="Depth", default=1)

    @h.paramclass
    class OnlyAnnotated:
        width: int

except Exception as e:
    print("param-class with annotation-only field is refused:", type(e).__name__, e)
    print("no violation")
    sys.exit(0)


@h.generator
def Bus(p: BusParams) -> h.Module:
    m = h.Module()
    m.d = h.Port(width=p.width)
    return m


@h.generator
def Bus2(p: OnlyAnnotated) -> h.Module:
    m = h.Module()
    m.d = h.Port(width=p.width)
    return m


bad = False
for gen in (Bus, Bus2):
    try:
        m8, m16 = gen(width=8), gen(width=16)
    except Exception as e:
        print(gen, "call refused:", type(e).__name__, str(e)[:200])
        continue
    p8, p16 = h.to_proto(m8), h.to_proto(m16)
    n8, n16 = p8.modules[-1].name, p16.modules[-1].name
    w8, w16 = p8.modules[-1].signals[0].width, p16.modules[-1].signals[0].width
    print(f"{gen.name}(width=8)  -> Module id {id(m8):#x}, exported as {n8!r}, port width {w8}")
    print(f"{gen.name}(width=16) -> Module id {id(m16):#x}, exported as {n16!r}, port width {w16}")
    if m8 is not m16 and n8 == n16:
        bad = True
        print("   => unequal parameters, two different Modules, ONE export name")

        # In one design the exporter notices (loudly); the two names are nonetheless equal, which the property forbids.
        @h.module
        class Top:
            a = h.Signal(width=8)
            b = h.Signal(width=16)
            i8 = m8(d=a)
            i16 = m16(d=b)

        try:
            h.to_proto(Top)
            print("   both in one design: exported without complaint")
        except RuntimeError as e:
            print("   both in one design:", str(e).splitlines()[0][:150])

if bad:
    print()
    print("VIOLATION (C09): an ill-formed param-class (annotation-only field) is accepted; the field is a real parameter for")
    print("construction, equality, hashing and the generator body, but is left out of the generated module name.")
    sys.exit(1)
print("no violation")
sys.exit(0)
