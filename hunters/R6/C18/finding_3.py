"""
C18 finding 3 (neighbouring): `from_proto` builds Modules with `Module.add`, whose "a re-used name replaces the old
object" semantics silently drops content of the imported package.

"each name denotes exactly one object": a VLSIR module keeps signals and instances in two separate lists, an hdl21 Module
in ONE namespace. `ProtoImporter.import_module` adds first the signals / ports, then the instances, without looking
whether the name is in use:
  A. an instance named like a port (legal in VLSIR and in every netlist format) REPLACES the port: the imported Module
     silently has one port less;
  B. two instances of one name (ill-formed input): the first one silently disappears, instead of being refused.

Exit code 1 when the violation is observed, 0 otherwise.
"""
import os, sys

sys.path.insert(0, os.getcwd())
import hdl21 as h

problems = []


def package():
    m = h.Module(name="M")
    m.a, m.b, m.c = h.Ports(3)
    m.r1 = h.R(r=1)(p=m.a, n=m.b)
    m.r2 = h.R(r=2)(p=m.a, n=m.b)
    return h.to_proto(m)


def roundtrip(pkg):
    ns = h.from_proto(pkg)
    M = getattr(ns, "__main__").M
    out = h.to_proto(M)
    pm = out.modules[0]
    return [p.signal for p in pm.ports], [i.name for i in pm.instances]


# Control
ports, insts = roundtrip(package())
assert ports == ["a", "b", "c"] and insts == ["r1", "r2"], (ports, insts)

# A: instance `c` next to (unconnected) port `c`
pkg = package()
pkg.modules[0].instances[0].name = "c"
try:
    ports, insts = roundtrip(pkg)
    if ports != ["a", "b", "c"] or sorted(insts) != ["c", "r2"]:
        problems.append(f"A: package with ports [a, b, c] and instances [c, r2] imports as ports {ports}, instances {insts}")
except Exception as e:
    pass  # loud

# B: two instances called `r1`
pkg = package()
pkg.modules[0].instances[1].name = "r1"
try:
    ports, insts = roundtrip(pkg)
    problems.append(f"B: package with two instances named `r1` is accepted, and imports as instances {insts}")
except Exception as e:
    pass  # refused: fine

if problems:
    print("VIOLATION (C18, importer): names re-used inside an imported package silently replace ports / instances")
    for p in problems:
        print(" -", p)
    sys.exit(1)
print("ok: property holds")
sys.exit(0)
