"""
C18 finding 4 (neighbouring): a `copy.copy()` of an Instance / InstanceArray / instance bundle is accepted as a second
attribute, but is not a second object: it shares the connection table and the hand-out of port references of its original.

"each name denotes exactly one object": `Signal` and `BundleInstance` define `__copy__` (and `n * sig`, `n * bundle_inst`
rely on it); the Instance types do not, so `copy.copy(inst)` is Python's default shallow copy: same `conns` dict, same
`_refs`. `m.j = copy.copy(m.i)` passes every check (the copy is not "held" by `m`), after which
  * connecting a port of `m.j` connects (or re-connects) that port of `m.i`, and vice versa;
  * `m.j.<port>` is a reference to the port of `m.i`.
The design is elaborated and exported without any complaint, with connections nobody wrote.

Exit code 1 when the violation is observed, 0 otherwise.
"""
import os, sys, copy

sys.path.insert(0, os.getcwd())
import hdl21 as h

problems = []

C = h.Module(name="C")
C.a, C.b = h.Ports(2)

m = h.Module(name="M")
m.s, m.t, m.u = h.Signals(3)
m.i = C(a=m.s)
try:
    m.j = copy.copy(m.i)  # "another one like `i`"
    m.j.b = m.t  # j.b = t
    m.i.b = m.u  # i.b = u
    pkg = h.to_proto(m)
    got = {
        i.name: {c.portname: c.target.sig for c in i.connections}
        for i in [pm for pm in pkg.modules if pm.name.endswith(".M")][0].instances
    }
    want = {"i": {"a": "s", "b": "u"}, "j": {"a": "s", "b": "t"}}
    if got != want:
        problems.append(f"written: {want}; exported: {got}")
except Exception as e:
    pass  # refused / loud: fine

if problems:
    print("VIOLATION (C18, copies of instances): two attribute names, one connection table")
    for p in problems:
        print(" -", p)
    sys.exit(1)
print("ok: property holds")
sys.exit(0)
