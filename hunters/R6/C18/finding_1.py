"""
C18 finding 1: the bundle-valued port of an ELABORATED Module can be taken (and re-named) by another Module.

"each name denotes exactly one object ... and the object reports that module as its parent";
"additions after elaboration are rejected" / an object is held by one Module, under one name.

Elaboration "dissolves" bundle instances (and arrays, instance bundles): they are popped from `namespace`, but a
bundle-valued PORT stays part of the module's interface (the pre-flattening IO which new parents, `Wrapper`, `Series`
and `is_tb` use). The one-holder check looks objects up by identity in `namespace` only, so it no longer sees them:
`other.zz = bp` is accepted, re-names the port of the finished module and re-parents it.

Exit code 1 when the violation is observed, 0 otherwise.
"""
import os, sys

sys.path.insert(0, os.getcwd())
import hdl21 as h
from hdl21.generators import Wrapper

problems = []


def port_dirs(mod) -> dict:
    """{module: {port: direction}} of the exported package of `mod`"""
    pkg = h.to_proto(mod)
    return {
        pm.name.split(".")[-1]: {p.signal: int(p.direction) for p in pm.ports}
        for pm in pkg.modules
    }


def mk(name):
    P = h.Module(name=name)
    a = P.add(h.Diff(port=True, role=h.Diff.Roles.SOURCE), name="a")
    b = P.add(h.Diff(port=True, role=h.Diff.Roles.SINK), name="b")
    P.r1 = h.R(r=1)(p=a.p, n=b.p)
    P.r2 = h.R(r=1)(p=a.n, n=b.n)
    return P, a, b


# ---- Control: an elaborated module and its Wrapper
P, a, b = mk("Ctl")
h.elaborate(P)
ctl = port_dirs(Wrapper(P))
ctl_inner, ctl_wrap = ctl["Ctl"], ctl["CtlWrapper"]
assert ctl_inner == ctl_wrap, ctl  # the wrapper has the ports of its unit, with the same directions

# ---- Part A: one foreign assignment re-names the port of a finished module
P, a, b = mk("PA")
h.elaborate(P)
other = h.Module(name="OtherA")
accepted = True
try:
    other.zz = a  # `a` is the bundle port `a` of the elaborated module PA
except Exception as e:
    accepted = False
if accepted:
    msg = f"A: `other.zz = <bundle port 'a' of elaborated PA>` was accepted; the port is now called {a.name!r}, parent {a._parent_module}"
    try:
        w = port_dirs(Wrapper(P))
        if w["PAWrapper"] != w["PA"]:
            problems.append(msg + f"; Wrapper(PA) exports ports {w['PAWrapper']} for a unit with ports {w['PA']}")
    except Exception as e:
        problems.append(msg + f"; and Wrapper(PA), which works for the untouched control, now fails: ...{str(e)[-160:]}")

# ---- Part B: two foreign assignments, silently wrong export (no error anywhere)
P, a, b = mk("PB")
h.elaborate(P)
other = h.Module(name="OtherB")
try:
    other.b = a
    other.a = b
    w = port_dirs(Wrapper(P))
    if w["PBWrapper"] != w["PB"]:
        problems.append(
            f"B: after `other.b = PB's a; other.a = PB's b` (both accepted), Wrapper(PB) is exported with port directions "
            f"{w['PBWrapper']} around a unit with {w['PB']} (1 = OUTPUT, 0 = INPUT): outputs wired to wrapper inputs"
        )
except Exception as e:
    pass  # rejected, or loud: not the silent case

if problems:
    print("VIOLATION (C18): attributes dissolved by elaboration can be taken over by another Module")
    for p in problems:
        print(" -", p)
    sys.exit(1)
print("ok: property holds")
sys.exit(0)
