"""
C18 finding 2: a Module (or Bundle) takes - and re-names - the port objects of an ExternalModule or of a built-in Primitive.

"each name denotes exactly one object ... and the object reports that module as its parent" / one object, one holder:
`Module.__setattr__` / `add` refuse objects held by a Bundle or by an elaborated Module, but `_holder_of` only knows
`_parent_module` / `_parent_bundle`. The Signals in `ExternalModule.port_list` / `Primitive.port_list` carry neither,
and `.ports` of both is computed from the *current* names of those Signals. So `m.vdd = E.ports["d"]` is accepted and
silently re-names port `d` of `E` (for `h.Mos`: of the process-wide MOS primitive) to `vdd`. Designs made afterwards -
which never touch `m` - fail, or are netlisted with their connections in another order.

Exit code 1 when the violation is observed, 0 otherwise.
"""
import os, sys, io

sys.path.insert(0, os.getcwd())
import hdl21 as h

problems = []


def spice(mod) -> list:
    out = io.StringIO()
    h.netlist(mod, out, fmt="spice")
    return [l.strip() for l in out.getvalue().splitlines() if l.strip() and not l.startswith("*")]


def design(E, name):
    """A design which uses `E` correctly: d, g, s by name"""
    n = h.Module(name=name)
    n.a, n.b, n.c = h.Ports(3)
    n.x = E()(d=n.a, g=n.b, s=n.c)
    return n


# ---- Part A: silent mis-wiring of an unrelated design
E = h.ExternalModule(
    name="Ext", port_list=[h.Port(name="d"), h.Port(name="g"), h.Port(name="s")], desc="a three-terminal device"
)
before = spice(design(E, "User"))

thief = h.Module(name="Thief")
accepted = True
try:
    thief.g = E.port_list[0]  # the `d` port object of Ext
    thief.d = E.port_list[1]  # the `g` port object of Ext
except Exception:
    accepted = False
if accepted:
    after = spice(design(E, "User"))
    if after != before:
        problems.append(
            "A: `thief.g = Ext.port_list[0]; thief.d = Ext.port_list[1]` were accepted, and now name the ports of "
            f"Ext {[p.name for p in E.port_list]}. The same design `Ext()(d=a, g=b, s=c)` was netlisted as\n"
            f"      {' '.join(before)}\n   before, and is now\n      {' '.join(after)}"
        )

# ---- Part B: the built-in primitives are process-wide state
def mos_design(name):
    n = h.Module(name=name)
    n.a, n.b = h.Ports(2)
    n.m = h.Nmos()(d=n.a, g=n.a, s=n.b, b=n.b)
    return n


ok_before = True
try:
    h.to_proto(mos_design("MosUser1"))
except Exception:
    ok_before = False
thief2 = h.Module(name="Thief2")
accepted = True
try:
    thief2.vdd = h.Mos.ports["d"]
except Exception:
    accepted = False
if accepted and ok_before:
    try:
        h.to_proto(mos_design("MosUser2"))
        if "d" not in h.Mos.ports:
            problems.append(f"B: `thief2.vdd = h.Mos.ports['d']` was accepted; h.Mos now has ports {list(h.Mos.ports)}")
    except Exception as e:
        problems.append(
            f"B: `thief2.vdd = h.Mos.ports['d']` was accepted; h.Mos now has ports {list(h.Mos.ports)}, and every later "
            f"design using h.Nmos / h.Pmos / h.Mos(d=...) in this process fails: ...{str(e)[-150:]}"
        )

if problems:
    print("VIOLATION (C18): port objects of ExternalModules / Primitives can be taken over, and are re-named, by a Module")
    for p in problems:
        print(" -", p)
    sys.exit(1)
print("ok: property holds")
sys.exit(0)
