"""C03 borderline finding: the public constructor `h.Slice(parent=, index=)` silently coerces non-integer
indices ("1", b"1", 1.0) to the integer 1, where a Python list - and `sig["1"]` / `sig[1.0]` themselves - raise TypeError.
The coerced slice elaborates and is exported as bit 1 of the signal: ill-formed input is accepted."""
import os, sys; sys.path.insert(0, os.getcwd())
import hdl21 as h

def bits(idx):
    Snk = h.Module(name="Snk"); Snk.p = h.Port(width=1)
    top = h.Module(name="Top"); top.s = h.Signal(width=4)
    top.u = Snk(p=h.Slice(parent=top.s, index=idx))
    pkg = h.to_proto(top)
    t = pkg.modules[-1].instances[0].connections[0].target
    return (t.slice.signal, t.slice.bot, t.slice.top)

bad = []
for idx in ["1", b"1", 1.0]:
    # What Python sequences do
    try:
        [0, 1, 2, 3][idx]; py = "accepted"
    except TypeError:
        py = "TypeError"
    # What square brackets do
    try:
        h.Signal(width=4)[idx]; br = "accepted"
    except TypeError:
        br = "TypeError"
    try:
        got = bits(idx)
    except Exception as e:
        got = f"rejected ({type(e).__name__})"
    print(f"index {idx!r}: python list -> {py}; sig[...] -> {br}; h.Slice(...) elaborated/exported -> {got}")
    if not str(got).startswith("rejected"):
        bad.append(idx)
if bad:
    print(f"VIOLATION: non-integer indices {bad} accepted by h.Slice() and exported as bit 1")
    sys.exit(1)
sys.exit(0)
