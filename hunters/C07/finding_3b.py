"""
C07 finding 3b (same mechanism as finding 3): an interrupted elaboration (Ctrl-C, here delivered by a timer)
permanently turns every module that was on the stack into one that raises KeyboardInterrupt whenever it is
elaborated or exported again - without any further interrupt. "Elaborating or exporting again changes nothing"
does not hold: a retry can never succeed, also not for sub-designs that were merely on the stack.

Exit code 1 when the violation occurs, 0 otherwise.
"""
import os, sys, signal

sys.path.insert(0, os.getcwd())
import hdl21 as h


def build(n=150, fan=40):
    """A chain of modules, each with a number of resistors: slow enough to be interrupted"""
    mods, prev = [], None
    for k in range(n):
        m = h.Module(name=f"L{k}")
        m.p = h.Port()
        for j in range(fan):
            m.add(h.R(r=1000)(p=m.p, n=m.p), name=f"r{j}")
        if prev is not None:
            m.i = prev(p=m.p)
        mods.append(m)
        prev = m
    return mods


def outcome(fn):
    try:
        return ("ok", fn().SerializeToString(deterministic=True))
    except BaseException as e:
        return ("error", type(e).__name__)


def interrupt(*_):
    raise KeyboardInterrupt


mods = build()
fresh = outcome(lambda: h.to_proto(mods[-1]))
signal.signal(signal.SIGALRM, interrupt)

first = retry = None
for delay in (0.02, 0.01, 0.05, 0.1, 0.005, 0.2):
    mods = build()
    signal.setitimer(signal.ITIMER_REAL, delay)  # "Ctrl-C" shortly after the export has begun
    first = outcome(lambda: h.to_proto(mods[-1]))
    signal.setitimer(signal.ITIMER_REAL, 0)  # no further interrupts
    retry = outcome(lambda: h.to_proto(mods[-1]))
    if first[0] == "error" and retry != fresh:
        break  # the interrupt landed inside elaboration

print("fresh export            :", fresh[0])
print("interrupted export      :", first[:2])
print("retry, not interrupted  :", retry[:2] if retry[0] != "ok" else "ok")
if first[0] == "error" and retry != fresh:
    print()
    print("VIOLATION (C07): exporting again after an interrupted attempt raises KeyboardInterrupt, for ever, instead of")
    print("producing the package of the (unchanged) design.")
    sys.exit(1)
print("no violation (or the interrupt never landed inside elaboration)")
sys.exit(0)
