"""
C07 finding 5 (borderline: the history contains a generator call besides the exports): a generator that hands
back an existing, hand-written module renames that module in place - also when the module has already been
elaborated and exported. Exporting the same (otherwise untouched) design again then yields a different package,
and which name the module carries depends on which generator call came first.

Exit code 1 when the violation occurs, 0 otherwise.
"""
import os, sys

sys.path.insert(0, os.getcwd())
import hdl21 as h


@h.paramclass
class P:
    n = h.Param(dtype=int, desc="n", default=1)


def build():
    base = h.Module(name="Base")
    base.a = h.Port()

    @h.generator
    def Pick(p: P) -> h.Module:
        # e.g. a generator selecting one of several hand-written cells
        return base

    top = h.Module(name="Top")
    top.a = h.Port()
    top.i = base(a=top.a)
    return base, Pick, top


def names(pkg):
    return [m.name for m in pkg.modules]


base, Pick, top = build()
first = h.to_proto(top)
again = h.to_proto(top)
Pick(P(n=2))  # hands back `base`, which is elaborated and exported already
third = h.to_proto(top)
Pick(P(n=1))
fourth = h.to_proto(top)

base2, Pick2, top2 = build()
Pick2(P(n=1))
Pick2(P(n=2))
other_order = h.to_proto(top2)

print("first export          :", names(first))
print("second export         :", names(again))
print("after Pick(n=2)       :", names(third))
print("after Pick(n=1) too   :", names(fourth))
print("calls in other order  :", names(other_order))

ser = lambda p: p.SerializeToString(deterministic=True)
if ser(first) != ser(third) or ser(fourth) != ser(other_order):
    print()
    print("VIOLATION (C07): 'elaborating or exporting again changes nothing' / 'an already elaborated module ... refuses")
    print("further additions': the elaborated and exported module `Base` is renamed in place by a later generator call,")
    print("so that re-exporting the unchanged design `Top` gives another package; the name depends on the call order.")
    sys.exit(1)
print("no violation")
sys.exit(0)
