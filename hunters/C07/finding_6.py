"""
C07 finding 6: "An already elaborated module ... refuses further additions" - two kinds of additions are still
accepted without complaint after elaboration / export:

 (a) literals: `module.literals.append(h.Literal(...))` (the documented way to add them). The addition lands in
     every later export, also of the parents which share the module - exporting again changes the package.
 (b) members of the Bundle of a bundle-valued port: `SomeBundle.add(h.Signal(...))` (`Bundle._elaborated` is never
     set). The elaborated module keeps the old members, new parents see the new ones: the same final design is
     exported fine if the sub-module had never been elaborated before the addition, and fails if it had.

Exit code 1 when the violation occurs, 0 otherwise.
"""
import os, sys

sys.path.insert(0, os.getcwd())
import hdl21 as h


def outcome(fn):
    try:
        return ("ok", fn().SerializeToString(deterministic=True))
    except Exception as e:
        return ("error", type(e).__name__, str(e).strip().splitlines()[-1][:160])


bad = []

# ---- (a) literals ---------------------------------------------------------------------------------
child = h.Module(name="Child")
child.a = h.Port()
top = h.Module(name="Top")
top.a = h.Port()
top.i = child(a=top.a)
first = outcome(lambda: h.to_proto(top))
refused = False
try:
    child.literals.append(h.Literal("generated_after_elaboration"))
except Exception as e:
    refused = True
second = outcome(lambda: h.to_proto(top))
print("(a) literal appended to an elaborated module refused:", refused, "; re-export identical:", first == second)
if not refused and first != second:
    bad.append("a")


# ---- (b) bundle members ---------------------------------------------------------------------------
def build_bundle_and_child():
    b = h.Bundle(name="B")
    b.add(h.Signal(name="x"))
    c = h.Module(name="C")
    c.add(b(port=True), name="b")
    return b, c


def build_parent(b, c):
    p = h.Module(name="P")
    p.add(b(), name="b")
    p.i = c(b=p.b)
    return p


# History 1: C never elaborated before the bundle grows
b, c = build_bundle_and_child()
b.add(h.Signal(name="z"))
never = outcome(lambda: h.to_proto(build_parent(b, c)))

# History 2: C exported, alone, before the bundle grows
b, c = build_bundle_and_child()
h.to_proto(c)
refused = False
try:
    b.add(h.Signal(name="z"))
except Exception:
    refused = True
earlier = outcome(lambda: h.to_proto(build_parent(b, c)))
print("(b) member added to the bundle of an elaborated module's port refused:", refused)
print("    export of P, C never exported before the addition :", never[0], never[1:] if never[0] != "ok" else "")
print("    export of P, C exported before the addition       :", earlier[0], earlier[1:] if earlier[0] != "ok" else "")
if not refused and never != earlier:
    bad.append("b")

if bad:
    print()
    print("VIOLATION (C07): 'An already elaborated module can still be instantiated by new parents ... and it refuses")
    print("further additions' / 'exporting again changes nothing': additions", bad, "are accepted after elaboration.")
    sys.exit(1)
print("no violation")
sys.exit(0)
