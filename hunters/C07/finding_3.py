"""
C07 finding 3: errors that are not about the design (here: Python's recursion limit; equally a Ctrl-C, see
finding_3b.py) are recorded on every module that was on the elaboration stack, as their permanent
"elaboration failure". Consequences, for a plain chain of modules L0 <- L1 <- ... (each instantiates the previous):

 (a) whether the 400-deep design can be exported depends on whether some of its sub-modules were elaborated
     earlier (bottom-up, in chunks): never -> RecursionError; earlier -> fine.
 (b) after the failed export of L399, the export of its healthy sub-design L150 - which exports fine on its
     own - raises RecursionError for ever after, although nothing recursive remains to be done for it.

Exit code 1 when the violation occurs, 0 otherwise.
"""
import os, sys

sys.path.insert(0, os.getcwd())
import hdl21 as h


def build(n):
    mods, prev = [], None
    for k in range(n):
        m = h.Module(name=f"L{k}")
        m.p = h.Port()
        if prev is not None:
            m.i = prev(p=m.p)
        mods.append(m)
        prev = m
    return mods


def outcome(fn):
    try:
        return ("ok", fn().SerializeToString(deterministic=True))
    except BaseException as e:
        return ("error", type(e).__name__)


N = 400  # deep enough for elaboration from the top to hit the default recursion limit (1000), not for the exporter
bad = []

# (a) the same design, two histories
mods = build(N)
never = outcome(lambda: h.to_proto(mods[-1]))
mods = build(N)
for m in mods[::50]:
    h.elaborate(m)  # sub-modules elaborated earlier, alone
earlier = outcome(lambda: h.to_proto(mods[-1]))
print(f"(a) export of L{N-1}: sub-modules never elaborated before -> {never[:2] if never[0] != 'ok' else 'ok'};"
      f" some elaborated earlier -> {earlier[:2] if earlier[0] != 'ok' else 'ok'}")
if never != earlier:
    bad.append("a")

# (b) a healthy sub-design is poisoned by the failed export of one of its parents
mods = build(N)
fresh = outcome(lambda: h.to_proto(mods[150]))
mods = build(N)
top = outcome(lambda: h.to_proto(mods[-1]))
after = outcome(lambda: h.to_proto(mods[150]))
again = outcome(lambda: h.to_proto(mods[150]))
print(f"(b) export of L150: fresh -> {fresh[0]}; after a failed export of its parent L{N-1} ({top[1] if top[0]!='ok' else 'ok'}) -> "
      f"{after[:2] if after[0] != 'ok' else 'ok'}, and again -> {again[:2] if again[0] != 'ok' else 'ok'}")
if fresh != after:
    bad.append("b")

if bad:
    print()
    print("VIOLATION (C07): 'The package exported for a design is ... the same whether its sub-modules were elaborated or")
    print("exported earlier - alone or in lists, in any order, as parts of other parents - or never'.")
    sys.exit(1)
print("no violation")
sys.exit(0)
