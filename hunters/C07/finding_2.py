"""
C07 finding 2: whether a design elaborates depends on whether a module that is *not even part of it*
was elaborated earlier.

An instance that has been dropped from its module (its name re-used for another instance, or an instance that
was built and connected but never added) remains registered in the `_connected_ports` of the bundle it was
connected to. Bundle flattening visits those stale connections and looks the dropped instance's module up in
the process-wide cache of flattened bundle ports. That look-up succeeds only if that module happens to have
been elaborated at some earlier time.

Exit code 1 when the violation occurs, 0 otherwise.
"""
import os, sys

sys.path.insert(0, os.getcwd())
import hdl21 as h


@h.bundle
class B:
    x = h.Signal()
    y = h.Signal(width=2)


@h.bundle
class Big:
    sub = B()
    z = h.Signal()


def leafs():
    c1 = h.Module(name="C1")
    c1.b = B(port=True)
    c2 = h.Module(name="C2")
    c2.b = B(port=True)
    return c1, c2


def build_renamed():
    """`P.i` is first an instance of C1, then replaced by an instance of C2. The design is P -> C2."""
    c1, c2 = leafs()
    p = h.Module(name="P")
    p.b = B()
    p.i = c1(b=p.b)
    p.i = c2(b=p.b)  # re-use of the name: the C1 instance is no longer part of P
    return c1, c2, p


def build_never_added():
    """An instance of C1 is built and connected, but (e.g. in a conditional) never added. The design is P -> C2."""
    c1, c2 = leafs()
    p = h.Module(name="P")
    p.b = B()
    _unused = c1(b=p.b)
    p.i = c2(b=p.b)
    return c1, c2, p


def build_bundleref():
    """As `build_renamed`, connected to a sub-bundle reference"""
    c1, c2 = leafs()
    p = h.Module(name="P")
    p.big = Big()
    p.i = c1(b=p.big.sub)
    p.i = c2(b=p.big.sub)
    return c1, c2, p


def outcome(fn):
    try:
        return ("ok", fn().SerializeToString(deterministic=True))
    except Exception as e:
        return ("error", type(e).__name__, str(e).strip().splitlines()[-1])


nbad = 0
for build in (build_renamed, build_never_added, build_bundleref):
    # History 1: export P straight away
    c1, c2, p = build()
    fresh = outcome(lambda: h.to_proto(p))

    # History 2: C1 - which P does not instantiate - was elaborated earlier
    c1, c2, p = build()
    h.elaborate(c1)
    after = outcome(lambda: h.to_proto(p))

    print(f"{build.__name__:18s} fresh: {fresh[0]:6s} after elaborate(C1): {after[0]:6s}")
    for o in (fresh, after):
        if o[0] != "ok":
            print("      ", o[1:])
    if fresh != after:
        nbad += 1


# Variant: the stale connection belongs to an instance in *another* (faulty) module Q, which wrongly connects to P's bundle.
# P itself is fine. Whether P can be exported depends on whether an elaboration of Q was attempted earlier.
def build_foreign():
    c1, c2 = leafs()
    p = h.Module(name="P")
    p.b = B()
    p.i = c2(b=p.b)
    q = h.Module(name="Q")
    q.k = c2(b=p.b)  # Q's mistake
    return p, q


p, q = build_foreign()
fresh = outcome(lambda: h.to_proto(p))
p, q = build_foreign()
qres = outcome(lambda: h.to_proto(q))  # fails, as it should: orphanage
after = outcome(lambda: h.to_proto(p))
print(f"{'build_foreign':18s} fresh: {fresh[0]:6s} after the (failing) export of Q: {after[0]:6s}")
for o in (fresh, after):
    if o[0] != "ok":
        print("      ", o[1:])
if fresh != after:
    nbad += 1

if nbad:
    print()
    print("VIOLATION (C07): 'The package exported for a design is a function of the design alone: it is the same whether")
    print("its sub-modules were elaborated or exported earlier ... or never'. Here the export of P raises or succeeds")
    print("depending on the earlier elaboration of C1, a module P does not (any longer) instantiate.")
    sys.exit(1)
print("no violation")
sys.exit(0)
