"""
C07 finding 1: `hdl21.generators.Wrapper` (and `Series(..., nser=1)`, which returns `Wrapper(unit)`)
instantiate an already-elaborated module through its *flattened* ports instead of its original,
bundle-level ones. A new parent of an elaborated module is thus rejected, while the very same
design exports fine when the sub-module had not been elaborated (or exported) earlier.

Exit code 1 when the violation occurs, 0 otherwise.
"""
import os, sys

sys.path.insert(0, os.getcwd())
import hdl21 as h
from hdl21.generators import Wrapper, Series


@h.bundle
class B:
    x = h.Input()
    y = h.Output(width=2)


def build_unit(name):
    u = h.Module(name=name)
    u.b = B(port=True)  # a bundle-valued port
    u.p = h.Port()
    u.q = h.Port()
    return u


def outcome(fn):
    try:
        return ("ok", fn().SerializeToString(deterministic=True))
    except Exception as e:
        return ("error", type(e).__name__, str(e).strip().splitlines()[-1])


bad = []

# --- (a) Wrapper -------------------------------------------------------------------------
# History 1: the unit was never elaborated before its new parent is made
ref = outcome(lambda: h.to_proto(Wrapper(build_unit("Unit"))))

# History 2: the unit was exported earlier, alone
u = build_unit("Unit")
h.to_proto(u)
got = outcome(lambda: h.to_proto(Wrapper(u)))

print("Wrapper(unit), unit never elaborated before :", ref[0], ref[1:] if ref[0] != "ok" else "")
print("Wrapper(unit), unit exported earlier        :", got[0], got[1:] if got[0] != "ok" else "")
if ref != got:
    bad.append("Wrapper")

# --- (b) Series(nser=1), a cached generator: the state of the unit at the first call is frozen in ----
u1 = build_unit("Unit1")
ref = outcome(lambda: h.to_proto(Series(unit=u1, conns=("p", "q"), nser=1)))
u2 = build_unit("Unit2")
h.elaborate(u2)
got = outcome(lambda: h.to_proto(Series(unit=u2, conns=("p", "q"), nser=1)))
print("Series(unit, nser=1), unit never elaborated :", ref[0], ref[1:] if ref[0] != "ok" else "")
print("Series(unit, nser=1), unit elaborated before:", got[0], got[1:] if got[0] != "ok" else "")
if ref[0] != got[0]:
    bad.append("Series")

if bad:
    print()
    print("VIOLATION (C07): 'An already elaborated module can still be instantiated by new parents, which see its")
    print("original (bundle-level) ports' - but", " and ".join(bad), "of an elaborated module with a bundle-valued port")
    print("copy its flattened ports (b_x, b_y) and connect to those, so that the new parent fails elaboration,")
    print("whereas the same design is exported without complaint when the unit had not been elaborated earlier.")
    sys.exit(1)
print("no violation")
sys.exit(0)
