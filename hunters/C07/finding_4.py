"""
C07 finding 4: whether a module is accepted as the testbench of an `@hdl21.sim.sim` class depends on whether it
was elaborated (or exported) earlier. `hdl21.sim.data.is_tb` counts the *current* scalar ports of the module:
bundle-valued ports are ignored before elaboration, and count - one port per flattened signal - afterwards.
(`Sim(tb=...)` + `hdl21.sim.to_proto` check after elaboration, and accept / reject differently from `@sim`.)

Exit code 1 when the violation occurs, 0 otherwise.
"""
import os, sys

sys.path.insert(0, os.getcwd())
import hdl21 as h
import hdl21.sim as hs


@h.bundle
class Gnd:
    VSS = h.Signal()


@h.bundle
class Pair2:
    a = h.Signal()
    b = h.Signal()


def tb_bundle_only():
    """Testbench whose single port is a bundle of one scalar signal: one scalar port once flattened"""
    tb = h.Module(name="TbBundleOnly")
    tb.g = Gnd(port=True)
    tb.r = h.R(r=1000)(p=tb.g.VSS, n=tb.g.VSS)
    return tb


def tb_extra_bundle():
    """Testbench with a scalar VSS port *and* a two-signal bundle port: three scalar ports once flattened"""
    tb = h.Module(name="TbExtraBundle")
    tb.VSS = h.Port()
    tb.x = Pair2(port=True)
    tb.r = h.R(r=1000)(p=tb.x.a, n=tb.VSS)
    tb.r2 = h.R(r=1000)(p=tb.x.b, n=tb.VSS)
    return tb


def make_sim(tb_):
    @hs.sim
    class S:
        tb = tb_
        op = hs.Op()

    return S


def outcome(fn):
    try:
        fn()
        return "accepted"
    except Exception as e:
        return f"rejected ({type(e).__name__}: {str(e).splitlines()[-1][:60]})"


nbad = 0
for build in (tb_bundle_only, tb_extra_bundle):
    never = outcome(lambda: make_sim(build()))
    tb = build()
    h.elaborate(tb)
    earlier = outcome(lambda: make_sim(tb))
    print(f"{build.__name__:16s} @sim with tb never elaborated: {never}")
    print(f"{'':16s} @sim with tb elaborated before: {earlier}")
    if never.split()[0] != earlier.split()[0]:
        nbad += 1

if nbad:
    print()
    print("VIOLATION (C07): the outcome for one and the same design depends on whether the module was elaborated earlier;")
    print("an elaborated module does not show its original (bundle-level) ports to `hdl21.sim`.")
    sys.exit(1)
print("no violation")
sys.exit(0)
