"""
C12 finding 1: implicit-signal creation depends on set-iteration (memory-address / hash-seed) order
when two port references tie in `hdl21.connect.connected_ports`' sort key `(inst.name, portname)`.

The same design program is run in several fresh Python processes (different PYTHONHASHSEED; the
outcome even varies for a fixed seed, with address-space layout). The SPICE netlists and the
serialized packages must be identical in all of them. They are not: in some processes the implicit
net `i_q` is 1 bit wide and shared (broadcast) by all array elements, in others it is 5 bits wide
and every array element gets a bit of its own.

Run with cwd = worktree root. Exit code 1 = violation observed.
"""
import os, sys, subprocess, hashlib

sys.path.insert(0, os.getcwd())

PROGRAM = r'''
import os, sys; sys.path.insert(0, os.getcwd())
import io, hashlib
import hdl21 as h
assert h.__file__.startswith(os.getcwd()), h.__file__

@h.module
class B:
    q = h.Port(width=5)
@h.module
class C:
    q = h.Port(width=1)
@h.module
class J:
    p = h.Port(width=1)
@h.module
class K:
    r = h.Port(width=1)

m = h.Module(name="M")
m.j = 5 * J()
m.k = 5 * K()
m.k.r = m.j.p          # k.r and j.p refer to one another: no declared signal, an implicit one is made
m.j.p = m.k.r
m.i = B(q=m.j.p)       # a first draft of instance `i` ...
m.i = 5 * C()          # ... over-written by the final one. (The draft is no longer part of `M`.)
m.i.q = m.j.p

pkg = h.to_proto(m)
dest = io.StringIO()
h.netlist(pkg, dest, fmt="spice")
top = [mod for mod in pkg.modules if mod.name.endswith("M")][0]
print("SIGNALS", [(s.name, s.width) for s in top.signals])
print("PROTO", hashlib.md5(pkg.SerializeToString()).hexdigest())
print("SPICE", hashlib.md5(dest.getvalue().encode()).hexdigest())
'''


def main() -> int:
    outcomes = {}
    for k in range(24):
        env = dict(os.environ, PYTHONHASHSEED=str(k % 6))  # seeds repeat: the outcome varies even for one seed
        p = subprocess.run([sys.executable, "-c", PROGRAM], capture_output=True, text=True, env=env, cwd=os.getcwd())
        out = p.stdout.strip() if p.returncode == 0 else "ERROR: " + p.stderr.strip().splitlines()[-1]
        outcomes.setdefault(out, []).append(k)
    if len(outcomes) > 1:
        print("VIOLATION of C12: the same program produced", len(outcomes), "different results in different processes:")
        for out, runs in outcomes.items():
            print(f"--- in runs {runs}:")
            print(out)
        return 1
    print("all runs identical:", list(outcomes)[0])
    return 0


if __name__ == "__main__":
    sys.exit(main())
