"""
C12 finding 5 (lower severity): exported parameter values depend on the process-wide `decimal` context, which
unrelated earlier work may have changed (e.g. a library setting `decimal.getcontext().prec`).
`Prefixed` sums, products and scalings were moved to a private exact context (`hdl21.prefix._EXACT`), but
division (`__truediv__`, `__rtruediv__`) and powers (`__pow__`, `__rpow__`) still use the ambient context.

Run with cwd = worktree root. Exit code 1 = violation observed.
"""
import os, sys, subprocess

sys.path.insert(0, os.getcwd())

PROGRAM = r'''
import os, sys; sys.path.insert(0, os.getcwd())
import io, decimal
if sys.argv[1] == "with_earlier_work":
    decimal.getcontext().prec = 6      # unrelated earlier work, e.g. some accounting code
import hdl21 as h
from hdl21.prefix import K
assert h.__file__.startswith(os.getcwd()), h.__file__

@h.module
class Top:
    a, b = h.Ports(2)
    r = h.R(r=(1 * K) / 3)(p=a, n=b)      # a third of a kilo-Ohm

pkg = h.to_proto(Top)
dest = io.StringIO()
h.netlist(pkg, dest, fmt="spice")
print(pkg.SerializeToString().hex())
print([l for l in dest.getvalue().splitlines() if "333" in l])
'''


def run(arg):
    p = subprocess.run([sys.executable, "-c", PROGRAM, arg], capture_output=True, text=True, cwd=os.getcwd())
    return p.stdout if p.returncode == 0 else "ERROR " + p.stderr[-1500:]


def main() -> int:
    a, b = run("alone"), run("with_earlier_work")
    if a.startswith("ERROR") or b.startswith("ERROR"):
        print("unexpected failure", a, b)
        return 2
    if a == b:
        print("OK: identical")
        return 0
    print("VIOLATION of C12: package and netlist depend on the decimal context left behind by earlier work:")
    print("  alone             :", a.splitlines()[1])
    print("  after earlier work:", b.splitlines()[1])
    return 1


if __name__ == "__main__":
    sys.exit(main())
