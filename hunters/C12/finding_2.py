"""
C12 finding 2: the result of a design program depends on unrelated earlier work in the same process,
through the process-wide generator cache (`hdl21.generator.Generator.Cache`).

The design below uses the library's own built-in generator `hdl21.generators.Series` with a 1-Ohm unit
resistor written `1 * UNIT`. If anything at all in the process has earlier called the same built-in generator
with the *equal* value written differently (`1000 * MILLI`) - here: an unrelated module that is elaborated and
thrown away - the design silently receives the Module generated for that earlier call. Its serialized package
and its netlists then carry `1000 MILLI` / `1000m` rather than `1 UNIT` / `1`. (The same happens with
`-0.0` vs `0.0`, `1` vs `1.0` vs `True` and any other equal-but-distinguishable parameter values.)

Run with cwd = worktree root. Exit code 1 = violation observed.
"""
import os, sys, subprocess

sys.path.insert(0, os.getcwd())

PROGRAM = r'''
import os, sys; sys.path.insert(0, os.getcwd())
import io
import hdl21 as h
from hdl21.prefix import MILLI, UNIT
from hdl21.generators import Series
assert h.__file__.startswith(os.getcwd()), h.__file__

if sys.argv[1] == "with_earlier_work":
    # Unrelated earlier work: somebody else's module, elaborated and discarded
    @h.module
    class SomebodyElses:
        a, b = h.Ports(2)
        rs = Series(unit=h.R(r=1000 * MILLI), nser=2, conns=("p", "n"))(p=a, n=b)
    h.elaborate(SomebodyElses)
    del SomebodyElses

# ---- The design program proper
@h.module
class Top:
    a, b = h.Ports(2)
    rs = Series(unit=h.R(r=1 * UNIT), nser=2, conns=("p", "n"))(p=a, n=b)

pkg = h.to_proto(Top)
print("PROTO", pkg.SerializeToString().hex())
for fmt in ("spice", "spectre", "xyce"):
    dest = io.StringIO()
    h.netlist(pkg, dest, fmt=fmt)
    print(fmt.upper(), repr(dest.getvalue()))
'''


def run(arg: str) -> str:
    p = subprocess.run([sys.executable, "-c", PROGRAM, arg], capture_output=True, text=True, cwd=os.getcwd())
    if p.returncode != 0:
        return "ERROR: " + p.stderr[-2000:]
    return p.stdout


def main() -> int:
    alone = run("alone")
    after = run("with_earlier_work")
    if alone.startswith("ERROR") or after.startswith("ERROR"):
        print("unexpected failure:\n", alone[:1500], after[:1500])
        return 2
    if alone == after:
        print("OK: identical packages and netlists with and without unrelated earlier work")
        return 0
    print("VIOLATION of C12: the same design program gives different packages / netlists depending on")
    print("unrelated earlier work in the process:")
    for la, lb in zip(alone.splitlines(), after.splitlines()):
        if la != lb:
            kind = la.split(" ", 1)[0]
            if kind == "PROTO":
                print(f"  {kind}: serialized packages differ ({len(la)//2} vs {len(lb)//2} bytes)")
            else:
                import difflib
                a = eval(la.split(" ", 1)[1]).splitlines(); b = eval(lb.split(" ", 1)[1]).splitlines()
                d = [l for l in difflib.unified_diff(a, b, "alone", "after earlier work", lineterm="", n=0)]
                print(f"  {kind} netlists differ:")
                for l in d[:8]:
                    print("      " + l)
    return 1


if __name__ == "__main__":
    sys.exit(main())
