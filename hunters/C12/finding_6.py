"""
C12 finding 6 (lower severity): `hdl21.pdk.compile(design)` (and `hdl21.pdk.default()`, for generators that consult it)
depend on which PDK packages unrelated earlier work has *imported* in the process: every PDK package registers itself
in the process-wide `hdl21.pdk.pdk._mgr` on import. The same design program then either compiles and netlists,
or fails with "Multiple (2) PDK modules registered" - and that message lists the modules in set-iteration
(memory address) order, which differs from process to process.

Run with cwd = worktree root. Exit code 1 = violation observed.
"""
import os, sys, subprocess

ROOT = os.getcwd()
sys.path.insert(0, ROOT)

PROGRAM = r'''
import os, sys; sys.path.insert(0, os.getcwd())
import io
import hdl21 as h
assert h.__file__.startswith(os.getcwd()), h.__file__
if sys.argv[1] == "with_earlier_work":
    import gf180_hdl21          # unrelated earlier work: somebody looked something up in another PDK

# ---- The design program proper
import sky130_hdl21
from hdl21.prefix import µ

@h.module
class Top:
    a, b = h.Ports(2)
    m = h.Nmos(w=1 * µ, l=1 * µ)(d=a, g=a, s=b, b=b)

try:
    h.pdk.compile(Top)
    dest = io.StringIO()
    h.netlist(Top, dest, fmt="spice")
    print("NETLIST", repr(dest.getvalue()))
except Exception as e:
    print("ERROR", repr(str(e)))
'''


def run(arg):
    env = dict(os.environ)
    env["PYTHONPATH"] = ":".join(f"{ROOT}/pdks/{p}" for p in ("Sky130", "Gf180", "Asap7"))
    p = subprocess.run([sys.executable, "-c", PROGRAM, arg], capture_output=True, text=True, cwd=ROOT, env=env)
    return p.stdout.strip() if p.returncode == 0 else "CRASH " + p.stderr[-1500:]


def main() -> int:
    alone = run("alone")
    after = {run("with_earlier_work") for _ in range(6)}
    if alone.startswith("CRASH") or any(x.startswith("CRASH") for x in after):
        print("unexpected failure", alone, after)
        return 2
    if after == {alone}:
        print("OK: identical")
        return 0
    print("VIOLATION of C12: the design program's result depends on the PDK packages imported by earlier work:")
    print("  alone             :", alone[:100], "...")
    for x in after:
        print("  after earlier work:", x[:260], "...")
    if len(after) > 1:
        print("  (and the error message itself differs from process to process)")
    return 1


if __name__ == "__main__":
    sys.exit(main())
