"""
C12 finding 4: the names of exported modules (and with them the serialized package and every netlist) depend on
the name under which the defining Python file happens to be loaded in the process at hand:
`__main__` in the process that was started with the file, `__mp_main__` in a `multiprocessing` (spawn / forkserver)
worker process started by that very program, `<file name>` in a process that imports it.

So one design program, run in a parent process and in its own worker processes (the usual way of netlisting many
designs in parallel), produces different packages and different netlists in the different processes.

Run with cwd = worktree root. Exit code 1 = violation observed.
"""
import os, sys, subprocess, tempfile, textwrap

ROOT = os.getcwd()
sys.path.insert(0, ROOT)

DESIGN = textwrap.dedent(
    r'''
    import os, sys; sys.path.insert(0, os.environ["HDL21_WORKTREE"])
    import io, hashlib
    import hdl21 as h
    assert h.__file__.startswith(os.environ["HDL21_WORKTREE"]), h.__file__

    @h.module
    class Inv:
        i, o = h.Ports(2)

    @h.paramclass
    class P:
        n = h.Param(dtype=int, desc="n", default=2)

    @h.generator
    def Chain(p: P) -> h.Module:
        m = h.Module()
        m.s = h.Signal(width=p.n + 1)
        for k in range(p.n):
            m.add(Inv(i=m.s[k], o=m.s[k + 1]), name=f"inv{k}")
        return m

    def build(_=None):
        """The design program: generate, export, netlist."""
        pkg = h.to_proto(Chain(n=2))
        dest = io.StringIO()
        h.netlist(pkg, dest, fmt="spice")
        return (
            [m.name for m in pkg.modules],
            hashlib.md5(pkg.SerializeToString()).hexdigest(),
            [l for l in dest.getvalue().splitlines() if l.upper().startswith(".SUBCKT")],
        )

    if __name__ == "__main__":
        import multiprocessing as mp
        print("PARENT", build())
        with mp.get_context("spawn").Pool(1) as pool:
            print("WORKER", pool.map(build, [0])[0])
    '''
)


def main() -> int:
    with tempfile.TemporaryDirectory() as d:
        path = os.path.join(d, "my_design.py")
        open(path, "w").write(DESIGN)
        env = dict(os.environ, HDL21_WORKTREE=ROOT)
        p = subprocess.run([sys.executable, path], capture_output=True, text=True, env=env, cwd=d)
        if p.returncode != 0:
            print("unexpected failure", p.stderr[-2000:])
            return 2
        lines = dict(l.split(" ", 1) for l in p.stdout.strip().splitlines())
    parent, worker = lines["PARENT"], lines["WORKER"]
    if parent == worker:
        print("OK: parent process and worker process agree:", parent)
        return 0
    print("VIOLATION of C12: one design program, two processes, two different results:")
    print("  process started with the file:", parent)
    print("  its multiprocessing worker   :", worker)
    return 1


if __name__ == "__main__":
    sys.exit(main())
