"""
C12 finding 3: PDK compilation re-writes generated Modules in place, and those Modules are shared process-wide
through the generator cache. A design's netlist therefore depends on which *other* designs were compiled
earlier in the same process - here to the point of containing another technology's devices.

The design program proper (module `Top`, compiled to ASAP7) is identical in both processes.
In the second process an unrelated module which happens to use the same call of the built-in generator
`hdl21.generators.MosStack` has been compiled to Sky130 beforehand.

Run with cwd = worktree root. Exit code 1 = violation observed.
"""
import os, sys, subprocess

sys.path.insert(0, os.getcwd())
ROOT = os.getcwd()

PROGRAM = r'''
import os, sys; sys.path.insert(0, os.getcwd())
import io
import hdl21 as h
from hdl21.generators import MosStack
import sky130_hdl21, asap7_hdl21
assert h.__file__.startswith(os.getcwd()), h.__file__

if sys.argv[1] == "with_earlier_work":
    # Unrelated earlier work: somebody else's design, for a different technology
    @h.module
    class Other:
        x = h.Port()
        s = MosStack(unit=h.Nmos(), nser=2)(d=x, g=x, s=x, b=x)
    sky130_hdl21.compile(Other)
    del Other

# ---- The design program proper
@h.module
class Top:
    VSS = h.Port()
    s = MosStack(unit=h.Nmos(), nser=2)(d=VSS, g=VSS, s=VSS, b=VSS)

asap7_hdl21.compile(Top)
pkg = h.to_proto(Top)
print("EXT_MODULES", sorted(e.name.domain + ":" + e.name.name for e in pkg.ext_modules))
dest = io.StringIO()
h.netlist(pkg, dest, fmt="spice")
print(dest.getvalue())
'''


def run(arg: str) -> str:
    env = dict(os.environ)
    env["PYTHONPATH"] = ":".join(f"{ROOT}/pdks/{p}" for p in ("Sky130", "Gf180", "Asap7"))
    p = subprocess.run([sys.executable, "-c", PROGRAM, arg], capture_output=True, text=True, cwd=ROOT, env=env)
    if p.returncode != 0:
        return "ERROR: " + p.stderr[-2000:]
    return p.stdout


def main() -> int:
    alone = run("alone")
    after = run("with_earlier_work")
    if alone.startswith("ERROR") or after.startswith("ERROR"):
        print("unexpected failure:\n", alone[:1500], after[:1500])
        return 2
    if alone == after:
        print("OK: identical packages and netlists with and without unrelated earlier work")
        return 0
    print("VIOLATION of C12: the ASAP7 design's package / netlist depends on unrelated earlier work:")
    print("  alone             :", alone.splitlines()[0])
    print("  after earlier work:", after.splitlines()[0])
    import difflib
    for l in list(difflib.unified_diff(alone.splitlines(), after.splitlines(), "alone", "after earlier work", lineterm="", n=0))[:14]:
        print("      " + l)
    return 1


if __name__ == "__main__":
    sys.exit(main())
