"""
C08 finding 5 (borderline - the failing "pass" is a PDK compile, not an `elaborate` pass):
a module left half-rewritten by a failed `pdk.compile` is exported by later calls.

`sky130_hdl21.compile(Top1)` walks `Top1 -> S`, replaces `S.m1` by a Sky130 `ExternalModule` call, then raises
on `S.m2` (unknown model name). `S` is left half-compiled, nothing records it, and every later
`to_proto` / `netlist` of any design sharing `S` (here `Top2`, never compiled) returns a package mixing
`sky130` and generic `hdl21.primitives` devices - a package no fresh process returns for `Top2`.

Run with cwd = the worktree root. Exit code 1 when the violation occurs.
"""
import os, sys; sys.path.insert(0, os.getcwd()); sys.path.insert(1, os.path.join(os.getcwd(), "pdks", "Sky130"))
import subprocess
import hdl21 as h
from hdl21.prefix import µ, n


def build():
    @h.module
    class S:
        d, g, s, b = h.Ports(4)
        m1 = h.Nmos(w=1 * µ, l=150 * n)(d=d, g=g, s=s, b=b)
        m2 = h.Nmos(w=1 * µ, l=150 * n, model="no_such_model")(d=d, g=g, s=s, b=b)
        m3 = h.Pmos(w=2 * µ, l=150 * n)(d=d, g=g, s=s, b=b)

    @h.module
    class Top1:
        d, g, s, b = h.Signals(4)
        x = S(d=d, g=g, s=s, b=b)

    @h.module
    class Top2:
        d, g, s, b = h.Signals(4)
        x = S(d=d, g=g, s=s, b=b)

    return S, Top1, Top2


def run(history: str) -> str:
    S, Top1, Top2 = build()
    if history == "after_failure":
        import sky130_hdl21 as sky

        try:
            sky.compile(Top1)
            return "UNEXPECTED: compiled"
        except RuntimeError as e:
            assert "No Mos module" in str(e), e
    pkg = h.to_proto(Top2)
    (smod,) = [m for m in pkg.modules if m.name.endswith(".S")]
    return str([(i.name, i.module.external.domain, i.module.external.name) for i in smod.instances])


if __name__ == "__main__":
    if len(sys.argv) == 2:
        print(run(sys.argv[1]))
        sys.exit(0)
    assert h.__file__.startswith(os.getcwd()), h.__file__
    outs = {}
    for history in ("fresh", "after_failure"):
        r = subprocess.run([sys.executable, __file__, history], capture_output=True, text=True)
        outs[history] = r.stdout.strip() or r.stderr.strip()[-400:]
    print("fresh process, to_proto(Top2), devices of S          :", outs["fresh"])
    print("after compile(Top1) failed, to_proto(Top2), devices of S:", outs["after_failure"])
    if outs["fresh"] != outs["after_failure"]:
        print("VIOLATION: the half-compiled module `S` is exported.")
        sys.exit(1)
    sys.exit(0)
