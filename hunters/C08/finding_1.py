"""
C08 finding 1: a failed elaboration of module `Bad` makes an innocent module `M` un-elaboratable.

`Bad` (the offending module) connects one of its instances to a port of an instance that belongs to `M`
("cradle robbing"). Elaborating `Bad` correctly fails in the Orphanage pass. `M` does not contain `Bad`,
and is itself a perfectly valid design: a fresh process elaborates and exports it.
After the failed `elaborate(Bad)`, `elaborate(M)` raises
`RuntimeError: Cannot edit connections of Instance(name=j ...): Module(name=Bad) has been elaborated.`
and `M` is marked as failed forever.

Run with cwd = the worktree root. Exit code 1 when the violation occurs.
"""
import os, sys; sys.path.insert(0, os.getcwd())
import subprocess
import hdl21 as h


def build(variant: str):
    @h.bundle
    class B:
        x = h.Signal()
        y = h.Signal()

    @h.module
    class Sub:
        a = h.Input()
        c = h.Output()

    @h.module
    class SubB:
        b = B(port=True)

    if variant == "portref":

        @h.module
        class M:
            i = h.Input()
            o = h.Output()
            i1 = Sub(a=i)
            i2 = Sub(a=i1.c, c=o)  # legitimate instance-to-instance connection inside `M`

        @h.module
        class Bad:
            z = h.Output()
            j = Sub(a=M.i1.c, c=z)  # design error: refers to a port of an instance owned by `M`

    else:  # "bundle"

        @h.module
        class M:
            bb = B()
            s1 = SubB(b=bb)

        @h.module
        class Bad:
            j = SubB(b=M.bb)  # design error: connects a bundle instance owned by `M`

    return M, Bad


def run(history: str, variant: str) -> str:
    """Returns a description of what `to_proto(M)` does."""
    M, Bad = build(variant)
    if history == "after_failure":
        try:
            h.elaborate(Bad)
            return "UNEXPECTED: Bad elaborated"
        except RuntimeError as e:
            assert "Orphanage" in str(e), e
    try:
        pkg = h.to_proto(M)
        return "OK " + pkg.SerializeToString(deterministic=True).hex()
    except Exception as e:
        return "ERROR " + type(e).__name__ + ": " + str(e).strip().splitlines()[-1]


if __name__ == "__main__":
    if len(sys.argv) == 3:
        print(run(sys.argv[1], sys.argv[2]))
        sys.exit(0)

    assert h.__file__.startswith(os.getcwd()), h.__file__
    bad = False
    for variant in ("portref", "bundle"):
        outs = {}
        for history in ("fresh", "after_failure"):
            r = subprocess.run(
                [sys.executable, __file__, history, variant], capture_output=True, text=True
            )
            outs[history] = r.stdout.strip() or r.stderr.strip()
        if outs["fresh"] != outs["after_failure"]:
            bad = True
            print(f"[{variant}] VIOLATION: `M` does not contain the offending module `Bad`, but")
            print(f"   fresh process         : to_proto(M) -> {outs['fresh'][:60]}...")
            print(f"   after elaborate(Bad) failed: to_proto(M) -> {outs['after_failure'][:200]}")
        else:
            print(f"[{variant}] ok: same result")
    sys.exit(1 if bad else 0)
