"""
C08 finding 2: a sub-module left flattened by a failed elaboration gives a different (failing) result
when wrapped with the library's own `hdl21.generators.Wrapper` (also used by `Series(nser=1)` / `MosStack`).

`Top` has a design error of its own (array connection of the wrong width, caught by the ArrayFlattener pass,
position 6). Its sub-module `S` is fine. When `elaborate(Top)` fails, `S` has been run through passes 1-6
in place: its Bundle-valued port `b` has been replaced by `b_x`, `b_y`.
`Wrapper(S)` - a design that does not contain the offending module - then copies the *flattened* ports
and connects them by their flattened names, which the (pre-flattening) connection check rejects.
A fresh process exports `Wrapper(S)` fine.

Run with cwd = the worktree root. Exit code 1 when the violation occurs.
"""
import os, sys; sys.path.insert(0, os.getcwd())
import subprocess
import hdl21 as h
from hdl21.generators import Wrapper, Series


def build():
    @h.bundle
    class B:
        x = h.Signal()
        y = h.Signal()

    @h.module
    class S:
        b = B(port=True)
        p = h.Port()
        n = h.Port()

    @h.module
    class Top:  # the offending module
        bb = B()
        w = h.Signal()
        s = S(b=bb, p=w, n=w)
        # Design error: 3 bits onto a 2-element array of 1-bit ports
        arr = 2 * S(b=bb, p=h.Concat(w, w, w), n=w)

    return S, Top


def run(history: str, what: str) -> str:
    S, Top = build()
    if history == "after_failure":
        try:
            h.elaborate(Top)
            return "UNEXPECTED: Top elaborated"
        except RuntimeError as e:
            assert "Invalid connection" in str(e), e
    try:
        if what == "wrapper":
            design = Wrapper(S)
        else:
            design = Series(unit=S, nser=2, conns=("p", "n"))
        pkg = h.to_proto(design)
        return "OK " + pkg.SerializeToString(deterministic=True).hex()
    except Exception as e:
        return "ERROR " + type(e).__name__ + ": " + str(e).strip().splitlines()[-1]


if __name__ == "__main__":
    if len(sys.argv) == 3:
        print(run(sys.argv[1], sys.argv[2]))
        sys.exit(0)

    assert h.__file__.startswith(os.getcwd()), h.__file__
    bad = False
    for what in ("wrapper",):
        outs = {}
        for history in ("fresh", "after_failure"):
            r = subprocess.run([sys.executable, __file__, history, what], capture_output=True, text=True)
            outs[history] = r.stdout.strip() or r.stderr.strip()
        if outs["fresh"] != outs["after_failure"]:
            bad = True
            print(f"[{what}] VIOLATION: the design does not contain the offending module `Top`, but")
            print(f"   fresh process              : {outs['fresh'][:70]}...")
            print(f"   after elaborate(Top) failed: {outs['after_failure'][:300]}")
        else:
            print(f"[{what}] ok: same result")
    sys.exit(1 if bad else 0)
