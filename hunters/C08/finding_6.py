"""
C08 finding 6: "repair and retry" through the Bundle definition is accepted but has no effect on sub-modules
that the failed elaboration has already flattened; brand-new designs keep failing with the old error.

`Top1` connects members x, y, z to port `b` (Bundle `B` = {x, y}) of sub-module `S`: BundleFlattener (pass 5) error,
raised in `Top1`, *after* `S` and `Leaf` have been flattened in place against B = {x, y}.
The designer repairs the design by adding the missing member: `B.add(h.Signal(name="z"))`. This is accepted:
`bundle._add` does have an "after elaboration" guard, but no pass ever sets `Bundle._elaborated`.
A brand-new `Top2` (which does not contain the offending `Top1`) is then built and exported.
A fresh process, given B = {x, y, z}, exports it with `S` having ports b_x, b_y, b_z.
The process with the failure in its history raises the *old* error again, because `S` is in the `done` cache of
passes 1-5 with its two-member flattening (and in `THE_CACHE.flat_bundle_ports`).

Run with cwd = the worktree root. Exit code 1 when the violation occurs.
"""
import os, sys; sys.path.insert(0, os.getcwd())
import subprocess
import hdl21 as h


def build():
    @h.bundle
    class B:
        x = h.Signal()
        y = h.Signal()

    @h.module
    class Leaf:
        b = B(port=True)

    @h.module
    class S:
        b = B(port=True)
        l = Leaf(b=b)

    def mktop(name: str) -> h.Module:
        m = h.Module(name=name)
        m.x, m.y, m.z = h.Signals(3)
        m.s = S(b=h.AnonymousBundle(x=m.x, y=m.y, z=m.z))
        return m

    return B, S, mktop


def run(history: str) -> str:
    B, S, mktop = build()
    if history == "after_failure":
        try:
            h.elaborate(mktop("Top1"))
            return "UNEXPECTED: Top1 elaborated"
        except RuntimeError as e:
            assert "non-existent members" in str(e), e
    B.add(h.Signal(name="z"))  # the repair (in the fresh process: simply part of the definition)
    try:
        pkg = h.to_proto(mktop("Top2"))
        return "OK " + pkg.SerializeToString(deterministic=True).hex()
    except Exception as e:
        return "ERROR " + type(e).__name__ + ": " + str(e).strip().splitlines()[-1]


if __name__ == "__main__":
    if len(sys.argv) == 2:
        print(run(sys.argv[1]))
        sys.exit(0)
    assert h.__file__.startswith(os.getcwd()), h.__file__
    outs = {}
    for history in ("fresh", "after_failure"):
        r = subprocess.run([sys.executable, __file__, history], capture_output=True, text=True)
        outs[history] = r.stdout.strip() or r.stderr.strip()[-400:]
    print("fresh process, B={x,y,z}, to_proto(Top2)            :", outs["fresh"][:70], "...")
    print("Top1 failed, B repaired to {x,y,z}, to_proto(Top2)  :", outs["after_failure"][:300])
    if outs["fresh"] != outs["after_failure"]:
        print("VIOLATION: `Top2` does not contain the offending module, yet does not elaborate as in a fresh process.")
        sys.exit(1)
    sys.exit(0)
