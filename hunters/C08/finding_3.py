"""
C08 finding 3: a module left half-rewritten by a failed pass IS exported, after the designer re-targets
an instance (`inst.of = ...`) of an already elaborated parent onto it.

`Bad` fails in the BundleFlattener pass (an anonymous-bundle connection lacks member `y`), *after* its own
Bundle port `b` has been flattened to `b_x`, `b_y` and instance `s` has lost its `b` connection and got `b_x` only.
The failure is recorded on `Bad`, and `to_proto(Bad)` keeps reporting it - fine.
But `Instance.of` is a plain settable attribute that none of the "no edits after elaboration" guards cover:
`P.i.of = Bad` on the fully elaborated `P` succeeds, and `to_proto(P)` then returns a package containing the
half-rewritten `Bad` (instance `s` of `Sub` with port `b_y` left dangling), because `P` is in every pass's
`done` cache and its instances are never visited again.
A fresh process given the same design (`P` with `i` an instance of `Bad`) raises the BundleFlattener error.

Run with cwd = the worktree root. Exit code 1 when the violation occurs.
"""
import os, sys; sys.path.insert(0, os.getcwd())
import subprocess
import hdl21 as h


def build():
    @h.bundle
    class B:
        x = h.Signal()
        y = h.Signal()

    @h.module
    class Sub:
        b = B(port=True)

    @h.module
    class Good:
        b = B(port=True)
        s = Sub(b=b)

    @h.module
    class Bad:  # same interface as `Good`
        b = B(port=True)
        x = h.Signal()
        s = Sub(b=h.AnonymousBundle(x=x))  # design error: member `y` is missing

    @h.module
    class P:
        bb = B()
        i = Good(b=bb)

    return Good, Bad, P


def describe(pkg) -> str:
    out = []
    for m in pkg.modules:
        insts = [
            (i.name, i.module.local.split(".")[-1], sorted(c.portname for c in i.connections))
            for i in m.instances
        ]
        out.append(f"{m.name.split('.')[-1]}: ports={[p.signal for p in m.ports]} instances={insts}")
    return " | ".join(out)


def run(history: str) -> str:
    Good, Bad, P = build()
    if history == "fresh":
        P.i.of = Bad  # the same final design, never elaborated before
    else:
        h.elaborate(P)
        try:
            h.elaborate(Bad)
            return "UNEXPECTED: Bad elaborated"
        except RuntimeError as e:
            assert "Missing connection" in str(e), e
        P.i.of = Bad  # designer edit, not refused
    try:
        return "EXPORTED " + describe(h.to_proto(P))
    except Exception as e:
        return "ERROR " + type(e).__name__ + ": " + str(e).strip().splitlines()[-1]


if __name__ == "__main__":
    if len(sys.argv) == 2:
        print(run(sys.argv[1]))
        sys.exit(0)
    assert h.__file__.startswith(os.getcwd()), h.__file__
    outs = {}
    for history in ("fresh", "after_failure"):
        r = subprocess.run([sys.executable, __file__, history], capture_output=True, text=True)
        outs[history] = r.stdout.strip() or r.stderr.strip()
    print("fresh process, P.i of Bad            :", outs["fresh"][:250])
    print("after Bad failed, then P.i.of = Bad  :", outs["after_failure"][:600])
    if outs["after_failure"].startswith("EXPORTED") and "Bad" in outs["after_failure"]:
        print("VIOLATION: the half-rewritten module `Bad` was exported; a fresh process rejects this design.")
        sys.exit(1)
    sys.exit(0)
