"""
C08 finding 4: repeating a failed `elaborate` / `to_proto` call reports a different error the second time.

`h.elaborate((A, B))` - a tuple where a list is expected, an easy slip - fails, reasonably enough.
But the tuple is added to the Orphanage pass's class-level `pending` set *before* the
`try:` block whose handler cleans that set up (`module._elaboration_started = True` raises in between),
so it stays "pending" forever. The identical call made again takes the "circular dependency" branch
and fails with a different message. Same for any other top that does not accept attributes (`None`, an `int`, a `str`, ...),
including such an entry in an otherwise valid list of tops.

Run with cwd = the worktree root. Exit code 1 when the violation occurs.
"""
import os, sys; sys.path.insert(0, os.getcwd())
import hdl21 as h


@h.module
class A:
    p = h.Port()


@h.module
class B:
    p = h.Port()


def attempt(fn, arg) -> str:
    try:
        fn(arg)
        return "no error"
    except BaseException as e:
        return f"{type(e).__name__}: {str(e).strip().splitlines()[-1]}"


if __name__ == "__main__":
    assert h.__file__.startswith(os.getcwd()), h.__file__
    bad = False
    for label, fn, arg in [
        ("h.elaborate((A, B))", h.elaborate, (A, B)),
        ("h.to_proto([A, None])", h.to_proto, [A, None]),
    ]:
        first = attempt(fn, arg)
        second = attempt(fn, arg)
        print(f"{label}\n   1st call: {first}\n   2nd call: {second}")
        if first != second:
            bad = True
    if bad:
        print("VIOLATION: repeating the failed call reports a different error than the original one.")
    sys.exit(1 if bad else 0)
