"""
C15 finding 1: a three-terminal generic primitive compiled onto a two-terminal PDK device keeps a connection to a port the device does not have; the netlist silently drops that net.
"""
import os, sys
sys.path.insert(0, os.getcwd())
for _p in ("pdks/Sky130", "pdks/Gf180", "pdks/Asap7"):
    sys.path.insert(0, os.path.join(os.getcwd(), _p))
from io import StringIO
import hdl21 as h
P = h.primitives


def build(prim, params, name="top"):
    """A module holding one instance `x` of `prim(params)`, every port tied to its own net."""
    m = h.Module(name=name)
    conns = {p.name: m.add(h.Signal(name="net_" + p.name)) for p in prim.port_list}
    m.x = prim(params)(**conns)
    return m


def netlist(m, fmt="spice"):
    s = StringIO()
    h.netlist(m, s, fmt=fmt)
    return s.getvalue()

import sky130_hdl21, gf180_hdl21

bad = []
cases = [
    (sky130_hdl21, P.ThreeTerminalCapacitor, P.PhysicalCapacitorParams(model="MIM_M3")),
    (sky130_hdl21, P.ThreeTerminalResistor, P.PhysicalResistorParams(model="GEN_PO")),
    (gf180_hdl21, P.ThreeTerminalCapacitor, P.PhysicalCapacitorParams(model="MIM_1p5fF")),
    (gf180_hdl21, P.ThreeTerminalResistor, P.PhysicalResistorParams(model="RM1")),
]
for pdk, prim, params in cases:
    m = build(prim, params)
    try:
        pdk.compile(m)
    except RuntimeError as e:
        continue  # a descriptive refusal is what the property asks for
    pkg = h.to_proto(m)
    inst = pkg.modules[0].instances[0]
    ext = {e.name.name: e for e in pkg.ext_modules}[inst.module.external.name]
    devports = [p.signal for p in ext.ports]
    conns = [c.portname for c in inst.connections]
    txt = netlist(m, "spice")
    if sorted(devports) != sorted(conns):
        bad.append(
            f"{pdk.__name__}: {prim.name}(model={params.model!r}) -> {ext.name.name}: device ports {devports}, "
            f"instance connections {conns}; net 'net_b' in spice netlist: {'net_b' in txt}"
        )
if bad:
    print("VIOLATION: compiled design is not valid (connection to a port the device lacks, silently dropped on netlisting):")
    print("\n".join("  " + b for b in bad))
    sys.exit(1)
print("ok")
