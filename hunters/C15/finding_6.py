"""
C15 finding 6: GF180 capacitors compiled without w / l get 1000 MILLI (one metre) per side, not the PDK default of GF180CapParams (10 MICRO).
"""
import os, sys
sys.path.insert(0, os.getcwd())
for _p in ("pdks/Sky130", "pdks/Gf180", "pdks/Asap7"):
    sys.path.insert(0, os.path.join(os.getcwd(), _p))
from io import StringIO
import hdl21 as h
P = h.primitives


def build(prim, params, name="top"):
    """A module holding one instance `x` of `prim(params)`, every port tied to its own net."""
    m = h.Module(name=name)
    conns = {p.name: m.add(h.Signal(name="net_" + p.name)) for p in prim.port_list}
    m.x = prim(params)(**conns)
    return m


def netlist(m, fmt="spice"):
    s = StringIO()
    h.netlist(m, s, fmt=fmt)
    return s.getvalue()

import gf180_hdl21

bad = []
for k, dev in gf180_hdl21.pdk_logic.caps.items():
    m = build(P.PhysicalCapacitor, P.PhysicalCapacitorParams(model=k))
    gf180_hdl21.compile(m)
    got = m.x.of.params
    want = dev.paramtype()  # the PDK's own defaults
    if float(got.c_width) != float(want.c_width) or float(got.c_length) != float(want.c_length):
        bad.append(f"{k}: c_width={got.c_width} c_length={got.c_length}; PDK default {want.c_width} x {want.c_length}")
if bad:
    print("VIOLATION: defaulted capacitor size is not the PDK's default:")
    print("\n".join("  " + b for b in bad))
    print([l for l in netlist(m).splitlines() if "c_width" in l])
    sys.exit(1)
print("ok")
