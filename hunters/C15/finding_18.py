"""
C15 finding 18: compiling a bare primitive call - the usage shown in the Sky130 and GF180 readmes ('a = Mos(...); gf180_hdl21.compile(a)'), and a member of hdl21.Elaboratables - dies in elaboration with AttributeError: 'PrimitiveCall' object has no attribute 'instances'.
"""
import os, sys
sys.path.insert(0, os.getcwd())
for _p in ("pdks/Sky130", "pdks/Gf180", "pdks/Asap7"):
    sys.path.insert(0, os.path.join(os.getcwd(), _p))
from io import StringIO
import hdl21 as h
P = h.primitives


def build(prim, params, name="top"):
    """A module holding one instance `x` of `prim(params)`, every port tied to its own net."""
    m = h.Module(name=name)
    conns = {p.name: m.add(h.Signal(name="net_" + p.name)) for p in prim.port_list}
    m.x = prim(params)(**conns)
    return m


def netlist(m, fmt="spice"):
    s = StringIO()
    h.netlist(m, s, fmt=fmt)
    return s.getvalue()

import gf180_hdl21
from hdl21.pdk import sample_pdk

bad = []
for label, f in [
    ("gf180_hdl21.compile(h.Mos(tp=NMOS, family=CORE))", lambda: gf180_hdl21.compile(h.Mos(tp=h.MosType.NMOS, family=h.MosFamily.CORE))),
    ("h.pdk.compile(h.Nmos(), sample_pdk.pdk)", lambda: h.pdk.compile(h.Nmos(h.MosParams()), sample_pdk.pdk)),
    ("h.pdk.compile([h.Nmos()], sample_pdk.pdk)", lambda: h.pdk.compile([h.Nmos(h.MosParams())], sample_pdk.pdk)),
]:
    try:
        f()
    except (RuntimeError, TypeError) as e:
        if "PrimitiveCall" in str(e) and "instances" not in str(e):
            continue  # a refusal that says what is wrong
        bad.append(f"{label}: {type(e).__name__}: {e}")
    except Exception as e:
        bad.append(f"{label}: {type(e).__name__}: {e}")
if bad:
    print("VIOLATION: documented compile of a primitive call crashes:")
    print("\n".join("  " + b for b in bad))
    sys.exit(1)
print("ok")
