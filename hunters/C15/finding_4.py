"""
C15 finding 4: ASAP7 compile targets devices named 'MosType.NMOSmos_rvt' (an enum repr leaked into the name) instead of the PDK's nmos_rvt/pmos_lvt/..., and passes the generic selection parameters tp / family on to the device call.
"""
import os, sys
sys.path.insert(0, os.getcwd())
for _p in ("pdks/Sky130", "pdks/Gf180", "pdks/Asap7"):
    sys.path.insert(0, os.path.join(os.getcwd(), _p))
from io import StringIO
import hdl21 as h
P = h.primitives


def build(prim, params, name="top"):
    """A module holding one instance `x` of `prim(params)`, every port tied to its own net."""
    m = h.Module(name=name)
    conns = {p.name: m.add(h.Signal(name="net_" + p.name)) for p in prim.port_list}
    m.x = prim(params)(**conns)
    return m


def netlist(m, fmt="spice"):
    s = StringIO()
    h.netlist(m, s, fmt=fmt)
    return s.getvalue()

import asap7_hdl21

m = build(P.Mos, P.MosParams(tp=h.MosType.NMOS, vth=h.MosVth.LOW, w=1 * h.prefix.µ))
asap7_hdl21.compile(m)
pkg = h.to_proto(m)
inst = pkg.modules[0].instances[0]
name = inst.module.external.name
pnames = [p.name for p in inst.parameters]
msgs = []
if name != "nmos_lvt":
    msgs.append(f"device name is {name!r}, expected the ASAP7 device 'nmos_lvt'")
if not hasattr(asap7_hdl21.modules, "nmos_lvt"):
    msgs.append(f"asap7_hdl21.modules has no 'nmos_lvt'; it has {[k for k in vars(asap7_hdl21.modules)]}")
leaked = [p for p in pnames if p in ("tp", "family", "vth", "model")]
if leaked:
    msgs.append(f"generic selection parameters passed to the device call: {leaked} (all: {pnames})")
if msgs:
    print("VIOLATION:")
    print("\n".join("  " + x for x in msgs))
    print(netlist(m, "spice"))
    sys.exit(1)
print("ok")
