"""
C15 finding 20 (root cause in vlsirtools' netlisters, reachable through compile): a design module that has the same name as the PDK device a compile introduces ('nmos' for the sample PDK) captures the compiled instances in the spice / spectre netlist.
"""
import os, sys
sys.path.insert(0, os.getcwd())
for _p in ("pdks/Sky130", "pdks/Gf180", "pdks/Asap7"):
    sys.path.insert(0, os.path.join(os.getcwd(), _p))
from io import StringIO
import hdl21 as h
P = h.primitives


def build(prim, params, name="top"):
    """A module holding one instance `x` of `prim(params)`, every port tied to its own net."""
    m = h.Module(name=name)
    conns = {p.name: m.add(h.Signal(name="net_" + p.name)) for p in prim.port_list}
    m.x = prim(params)(**conns)
    return m


def netlist(m, fmt="spice"):
    s = StringIO()
    h.netlist(m, s, fmt=fmt)
    return s.getvalue()

from hdl21.pdk import sample_pdk

user = h.Module(name="nmos")  # the designer's own cell, nothing to do with the PDK
user.d, user.g, user.s, user.b = h.Ports(4)
user.r = h.R(r=1)(p=user.d, n=user.s)
top = h.Module(name="top")
top.z = h.Signal()
top.u = user(d=top.z, g=top.z, s=top.z, b=top.z)
top.n = h.Nmos(h.MosParams())(d=top.z, g=top.z, s=top.z, b=top.z)
sample_pdk.compile(top)
pkg = h.to_proto(top)  # the package keeps them apart: local '__main__.nmos' vs external sample_pdk/nmos
try:
    txt = netlist(top, "spice")
except RuntimeError as e:
    print("ok (refused):", e); sys.exit(0)
lines = [l.strip() for l in txt.splitlines()]
n_defs = sum(1 for l in lines if l.upper().startswith(".SUBCKT NMOS"))
n_refs = sum(1 for l in lines if l == "+ nmos")
if n_defs == 1 and n_refs == 2:
    print("VIOLATION: in the netlist the compiled transistor `xn` instantiates the designer's sub-circuit `nmos` (a resistor), not the PDK device:")
    print(txt)
    sys.exit(1)
print("ok")
