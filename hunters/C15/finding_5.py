"""
C15 finding 5: an ASAP7 request no device satisfies raises an error naming an unrelated device (a stale loop variable), not the request.
"""
import os, sys
sys.path.insert(0, os.getcwd())
for _p in ("pdks/Sky130", "pdks/Gf180", "pdks/Asap7"):
    sys.path.insert(0, os.path.join(os.getcwd(), _p))
from io import StringIO
import hdl21 as h
P = h.primitives


def build(prim, params, name="top"):
    """A module holding one instance `x` of `prim(params)`, every port tied to its own net."""
    m = h.Module(name=name)
    conns = {p.name: m.add(h.Signal(name="net_" + p.name)) for p in prim.port_list}
    m.x = prim(params)(**conns)
    return m


def netlist(m, fmt="spice"):
    s = StringIO()
    h.netlist(m, s, fmt=fmt)
    return s.getvalue()

import asap7_hdl21

m = build(P.Mos, P.MosParams(tp=h.MosType.NMOS, vth=h.MosVth.HIGH))
try:
    asap7_hdl21.compile(m)
    print("VIOLATION: no error raised for NMOS/HIGH on ASAP7")
    sys.exit(1)
except RuntimeError as e:
    msg = str(e)
if "HIGH" not in msg and "NMOS" not in msg or "PMOS" in msg or "sram" in msg:
    print(f"VIOLATION: request was NMOS / MosVth.HIGH; error says: {msg!r}")
    sys.exit(1)
print("ok")
