"""
C15 finding 17: a generator result is cached and compile rewrites it in place, so a second, separately built design that calls the same generator with the same parameters and is compiled to another PDK contains the first PDK's devices.
"""
import os, sys
sys.path.insert(0, os.getcwd())
for _p in ("pdks/Sky130", "pdks/Gf180", "pdks/Asap7"):
    sys.path.insert(0, os.path.join(os.getcwd(), _p))
from io import StringIO
import hdl21 as h
P = h.primitives


def build(prim, params, name="top"):
    """A module holding one instance `x` of `prim(params)`, every port tied to its own net."""
    m = h.Module(name=name)
    conns = {p.name: m.add(h.Signal(name="net_" + p.name)) for p in prim.port_list}
    m.x = prim(params)(**conns)
    return m


def netlist(m, fmt="spice"):
    s = StringIO()
    h.netlist(m, s, fmt=fmt)
    return s.getvalue()

import sky130_hdl21, gf180_hdl21

@h.paramclass
class InvParams:
    n = h.Param(dtype=int, desc="strength", default=1)

@h.generator
def Inv(p: InvParams) -> h.Module:
    m = h.Module()
    m.i, m.o, m.vdd, m.vss = h.Ports(4)
    m.mn = h.Nmos(h.MosParams(family=h.MosFamily.CORE))(d=m.o, g=m.i, s=m.vss, b=m.vss)
    m.mp = h.Pmos(h.MosParams(family=h.MosFamily.CORE))(d=m.o, g=m.i, s=m.vdd, b=m.vdd)
    return m

def design(name):
    t = h.Module(name=name)
    t.i, t.o, t.vdd, t.vss = h.Signals(4)
    t.inv = Inv(InvParams(n=1))(i=t.i, o=t.o, vdd=t.vdd, vss=t.vss)
    return t

A = design("chip_a"); sky130_hdl21.compile(A)
B = design("chip_b"); gf180_hdl21.compile(B)
pkg = h.to_proto(B)
devs = sorted({(i.module.external.domain, i.module.external.name) for mod in pkg.modules for i in mod.instances if i.module.WhichOneof("to") == "external"})
if any(d != "gf180" for d, _ in devs):
    print(f"VIOLATION: design B, built after A and compiled to GF180 only, holds devices {devs}")
    sys.exit(1)
print("ok")
