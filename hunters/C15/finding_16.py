"""
C15 finding 16: a compile that fails because one request has no device leaves the instances visited before the failure already replaced; compiling the same design to another PDK afterwards 'succeeds' and yields a design mixing the devices of two PDKs.
"""
import os, sys
sys.path.insert(0, os.getcwd())
for _p in ("pdks/Sky130", "pdks/Gf180", "pdks/Asap7"):
    sys.path.insert(0, os.path.join(os.getcwd(), _p))
from io import StringIO
import hdl21 as h
P = h.primitives


def build(prim, params, name="top"):
    """A module holding one instance `x` of `prim(params)`, every port tied to its own net."""
    m = h.Module(name=name)
    conns = {p.name: m.add(h.Signal(name="net_" + p.name)) for p in prim.port_list}
    m.x = prim(params)(**conns)
    return m


def netlist(m, fmt="spice"):
    s = StringIO()
    h.netlist(m, s, fmt=fmt)
    return s.getvalue()

import sky130_hdl21
from hdl21.pdk import sample_pdk

m = h.Module(name="top")
m.z = h.Signal()
m.a = h.Nmos(h.MosParams(family=h.MosFamily.CORE))(d=m.z, g=m.z, s=m.z, b=m.z)
m.b = h.Nmos(h.MosParams(family=h.MosFamily.CORE, vth=h.MosVth.ULTRA_LOW))(d=m.z, g=m.z, s=m.z, b=m.z)  # no such Sky130 device
try:
    sky130_hdl21.compile(m)
    print("unexpected: no error"); sys.exit(0)
except RuntimeError as e:
    err = str(e)
pkg = h.to_proto(m)
after_fail = {i.name: (i.module.external.domain, i.module.external.name) for i in pkg.modules[0].instances}
sample_pdk.compile(m)  # the retry on a PDK that has the device
pkg = h.to_proto(m)
after_retry = {i.name: (i.module.external.domain, i.module.external.name) for i in pkg.modules[0].instances}
domains = {d for d, _ in after_retry.values()}
if after_fail["a"][0] != "hdl21.primitives" or domains != {"sample_pdk"}:
    print("VIOLATION: failed compile is not rolled back, retry gives a mixed design")
    print(f"  sky130 compile raised: {err}")
    print(f"  design after the failed compile : {after_fail}")
    print(f"  design after sample_pdk.compile : {after_retry}")
    sys.exit(1)
print("ok")
