"""
C15 finding 11: Sky130 multipliers go through int(): a Bipolar mult of 2.5 silently becomes 2, a Literal mult raises TypeError, a capacitor mult that is a parameter name or a non-integer string raises a bare ValueError (GF180 passes all of these through).
"""
import os, sys
sys.path.insert(0, os.getcwd())
for _p in ("pdks/Sky130", "pdks/Gf180", "pdks/Asap7"):
    sys.path.insert(0, os.path.join(os.getcwd(), _p))
from io import StringIO
import hdl21 as h
P = h.primitives


def build(prim, params, name="top"):
    """A module holding one instance `x` of `prim(params)`, every port tied to its own net."""
    m = h.Module(name=name)
    conns = {p.name: m.add(h.Signal(name="net_" + p.name)) for p in prim.port_list}
    m.x = prim(params)(**conns)
    return m


def netlist(m, fmt="spice"):
    s = StringIO()
    h.netlist(m, s, fmt=fmt)
    return s.getvalue()

import sky130_hdl21

bad = []
m = build(P.Bipolar, P.BipolarParams(model="PNP_5p0V_0p68x0p68", mult=2.5))
sky130_hdl21.compile(m)
line = [l.strip() for l in netlist(m).splitlines() if "m=" in l][0]
if "2.5" not in line:
    bad.append(f"Bipolar mult=2.5 -> device call {line} (silently truncated)")
for label, prim, params in [
    ("Bipolar mult=Literal('nmult')", P.Bipolar, P.BipolarParams(model="PNP_5p0V_0p68x0p68", mult=h.Literal("nmult"))),
    ("PhysicalCapacitor mult='nmult'", P.PhysicalCapacitor, P.PhysicalCapacitorParams(model="MIM_M3", mult="nmult")),
    ("PhysicalCapacitor mult='2.0'", P.PhysicalCapacitor, P.PhysicalCapacitorParams(model="MIM_M3", mult="2.0")),
]:
    m = build(prim, params)
    try:
        sky130_hdl21.compile(m)
        netlist(m)
    except RuntimeError:
        pass
    except Exception as e:
        bad.append(f"{label}: {type(e).__name__}: {e}")
if bad:
    print("VIOLATION: given multipliers are altered or crash compile:")
    print("\n".join("  " + b for b in bad))
    sys.exit(1)
print("ok")
