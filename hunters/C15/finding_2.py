"""
C15 finding 2: device-table entries with more ports than the generic primitive (Sky130/GF180 NPN bipolars with substrate, Sky130 NMOS_ISO_20p0V, 3-terminal resistors/varactors requested through the 2-terminal primitive) compile without complaint into a design with an unconnected device port; to_proto exports it, netlisting then fails.
"""
import os, sys
sys.path.insert(0, os.getcwd())
for _p in ("pdks/Sky130", "pdks/Gf180", "pdks/Asap7"):
    sys.path.insert(0, os.path.join(os.getcwd(), _p))
from io import StringIO
import hdl21 as h
P = h.primitives


def build(prim, params, name="top"):
    """A module holding one instance `x` of `prim(params)`, every port tied to its own net."""
    m = h.Module(name=name)
    conns = {p.name: m.add(h.Signal(name="net_" + p.name)) for p in prim.port_list}
    m.x = prim(params)(**conns)
    return m


def netlist(m, fmt="spice"):
    s = StringIO()
    h.netlist(m, s, fmt=fmt)
    return s.getvalue()

import sky130_hdl21, gf180_hdl21

cases = []
for pdk in (sky130_hdl21, gf180_hdl21):
    lg = pdk.pdk_logic
    for k in lg.bjts:
        cases.append((pdk, P.Bipolar, P.BipolarParams(model=k)))
    for k in lg.xtors:
        cases.append((pdk, P.Mos, P.MosParams(model=k[0])))
cases.append((sky130_hdl21, P.PhysicalResistor, P.PhysicalResistorParams(model="GEN_ND")))
cases.append((sky130_hdl21, P.PhysicalCapacitor, P.PhysicalCapacitorParams(model="VAR_LVT")))
cases.append((gf180_hdl21, P.PhysicalResistor, P.PhysicalResistorParams(model="NPLUS_U")))

bad = []
for pdk, prim, params in cases:
    m = build(prim, params)
    try:
        pdk.compile(m)
    except RuntimeError:
        continue  # descriptive refusal: fine
    pkg = h.to_proto(m)
    inst = pkg.modules[0].instances[0]
    ext = {e.name.name: e for e in pkg.ext_modules}[inst.module.external.name]
    missing = sorted(set(p.signal for p in ext.ports) - set(c.portname for c in inst.connections))
    if missing:
        try:
            netlist(m, "spice")
            nl = "netlisted"
        except Exception as e:
            nl = f"netlist raises {type(e).__name__}: {e}"
        bad.append(f"{pdk.__name__}: {prim.name}(model={params.model!r}) -> {ext.name.name}: unconnected {missing}; {nl}")
if bad:
    print("VIOLATION: compile accepted the request but the compiled design has unconnected device ports:")
    print("\n".join("  " + b for b in bad))
    sys.exit(1)
print("ok")
