"""
C15 finding 7: Sky130 precision resistors ignore the given length l (the only size the PDK lets one set); the default table also gives 5.3 for the *_5p73 devices.
"""
import os, sys
sys.path.insert(0, os.getcwd())
for _p in ("pdks/Sky130", "pdks/Gf180", "pdks/Asap7"):
    sys.path.insert(0, os.path.join(os.getcwd(), _p))
from io import StringIO
import hdl21 as h
P = h.primitives


def build(prim, params, name="top"):
    """A module holding one instance `x` of `prim(params)`, every port tied to its own net."""
    m = h.Module(name=name)
    conns = {p.name: m.add(h.Signal(name="net_" + p.name)) for p in prim.port_list}
    m.x = prim(params)(**conns)
    return m


def netlist(m, fmt="spice"):
    s = StringIO()
    h.netlist(m, s, fmt=fmt)
    return s.getvalue()

import sky130_hdl21
from hdl21.prefix import µ

bad = []
for k in sky130_hdl21.pdk_logic.ress:
    if "PREC" not in k:
        continue
    a = build(P.ThreeTerminalResistor, P.PhysicalResistorParams(model=k))
    b = build(P.ThreeTerminalResistor, P.PhysicalResistorParams(model=k, l=25 * µ))
    sky130_hdl21.compile(a)
    sky130_hdl21.compile(b)
    la = [l for l in netlist(a).splitlines() if "l=" in l]
    lb = [l for l in netlist(b).splitlines() if "l=" in l]
    if la == lb:
        bad.append(f"{k}: l=25u given, device call still {lb[0].strip()}")
if bad:
    print("VIOLATION: given length is dropped:")
    print("\n".join("  " + b for b in bad))
    sys.exit(1)
print("ok")
