"""
C15 finding 9: diodes whose w / l are Literals (accepted for every other sized device) crash the Sky130 and GF180 compile with a TypeError from Literal arithmetic.
"""
import os, sys
sys.path.insert(0, os.getcwd())
for _p in ("pdks/Sky130", "pdks/Gf180", "pdks/Asap7"):
    sys.path.insert(0, os.path.join(os.getcwd(), _p))
from io import StringIO
import hdl21 as h
P = h.primitives


def build(prim, params, name="top"):
    """A module holding one instance `x` of `prim(params)`, every port tied to its own net."""
    m = h.Module(name=name)
    conns = {p.name: m.add(h.Signal(name="net_" + p.name)) for p in prim.port_list}
    m.x = prim(params)(**conns)
    return m


def netlist(m, fmt="spice"):
    s = StringIO()
    h.netlist(m, s, fmt=fmt)
    return s.getvalue()

import sky130_hdl21, gf180_hdl21

bad = []
for pdk, model in ((sky130_hdl21, "PWND_5p5V"), (gf180_hdl21, "PW2DW")):
    m = build(P.Diode, P.DiodeParams(model=model, w=h.Literal("wd"), l=h.Literal("ld")))
    try:
        pdk.compile(m)
        netlist(m)
    except RuntimeError as e:
        pass  # descriptive refusal
    except Exception as e:
        bad.append(f"{pdk.__name__}: {type(e).__name__}: {e}")
if bad:
    print("VIOLATION: Literal diode sizes crash compile with an undescriptive error:")
    print("\n".join("  " + b for b in bad))
    sys.exit(1)
print("ok")
