"""
C15 finding 10: the same given size written as a Prefixed (1*µ) or as a Literal ('1e-6') ends up in device calls that differ by a factor 1e6: Literals are multiplied by 1e6, numbers are not (Sky130 Mos / resistors / capacitors; in GF180 only capacitors).
"""
import os, sys
sys.path.insert(0, os.getcwd())
for _p in ("pdks/Sky130", "pdks/Gf180", "pdks/Asap7"):
    sys.path.insert(0, os.path.join(os.getcwd(), _p))
from io import StringIO
import hdl21 as h
P = h.primitives


def build(prim, params, name="top"):
    """A module holding one instance `x` of `prim(params)`, every port tied to its own net."""
    m = h.Module(name=name)
    conns = {p.name: m.add(h.Signal(name="net_" + p.name)) for p in prim.port_list}
    m.x = prim(params)(**conns)
    return m


def netlist(m, fmt="spice"):
    s = StringIO()
    h.netlist(m, s, fmt=fmt)
    return s.getvalue()

import re
import sky130_hdl21, gf180_hdl21
from hdl21.prefix import µ

SI = {"u": 1e-6, "n": 1e-9, "m": 1e-3, "": 1.0}

def value(pdk, prim, mk, key):
    m = build(prim, mk())
    pdk.compile(m)
    txt = netlist(m)
    v = re.search(rf"\b{key}='([^']*)'", txt).group(1)
    mm = re.fullmatch(r"([0-9.eE+-]+)([unm]?)", v)
    if mm:
        return v, float(mm.group(1)) * SI[mm.group(2)]
    return v, float(eval(v))  # e.g. "(1e-6 * 1e6)"

bad = []
cases = [
    ("sky130 Mos w", sky130_hdl21, P.Mos, lambda v: P.MosParams(model="NMOS_1p8V_STD", w=v), "w"),
    ("sky130 PhysicalResistor l", sky130_hdl21, P.PhysicalResistor, lambda v: P.PhysicalResistorParams(model="GEN_PO", l=v), "l"),
    ("sky130 PhysicalCapacitor w", sky130_hdl21, P.PhysicalCapacitor, lambda v: P.PhysicalCapacitorParams(model="MIM_M3", w=v), "w"),
    ("gf180 PhysicalCapacitor w", gf180_hdl21, P.PhysicalCapacitor, lambda v: P.PhysicalCapacitorParams(model="MIM_1p5fF", w=v), "c_width"),
    ("gf180 Mos w (for contrast)", gf180_hdl21, P.Mos, lambda v: P.MosParams(model="NFET_3p3V", w=v), "w"),
]
for label, pdk, prim, mk, key in cases:
    t1, v1 = value(pdk, prim, lambda: mk(1 * µ), key)
    t2, v2 = value(pdk, prim, lambda: mk(h.Literal("1e-6")), key)
    if abs(v1 - v2) > 1e-12:
        bad.append(f"{label}: 1*µ -> {key}='{t1}' ({v1:g}),  Literal('1e-6') -> {key}='{t2}' ({v2:g})")
if bad:
    print("VIOLATION: device size depends on how the same value was written:")
    print("\n".join("  " + b for b in bad))
    sys.exit(1)
print("ok")
