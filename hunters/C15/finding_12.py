"""
C15 finding 12: the sample PDK cannot compile a Mos whose w or l is a Literal (or a str, which becomes one): its parameter class compares the value with 0.
"""
import os, sys
sys.path.insert(0, os.getcwd())
for _p in ("pdks/Sky130", "pdks/Gf180", "pdks/Asap7"):
    sys.path.insert(0, os.path.join(os.getcwd(), _p))
from io import StringIO
import hdl21 as h
P = h.primitives


def build(prim, params, name="top"):
    """A module holding one instance `x` of `prim(params)`, every port tied to its own net."""
    m = h.Module(name=name)
    conns = {p.name: m.add(h.Signal(name="net_" + p.name)) for p in prim.port_list}
    m.x = prim(params)(**conns)
    return m


def netlist(m, fmt="spice"):
    s = StringIO()
    h.netlist(m, s, fmt=fmt)
    return s.getvalue()

from hdl21.pdk import sample_pdk

bad = []
for label, params in [("w=Literal('wn')", P.MosParams(w=h.Literal("wn"))), ("l='lmin'", P.MosParams(l="lmin"))]:
    m = build(P.Mos, params)
    try:
        sample_pdk.compile(m)
        netlist(m)
    except Exception as e:
        bad.append(f"{label}: {type(e).__name__}: {e}")
if bad:
    print("VIOLATION: sample PDK compile crashes on Literal sizes:")
    print("\n".join("  " + b for b in bad))
    sys.exit(1)
print("ok")
