"""
C15 finding 19: GF180 bipolars with equal primitive parameters get two distinct device calls (every other device kind, and Sky130 bipolars, share one): the cache is looked up in the diode dictionary but filled in the bipolar one.
"""
import os, sys
sys.path.insert(0, os.getcwd())
for _p in ("pdks/Sky130", "pdks/Gf180", "pdks/Asap7"):
    sys.path.insert(0, os.path.join(os.getcwd(), _p))
from io import StringIO
import hdl21 as h
P = h.primitives


def build(prim, params, name="top"):
    """A module holding one instance `x` of `prim(params)`, every port tied to its own net."""
    m = h.Module(name=name)
    conns = {p.name: m.add(h.Signal(name="net_" + p.name)) for p in prim.port_list}
    m.x = prim(params)(**conns)
    return m


def netlist(m, fmt="spice"):
    s = StringIO()
    h.netlist(m, s, fmt=fmt)
    return s.getvalue()

import sky130_hdl21, gf180_hdl21

def same_call(pdk, prim, mk):
    m = h.Module(name="top")
    cs = {p.name: m.add(h.Signal(name="n_" + p.name)) for p in prim.port_list}
    m.a = prim(mk())(**cs)
    m.b = prim(mk())(**cs)
    pdk.compile(m)
    return m.a.of is m.b.of

res = {
    "gf180 Mos": same_call(gf180_hdl21, P.Mos, lambda: P.MosParams(model="NFET_3p3V")),
    "gf180 Diode": same_call(gf180_hdl21, P.Diode, lambda: P.DiodeParams(model="PW2DW")),
    "sky130 Bipolar": same_call(sky130_hdl21, P.Bipolar, lambda: P.BipolarParams(model="PNP_5p0V_0p68x0p68")),
    "gf180 Bipolar": same_call(gf180_hdl21, P.Bipolar, lambda: P.BipolarParams(model="PNP_5p0x5p0")),
}
if not all(res.values()):
    print(f"VIOLATION: equal primitive parameters do not give the same device call: {res}")
    sys.exit(1)
print("ok")
