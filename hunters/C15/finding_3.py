"""
C15 finding 3: a design using a PDK device directly (from <pdk>.primitives, as the readme documents) next to a generic primitive that compiles to the same device cannot be netlisted after compile: the walker's device table holds a second ExternalModule object of the same name.
"""
import os, sys
sys.path.insert(0, os.getcwd())
for _p in ("pdks/Sky130", "pdks/Gf180", "pdks/Asap7"):
    sys.path.insert(0, os.path.join(os.getcwd(), _p))
from io import StringIO
import hdl21 as h
P = h.primitives


def build(prim, params, name="top"):
    """A module holding one instance `x` of `prim(params)`, every port tied to its own net."""
    m = h.Module(name=name)
    conns = {p.name: m.add(h.Signal(name="net_" + p.name)) for p in prim.port_list}
    m.x = prim(params)(**conns)
    return m


def netlist(m, fmt="spice"):
    s = StringIO()
    h.netlist(m, s, fmt=fmt)
    return s.getvalue()

import sky130_hdl21, gf180_hdl21
import sky130_hdl21.primitives as s
import gf180_hdl21.primitives as g

bad = []
for pdk, direct, fam in ((sky130_hdl21, s.NMOS_1p8V_STD, h.MosFamily.CORE), (gf180_hdl21, g.NFET_3p3V, h.MosFamily.CORE)):
    m = h.Module(name="top")
    m.z = h.Signal()
    m.a = direct()(d=m.z, g=m.z, s=m.z, b=m.z)  # PDK device, instantiated directly: must be left untouched
    m.b = h.Nmos(h.MosParams(family=fam))(d=m.z, g=m.z, s=m.z, b=m.z)  # generic: compiled
    pdk.compile(m)
    pkg = h.to_proto(m)
    names = [e.name.name for e in pkg.ext_modules]
    for fmt in ("spice", "spectre"):
        try:
            netlist(m, fmt)
        except Exception as e:
            bad.append(f"{pdk.__name__}: ext_modules in package = {names}; {fmt} netlist raises {type(e).__name__}: {str(e).splitlines()[0]}")
if bad:
    print("VIOLATION: compiled design does not netlist:")
    print("\n".join("  " + b for b in bad))
    sys.exit(1)
print("ok")
