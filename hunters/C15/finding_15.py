"""
C15 finding 15: compile time is exponential in the depth of a hierarchy with shared sub-modules (each level instantiating the level below twice): the walker re-walks a shared module once per path. Elaboration and export of the same design are linear.
"""
import os, sys
sys.path.insert(0, os.getcwd())
for _p in ("pdks/Sky130", "pdks/Gf180", "pdks/Asap7"):
    sys.path.insert(0, os.path.join(os.getcwd(), _p))
from io import StringIO
import hdl21 as h
P = h.primitives


def build(prim, params, name="top"):
    """A module holding one instance `x` of `prim(params)`, every port tied to its own net."""
    m = h.Module(name=name)
    conns = {p.name: m.add(h.Signal(name="net_" + p.name)) for p in prim.port_list}
    m.x = prim(params)(**conns)
    return m


def netlist(m, fmt="spice"):
    s = StringIO()
    h.netlist(m, s, fmt=fmt)
    return s.getvalue()

import signal, time
from hdl21.pdk import sample_pdk

def chain(depth):
    prev = h.Module(name="lvl0")
    prev.a = h.Port()
    prev.m = h.Nmos(h.MosParams())(d=prev.a, g=prev.a, s=prev.a, b=prev.a)
    for i in range(1, depth + 1):
        cur = h.Module(name=f"lvl{i}")
        cur.a = h.Port()
        cur.i0 = prev(a=cur.a)
        cur.i1 = prev(a=cur.a)
        prev = cur
    return prev

DEPTH, LIMIT = 30, 20  # 31 modules, 61 instances
top = chain(DEPTH)
t = time.time(); h.elaborate(top); t_elab = time.time() - t

class Timeout(Exception):
    pass
def on_alarm(*_):
    raise Timeout()
signal.signal(signal.SIGALRM, on_alarm)
signal.alarm(LIMIT)
try:
    t = time.time(); sample_pdk.compile(top); t_comp = time.time() - t
    signal.alarm(0)
except Timeout:
    t2 = []
    for d in (12, 14, 16):
        x = chain(d); h.elaborate(x); t = time.time(); sample_pdk.compile(x); t2.append((d, round(time.time() - t, 3)))
    print(f"VIOLATION: compiling a {DEPTH}-level design of {DEPTH+1} modules / {2*DEPTH+1} instances did not finish in {LIMIT}s "
          f"(its elaboration took {t_elab:.3f}s). Compile times at depth 12/14/16: {t2} - x4 per 2 levels.")
    sys.exit(1)
print(f"ok ({t_comp:.3f}s)")
