"""
C15 finding 13: hdl21.pdk.compile(src, <the PDK package>) registers the package as a second PDK beside its own pdk module, so that a later hdl21.pdk.compile(src) (PDK by default) fails as ambiguous although only one PDK was ever imported.
"""
import os, sys
sys.path.insert(0, os.getcwd())
for _p in ("pdks/Sky130", "pdks/Gf180", "pdks/Asap7"):
    sys.path.insert(0, os.path.join(os.getcwd(), _p))
from io import StringIO
import hdl21 as h
P = h.primitives


def build(prim, params, name="top"):
    """A module holding one instance `x` of `prim(params)`, every port tied to its own net."""
    m = h.Module(name=name)
    conns = {p.name: m.add(h.Signal(name="net_" + p.name)) for p in prim.port_list}
    m.x = prim(params)(**conns)
    return m


def netlist(m, fmt="spice"):
    s = StringIO()
    h.netlist(m, s, fmt=fmt)
    return s.getvalue()

from hdl21.pdk import sample_pdk  # the only PDK in this process (package; its `pdk` module is what registers itself)

def mk():
    return build(P.Mos, P.MosParams())

msgs = []
a = mk()
h.pdk.compile(a)  # by default: fine, one PDK registered
if not isinstance(a.x.of, h.ExternalModuleCall):
    msgs.append("default compile did nothing")
b = mk()
h.pdk.compile(b, sample_pdk)  # by module: the package, which is what a user has imported
if not isinstance(b.x.of, h.ExternalModuleCall):
    msgs.append("by-module compile did nothing")
c = mk()
try:
    h.pdk.compile(c)  # by default again
except Exception as e:
    msgs.append(f"after a by-module compile, the by-default compile raises {type(e).__name__}: {str(e)[:400]}")
if msgs:
    print("VIOLATION (history dependence of hdl21.pdk.compile):")
    print("\n".join("  " + m for m in msgs))
    sys.exit(1)
print("ok")
