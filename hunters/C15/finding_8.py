"""
C15 finding 8: Sky130 diodes given only w (or only l) silently discard it and fall back to the full default area / perimeter.
"""
import os, sys
sys.path.insert(0, os.getcwd())
for _p in ("pdks/Sky130", "pdks/Gf180", "pdks/Asap7"):
    sys.path.insert(0, os.path.join(os.getcwd(), _p))
from io import StringIO
import hdl21 as h
P = h.primitives


def build(prim, params, name="top"):
    """A module holding one instance `x` of `prim(params)`, every port tied to its own net."""
    m = h.Module(name=name)
    conns = {p.name: m.add(h.Signal(name="net_" + p.name)) for p in prim.port_list}
    m.x = prim(params)(**conns)
    return m


def netlist(m, fmt="spice"):
    s = StringIO()
    h.netlist(m, s, fmt=fmt)
    return s.getvalue()

import sky130_hdl21
from hdl21.prefix import µ

def call(params):
    m = build(P.Diode, params)
    sky130_hdl21.compile(m)
    return [l.strip() for l in netlist(m).splitlines() if "area" in l][0]

dflt = call(P.DiodeParams(model="PWND_5p5V"))
only_w = call(P.DiodeParams(model="PWND_5p5V", w=7 * µ))
only_l = call(P.DiodeParams(model="PWND_5p5V", l=7 * µ))
both = call(P.DiodeParams(model="PWND_5p5V", w=7 * µ, l=1 * µ))
if only_w == dflt or only_l == dflt:
    print("VIOLATION: a given diode dimension is ignored")
    print(f"  defaults      : {dflt}\n  w=7u only     : {only_w}\n  l=7u only     : {only_l}\n  w=7u and l=1u : {both}")
    sys.exit(1)
print("ok")
