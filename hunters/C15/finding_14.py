"""
C15 finding 14: asking hdl21.pdk.compile / set_default for a PDK name that is not registered (e.g. the package name 'sky130_hdl21' instead of 'sky130_hdl21.pdk_logic') reports 'No PDK named None': the requested name is overwritten before the message is built.
"""
import os, sys
sys.path.insert(0, os.getcwd())
for _p in ("pdks/Sky130", "pdks/Gf180", "pdks/Asap7"):
    sys.path.insert(0, os.path.join(os.getcwd(), _p))
from io import StringIO
import hdl21 as h
P = h.primitives


def build(prim, params, name="top"):
    """A module holding one instance `x` of `prim(params)`, every port tied to its own net."""
    m = h.Module(name=name)
    conns = {p.name: m.add(h.Signal(name="net_" + p.name)) for p in prim.port_list}
    m.x = prim(params)(**conns)
    return m


def netlist(m, fmt="spice"):
    s = StringIO()
    h.netlist(m, s, fmt=fmt)
    return s.getvalue()

import sky130_hdl21

bad = []
m = build(P.Mos, P.MosParams(family=h.MosFamily.CORE))
for label, f in (("compile", lambda: h.pdk.compile(m, "sky130_hdl21")), ("set_default", lambda: h.pdk.set_default("sky130_hdl21"))):
    try:
        f()
    except RuntimeError as e:
        if "sky130_hdl21" not in str(e):
            bad.append(f"{label}('sky130_hdl21'): {e}")
# (the registered name works)
h.pdk.compile(m, "sky130_hdl21.pdk_logic")
assert isinstance(m.x.of, h.ExternalModuleCall)
if bad:
    print("VIOLATION: undescriptive error for an unknown PDK name:")
    print("\n".join("  " + b for b in bad))
    sys.exit(1)
print("ok")
