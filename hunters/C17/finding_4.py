"""C17 finding 4: a Noise analysis whose output is a `Diff` bundle instance - a form the exporter explicitly
advertises ("Allow for `Diff` bundles") - crashes with AttributeError; a pair of names crashes likewise."""
import os, sys; sys.path.insert(0, os.getcwd())
import hdl21 as h
import hdl21.sim as hs
from hdl21.sim import Sim, Noise, LogSweep

@h.module
class F4Tb:
    VSS = h.Port()
    out = h.Diff()
    v = h.Vdc(dc=0, ac=1)(p=out.p, n=VSS)
    r = h.R(r=1)(p=out.p, n=out.n)
    r2 = h.R(r=1)(p=out.n, n=VSS)

bad = []
for label, output in [("Diff bundle instance", F4Tb.out), ("pair of signal names", ("out_p", "out_n"))]:
    s = Sim(tb=F4Tb, attrs=[Noise(output=output, input_source=F4Tb.v, sweep=LogSweep(1, 1e9, 10), name="n")])
    try:
        n = hs.to_proto(s).an[0].noise
        if (n.output_p, n.output_n) != ("out_p", "out_n"):
            bad.append(f"{label}: exported ({n.output_p!r}, {n.output_n!r}), the flattened tb signals are out_p / out_n")
    except (AttributeError, NameError) as ex:
        bad.append(f"{label}: {type(ex).__name__}: {ex}")
if bad:
    print("VIOLATION (one entry per analysis; undescriptive crash):")
    for b in bad: print("  -", b)
    sys.exit(1)
print("ok")
