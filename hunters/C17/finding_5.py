"""C17 finding 5: `Save(SaveMode.SELECTED)` - a member of the documented SaveMode enumeration, accepted by `Save` -
makes the export die with a bare, message-less `ValueError`."""
import os, sys; sys.path.insert(0, os.getcwd())
import hdl21.sim as hs
from hdl21.sim import Sim, Save, SaveMode

s = Sim(tb=hs.tb("f5_tb"), attrs=[Save(SaveMode.SELECTED)])
try:
    p = hs.to_proto(s)
except Exception as ex:
    if not str(ex):
        print(f"VIOLATION: Save(SaveMode.SELECTED) accepted at construction, export raises {type(ex).__name__}({str(ex)!r}) - no message")
        sys.exit(1)
    print("rejected descriptively:", ex)
    sys.exit(0)
print("ok", p.ctrls)
