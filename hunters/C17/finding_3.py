"""C17 finding 3: names generated for unnamed analyses (`Analysis<n>`) are not checked against user-given names
(nor against names used deeper in sweeps), so 'unnamed analyses receive distinct names' fails."""
import os, sys; sys.path.insert(0, os.getcwd())
import hdl21 as h
import hdl21.sim as hs
from hdl21.sim import Sim, Op, Tran, SweepAnalysis, PointSweep

def all_names(ans, out):
    for a in ans:
        inner = getattr(a, a.WhichOneof("an"))
        out.append(inner.analysis_name)
        if a.WhichOneof("an") in ("sweep", "monte"):
            all_names(inner.an, out)
    return out

s = Sim(tb=hs.tb("f3_tb"), attrs=[
    Op(name="Analysis0"),           # user-named (e.g. copied from an earlier export / result file)
    Op(),                           # unnamed
    SweepAnalysis(inner=[Tran(tstop=1, name="Analysis2")], var="x", sweep=PointSweep([1])),  # unnamed sweep, named inner
    Tran(tstop=2),                  # unnamed
])
names = all_names(hs.to_proto(s).an, [])
if len(set(names)) != len(names):
    print("VIOLATION: analysis names in one SimInput are not distinct:", names)
    sys.exit(1)
print("ok", names)
