"""C17 finding 7: misspelt keyword arguments of `Sim` and of every sim attribute are silently dropped
(the datatype config says `allow_extra="forbid"`, which pydantic 2 does not know; the key is `extra`).
The export is then silently incomplete."""
import os, sys; sys.path.insert(0, os.getcwd())
import hdl21.sim as hs
from hdl21.sim import Sim, Op, Tran, Options
from hdl21.prefix import n, p

bad = []
try:
    s = Sim(tb=hs.tb("f7_tb"), attr=[Op(name="op")])   # `attr`, not `attrs`
    out = hs.to_proto(s)
    if len(out.an) != 1:
        bad.append(f"Sim(tb=..., attr=[Op()]) accepted; exported {len(out.an)} analyses")
except Exception as ex:
    print("rejected:", type(ex).__name__)
try:
    s = Sim(tb=hs.tb("f7_tb2"))
    s.tran(tstop=1 * n, tsetp=1 * p, name="t")        # `tsetp`, not `tstep`
    s.options(value=1, name="temp", reltol=1e-9)      # readme-style `reltol=1e-9`
    out = hs.to_proto(s)
    if out.an[0].tran.tstep != 1e-12:
        bad.append(f"tran(tstop=1n, tsetp=1p) accepted; exported tstep={out.an[0].tran.tstep}")
    if len(out.opts) != 2 and "reltol" not in [o.name for o in out.opts]:
        bad.append(f"options(value=1, name='temp', reltol=1e-9) accepted; reltol is nowhere in the export {[o.name for o in out.opts]}")
except Exception as ex:
    print("rejected:", type(ex).__name__)
if bad:
    print("VIOLATION (accepted ill-formed input, silently incomplete export):")
    for b in bad: print("  -", b)
    sys.exit(1)
print("ok")
