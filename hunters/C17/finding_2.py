"""C17 finding 2 (history / state leak, same root as finding 1): defining a second, class-based Sim that re-uses
attribute objects of an existing Sim silently renames them, so a re-export of the FIRST Sim changes."""
import os, sys; sys.path.insert(0, os.getcwd())
import hdl21 as h
import hdl21.sim as hs
from hdl21.sim import Sim, Options, Tran, Param, Dc, PointSweep

vdd = Param(val=1, name="vdd")
tr = Tran(tstop=1, name="mytran")
opt = Options(value=1e-9, name="reltol")
s1 = Sim(tb=hs.tb("f2_tb_a"), attrs=[vdd, tr, opt, Dc(var=vdd, sweep=PointSweep([1]), name="mydc")])
before = hs.to_proto(s1)

@hs.sim
class Other:  # An unrelated Sim re-using the shared corner/option objects
    tb = hs.tb("f2_tb_b")
    supply = vdd
    sim_it = tr
    o = opt

after = hs.to_proto(s1)
if before != after:
    print("VIOLATION: export of an unmodified Sim changed after another Sim was *defined*:")
    print("  before: tran", before.an[0].tran.analysis_name, "| param", before.ctrls[0].param.name, "| dc.indep_name", before.an[1].dc.indep_name, "| option", before.opts[0].name)
    print("  after : tran", after.an[0].tran.analysis_name, "| param", after.ctrls[0].param.name, "| dc.indep_name", after.an[1].dc.indep_name, "| option", after.opts[0].name)
    sys.exit(1)
print("ok")
