"""C17 finding 6: non-Module testbenches. `Sim.tb` is typed `Instantiable` and `is_tb` explicitly admits
`ExternalModuleCall`s, but exporting such a Sim dies with AttributeError deep inside elaboration;
a PrimitiveCall testbench in an @sim class is 'rejected' with a NameError from a broken error message."""
import os, sys; sys.path.insert(0, os.getcwd())
import hdl21 as h
import hdl21.sim as hs
from hdl21.sim import Sim, Op

bad = []
Ext = h.ExternalModule(name="F6ExtTb", port_list=[h.Port(name="VSS")], desc="netlist-defined testbench")
s = Sim(tb=Ext(), attrs=[Op()])          # accepted
assert hs.is_tb(s.tb)                    # and it *is* a testbench per the library
try:
    p = hs.to_proto(s)
    if p.top != "F6ExtTb" and not p.top.endswith(".F6ExtTb"):
        bad.append(f"top is {p.top!r}")
except (AttributeError, NameError) as ex:
    bad.append(f"ExternalModuleCall testbench: {type(ex).__name__}: {ex}")
except (RuntimeError, TypeError) as ex:
    print("rejected descriptively:", str(ex)[:100])

try:
    @hs.sim
    class S:
        tb = h.R(r=1)  # two ports, not a testbench: must be rejected (RuntimeError per the docstring)
except (RuntimeError, TypeError) as ex:
    pass
except NameError as ex:
    bad.append(f"@sim with PrimitiveCall tb: NameError: {ex}")
if bad:
    print("VIOLATION (undescriptive crash):")
    for b in bad: print("  -", b)
    sys.exit(1)
print("ok")
