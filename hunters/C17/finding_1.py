"""C17 finding 1: in a class-defined (@sim) Sim, the class-attribute key overwrites the `name` of an `Options`
(and every other explicitly given name), so the exported SimOptions names the Python variable, not the option."""
import os, sys; sys.path.insert(0, os.getcwd())
import hdl21 as h
import hdl21.sim as hs
from hdl21.sim import Sim, Options, Tran, Param

# Procedural reference
ref = hs.to_proto(Sim(tb=hs.tb("f1_tb_a"), attrs=[Options(1e-9, name="reltol"), Tran(tstop=1, name="mytran"), Param(1, name="vdd")]))

@hs.sim
class MySim:  # Same content, class-defined. (This is the form used in hdl21/sim/tests/test_sim.py::test_sim_decorator.)
    tb = hs.tb("f1_tb_b")
    opts = Options(1e-9, name="reltol")
    t = Tran(tstop=1, name="mytran")
    p = Param(1, name="vdd")

got = hs.to_proto(MySim)
bad = []
if [o.name for o in got.opts] != ["reltol"]:
    bad.append(f"option name exported as {[o.name for o in got.opts]}, expected ['reltol'] (procedural export gives {[o.name for o in ref.opts]})")
if got.an[0].tran.analysis_name != "mytran":
    bad.append(f"explicitly named analysis exported as {got.an[0].tran.analysis_name!r}, expected 'mytran'")
if got.ctrls[0].param.name != "vdd":
    bad.append(f"explicitly named param exported as {got.ctrls[0].param.name!r}, expected 'vdd'")
if bad:
    print("VIOLATION (C17: 'one entry per ... option ... with the same names'):")
    for b in bad: print("  -", b)
    sys.exit(1)
print("ok")
