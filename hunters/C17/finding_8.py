"""C17 finding 8 (low confidence / design limit): two class-defined Sims that each define their testbench inline
as `class Tb` (the readme's form) export fine alone but cannot be exported 'in a list'."""
import os, sys; sys.path.insert(0, os.getcwd())
import hdl21 as h
import hdl21.sim as hs
from hdl21.sim import Op, Tran

@hs.sim
class SimA:
    @h.module
    class Tb:
        VSS = h.Port()
        a = h.Signal()
    op = Op()

@hs.sim
class SimB:
    @h.module
    class Tb:
        VSS = h.Port()
        b = h.Signal()
    tr = Tran(tstop=1)

hs.to_proto(SimA); hs.to_proto(SimB)  # each alone: fine
try:
    ps = hs.to_proto([SimA, SimB])
except RuntimeError as ex:
    print("VIOLATION (alone or in a list): each Sim exports alone, the list does not:", str(ex).splitlines()[0])
    sys.exit(1)
for p in ps:
    assert [m.name for m in p.pkg.modules].count(p.top) == 1
print("ok")
