"""
C11 finding 2: strided / reversed slices of ONE-BIT signals do not survive the round trip.

`sig[::-1]` (or `sig[::2]`) of a width-1 signal is exported as `slice {signal: "sig" top: 0 bot: 0}`.
Importing that package and re-exporting it produces `sig: "sig"` instead: the package changes.
(Bit-reversal `bus[::-1]` written in a width-parametric generator hits this at width=1.)
Every other slice of a 1-bit signal (`sig[0]`, `sig[0:1]`, `sig[:]`) is exported as `sig: "sig"` in the first place.
"""
import os, sys
sys.path.insert(0, os.getcwd())
sys.path.insert(0, os.path.join(os.getcwd(), "_out"))
from _common import *


@h.paramclass
class W:
    width = h.Param(dtype=int, desc="bus width")


@h.module
class Sink:
    a = h.Input(width=1)
    b = h.Input(width=2)


@h.module
class Top:
    z = h.Signal(width=1)
    y = h.Signal(width=1)
    i = Sink(a=z[::-1], b=h.Concat(y[::2], z[::-1]))


P, P2 = roundtrip(Top)
if P != P2:
    top1 = [m for m in P.modules if m.name.endswith("Top")][0]
    top2 = [m for m in P2.modules if m.name.endswith("Top")][0]
    print("VIOLATION (C11: 'connections with slices and concatenations' must come back equal)")
    print("---- connections of instance `i` in the package produced by to_proto:")
    for c in top1.instances[0].connections:
        print(str(c).replace("\n", " "))
    print("---- the same after from_proto + to_proto:")
    for c in top2.instances[0].connections:
        print(str(c).replace("\n", " "))
    sys.exit(1)
print("no violation")
sys.exit(0)
