"""
C11 finding 3: `ExternalModule`s whose `domain` is one of "hdl21.primitives", "hdl21.ideal", "vlsir.primitives"
do not survive the round trip.

`to_proto` accepts them, declares them in `ext_modules`, and refers to them by (domain, name).
`from_proto.import_instance` checks the three privileged domains *before* looking at the package's own `ext_modules`,
so the instance is re-bound to the same-named built-in primitive, or rejected:
 (a) name/ports matching a built-in primitive: silently becomes that primitive. The re-export loses the
     `ext_modules` declaration (with its port order and spice type), and gains the primitive's default parameters.
 (b) anything else: RuntimeError / AttributeError on import.
"""
import os, sys
sys.path.insert(0, os.getcwd())
sys.path.insert(0, os.path.join(os.getcwd(), "_out"))
from _common import *
from vlsirtools import SpiceType

failed = False

# (a) Silent re-binding
mos = h.ExternalModule(
    name="Mos",
    domain="hdl21.primitives",
    port_list=[h.Port(name="b"), h.Port(name="s"), h.Port(name="g"), h.Port(name="d")],  # note the order
    paramtype=dict,
    spicetype=SpiceType.MOS,
)
top = h.Module(name="TopA")
top.x = h.Signal()
top.i = mos(w=1)(d=top.x, g=top.x, s=top.x, b=top.x)
try:
    P, P2 = roundtrip(top)
    if P != P2:
        failed = True
        print("(a) VIOLATION: package changed in the round trip")
        print("    ext_modules before:", [(e.name.domain, e.name.name, [p.signal for p in e.ports]) for e in P.ext_modules])
        print("    ext_modules after: ", [(e.name.domain, e.name.name) for e in P2.ext_modules])
        print("    parameters before:", [p.name for p in P.modules[0].instances[0].parameters])
        print("    parameters after: ", [p.name for p in P2.modules[0].instances[0].parameters])
except Exception as e:
    failed = True
    print("(a) VIOLATION: round trip raised", type(e).__name__, str(e)[:150])

# (b) Crash
for dom, name in [("vlsir.primitives", "my_res"), ("hdl21.ideal", "Thing"), ("hdl21.primitives", "Thing")]:
    ext = h.ExternalModule(name=name, domain=dom, port_list=[h.Port(name="a")], paramtype=dict)
    top = h.Module(name="TopB")
    top.x = h.Signal()
    top.i = ext(k=1)(a=top.x)
    try:
        P, P2 = roundtrip(top)
        if P != P2:
            failed = True
            print(f"(b) {dom}/{name}: VIOLATION: package changed")
    except Exception as e:
        failed = True
        print(f"(b) {dom}/{name}: VIOLATION: round trip raised {type(e).__name__}: {str(e)[:100]}")

if failed:
    sys.exit(1)
print("no violation")
sys.exit(0)
