"""
C11 finding 1: a package in which two `ExternalModule` *objects* share one (domain, name) cannot be imported.

`to_proto` keys external modules by `id()`, and emits one `ext_modules` entry per object.
`from_proto` keys them by (domain, name), and rejects the second entry.
Natural trigger: a design which instantiates a Sky130 device directly (`sky130_hdl21.primitives.NMOS_1p8V_STD`)
and also holds a generic `h.Mos` which `sky130_hdl21.compile` maps onto the same device: the PDK package holds two
separate `ExternalModule` objects for each device (one in its `primitives` namespace, one in its compile-tables).
A second trigger, without any PDK: a generator which creates its `ExternalModule` inside its body, called twice.
"""
import os, sys
sys.path.insert(0, os.getcwd())
for p in ("Sky130", "Gf180", "Asap7"):
    sys.path.insert(0, os.path.join(os.getcwd(), "pdks", p))
sys.path.insert(0, os.path.join(os.getcwd(), "_out"))
from _common import *
import hdl21.primitives as hp
from hdl21.prefix import µ

failed = False

# Trigger A: PDK device used directly, and by compilation
try:
    import sky130_hdl21 as sky
except Exception as e:  # PDK not available: skip this trigger
    sky = None
    print("sky130 unavailable, skipping trigger A:", e)

if sky is not None:
    @h.module
    class PdkTop:
        s = h.Signal()
        direct = sky.primitives.NMOS_1p8V_STD()(d=s, g=s, s=s, b=s)
        generic = hp.Nmos(w=1 * µ, l=1 * µ, vth=hp.MosVth.STD, family=hp.MosFamily.CORE)(d=s, g=s, s=s, b=s)

    sky.compile(PdkTop)
    P = to_proto(PdkTop)
    print("trigger A: exported ext_modules:", [(e.name.domain, e.name.name) for e in P.ext_modules])
    try:
        P, P2 = roundtrip(PdkTop)
        if P != P2:
            failed = True
            print("trigger A: VIOLATION: re-exported package differs")
    except Exception as e:
        failed = True
        print("trigger A: VIOLATION: round trip raised", type(e).__name__, ":", str(e).splitlines()[0])

# Trigger B: generator creating an ExternalModule in its body
@h.paramclass
class GP:
    n = h.Param(dtype=int, desc="n")

@h.generator
def Cell(p: GP) -> h.Module:
    ext = h.ExternalModule(name="blackbox", domain="vendor", port_list=[h.Port(name="a")], paramtype=dict)
    m = h.Module()
    m.a = h.Port()
    m.i = ext(n=p.n)(a=m.a)
    return m

@h.module
class GenTop:
    s = h.Signal()
    c1 = Cell(n=1)(a=s)
    c2 = Cell(n=2)(a=s)

P = to_proto(GenTop)
print("trigger B: exported ext_modules:", [(e.name.domain, e.name.name) for e in P.ext_modules])
try:
    P, P2 = roundtrip(GenTop)
    if P != P2:
        failed = True
        print("trigger B: VIOLATION: re-exported package differs")
except Exception as e:
    failed = True
    print("trigger B: VIOLATION: round trip raised", type(e).__name__, ":", str(e).splitlines()[0])

if failed:
    print("Property C11 violated: a package produced by `to_proto` is rejected by `from_proto`.")
    sys.exit(1)
print("no violation")
sys.exit(0)
