"""
C11 finding 4: `from_proto` builds its result namespace from the dot-separated parts of each module's qualified name,
and that namespace construction loses or rejects modules.

 (a) Any path-part equal to "name" is rejected: every level of the namespace carries a *string* attribute `name`
     (the package domain / the path part), which `get_namespace` finds in the way. A design defined in a python file
     called `name.py` (or in a package directory `name/`) exports fine and cannot be imported.
 (b) A module whose qualified name is a prefix of another's (`lib.amp` defined in `lib/__init__.py`, and
     `lib.amp.Stage` defined in `lib/amp.py`; or simply `h.Module(name="Top")` and `h.Module(name="Top.Bias")`)
     is either rejected (RuntimeError: "Invalid namespace path ... overwriting Module"), or - in the other module
     order - silently *replaces* the sub-namespace, so that the imported top-level module `lib.amp.Stage` is no longer
     to be found in what `from_proto` returns, and cannot be exported again.
"""
import os, sys, tempfile, importlib
sys.path.insert(0, os.getcwd())
sys.path.insert(0, os.path.join(os.getcwd(), "_out"))
from _common import *

failed = False
tmp = tempfile.mkdtemp()
sys.path.insert(0, tmp)

# (a) A python module called `name`
with open(os.path.join(tmp, "name.py"), "w") as f:
    f.write("import hdl21 as h\n@h.module\nclass Cell:\n    p = h.Port()\n")
name_py = importlib.import_module("name")
P = to_proto(name_py.Cell)
print("(a) exported:", [m.name for m in P.modules])
try:
    P, P2 = roundtrip(name_py.Cell)
    if P != P2:
        failed = True
        print("(a) VIOLATION: package changed")
except Exception as e:
    failed = True
    print(f"(a) VIOLATION: round trip raised {type(e).__name__}: {str(e)[:120]}")

# (b) Prefix-related qualified names
A = h.Module(name="Top")
A.p = h.Port()
B = h.Module(name="Top.Bias")
B.p = h.Port()
for label, tops in (("[Top, Top.Bias]", [A, B]), ("[Top.Bias, Top]", [B, A])):
    P = to_proto(tops)
    print(f"(b) {label} exported:", [m.name for m in P.modules])
    try:
        P, P2 = roundtrip(tops)
        if P != P2:
            failed = True
            print(f"(b) {label} VIOLATION: package changed")
    except Exception as e:
        failed = True
        print(f"(b) {label} VIOLATION: round trip raised {type(e).__name__}: {str(e)[:120]}")

if failed:
    sys.exit(1)
print("no violation")
sys.exit(0)
