"""
C11 finding 5: an `ExternalModule` whose `port_list` repeats a port name is accepted, exported with both entries,
and comes back from the round trip with one of them ("external modules with their port order").
If the two entries differ in width or direction, the imported module silently takes those of the *last* one.
"""
import os, sys
sys.path.insert(0, os.getcwd())
sys.path.insert(0, os.path.join(os.getcwd(), "_out"))
from _common import *

ext = h.ExternalModule(
    name="Ext",
    domain="vendor",
    port_list=[h.Input(name="a", width=1), h.Port(name="b"), h.Output(name="a", width=1)],
    paramtype=dict,
)
top = h.Module(name="Top")
top.x = h.Signal()
top.i = ext()(a=top.x, b=top.x)

P, P2 = roundtrip(top)
if P != P2:
    fmt = lambda pkg: [(p.signal, p.direction) for p in pkg.ext_modules[0].ports]
    print("VIOLATION: ext-module ports before:", fmt(P))
    print("           ext-module ports after: ", fmt(P2))
    sys.exit(1)
print("no violation")
sys.exit(0)
