"""Shared helper for the finding scripts: export, import, re-export the imported top-level modules."""
import os, sys
sys.path.insert(0, os.getcwd())
import hdl21 as h
from hdl21.proto import to_proto, from_proto
from hdl21.qualname import qualname


def lookup(ns, qual):
    obj = ns
    for part in qual.split("."):
        obj = getattr(obj, part)
    return obj


def roundtrip(tops, domain=None):
    """Returns (P, P2): the exported package, and the re-export of the imported top-level modules."""
    P = to_proto(tops, domain=domain)
    tl = tops if isinstance(tops, list) else [tops]
    names = [qualname(m) for m in h.elaborate(tl)]
    ns = from_proto(P)
    itops = [lookup(ns, n) for n in names]
    P2 = to_proto(itops, domain=P.domain)
    return P, P2
