"""
C11 finding 7: a slice which lands on a one-bit-wide `Concat` leaves a NESTED concatenation in the exported package,
which the round trip flattens.

`h.Concat(h.Concat(z), y, w)[0:2]`, or - with no slice written by the designer - an instance array whose 2-bit port is
connected to `h.Concat(h.Concat(z), y, w, v)` (array flattening slices it per instance), exports as
`concat { parts {sig: y}  parts { concat { parts {sig: z} } } }`.
After from_proto + to_proto the same connection is `concat { parts {sig: y} parts {sig: z} }`.
(`h.Concat(*sigs)` with a one-element list is how single-part concatenations come about in generated code.)
"""
import os, sys
sys.path.insert(0, os.getcwd())
sys.path.insert(0, os.path.join(os.getcwd(), "_out"))
from _common import *


@h.module
class Sink:
    a = h.Input(width=2)


@h.module
class Top:
    z, y, w, v = h.Signals(4)
    direct = Sink(a=h.Concat(h.Concat(z), y, w)[0:2])
    arr = 2 * Sink(a=h.Concat(h.Concat(z), y, w, v))


P, P2 = roundtrip(Top)
if P != P2:
    top1 = [m for m in P.modules if m.name.endswith("Top")][0]
    top2 = [m for m in P2.modules if m.name.endswith("Top")][0]
    print("VIOLATION (C11: 'connections with slices and concatenations' must come back equal)")
    for i1, i2 in zip(top1.instances, top2.instances):
        if i1 != i2:
            print(f"---- instance {i1.name}, exported by to_proto:")
            print(" ", str(i1.connections[0].target).replace("\n", " "))
            print(f"---- instance {i2.name}, after from_proto + to_proto:")
            print(" ", str(i2.connections[0].target).replace("\n", " "))
    sys.exit(1)
print("no violation")
sys.exit(0)
