"""
C11 finding 6: a design using a user-defined `hdl21.primitives.Primitive` (a public dataclass) exports fine,
as a reference into the `hdl21.primitives` domain, but cannot be imported: `from_proto` looks the name up in
the `hdl21.primitives` python module only, and its error path then itself fails with `AttributeError: external`
(`import_hdl21_primitive` formats its message from `pref.external.name`, where `pref` is already the `QualifiedName`).
"""
import os, sys
sys.path.insert(0, os.getcwd())
sys.path.insert(0, os.path.join(os.getcwd(), "_out"))
from _common import *
import hdl21.primitives as hp


@h.paramclass
class MemristorParams:
    ron = h.Param(dtype=h.Scalar, desc="on resistance", default=100)


Memristor = hp.Primitive(
    name="Memristor",
    desc="user-defined primitive",
    port_list=[h.Port(name="p"), h.Port(name="n")],
    paramtype=MemristorParams,
    primtype=hp.PrimitiveType.PHYSICAL,
)
top = h.Module(name="Top")
top.x = h.Signal()
top.i = Memristor(ron=5)(p=top.x, n=top.x)

try:
    P, P2 = roundtrip(top)
    if P != P2:
        print("VIOLATION: package changed")
        sys.exit(1)
except Exception as e:
    print(f"VIOLATION: to_proto accepted the design, from_proto raised {type(e).__name__}: {e}")
    sys.exit(1)
print("no violation")
sys.exit(0)
