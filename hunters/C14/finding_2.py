"""C14 finding 2: multiplying by an `Exponent` (`e(k)`, `K*K`, `K/m`, `K**2`...) rounds the mantissa to the
*current decimal context* (28 digits by default, fewer if the caller lowered `prec`).

`+`, `-`, `*` between Prefixed numbers, `* Prefix`, `scale()`, `-x`, `abs(x)` have all been made exact (they run in
`_EXACT`), but `Exponent.__rmul__ / __mul__` still compute `Decimal(str(other)) * Decimal(10) ** self.residual` with the
ordinary context-bound operators. So rescaling by a power of ten silently loses digits, for
  - a Prefixed that is the exact sum / difference / product of two in-domain (<= 25 digit) numbers, and
  - a Decimal being converted with the documented `number * e(k)` idiom,
while the very same multiplication written with a `Prefix` (`* K`) is exact.
"""
import os, sys; sys.path.insert(0, os.getcwd())
import decimal
from decimal import Decimal as D, Context, MAX_PREC, MAX_EMAX, MIN_EMIN
from hdl21.prefix import Prefixed, Prefix, e, K, M, m, n, y

EX = Context(prec=MAX_PREC, Emax=MAX_EMAX, Emin=MIN_EMIN)
val = lambda p: EX.scaleb(p.number, p.prefix.value)
bad = []

def expect(label, got, want_value):
    if not isinstance(got, Prefixed) or EX.compare(val(got), want_value) != 0:
        bad.append(f"{label}: got {got!r} (value {val(got)}), exact result is {want_value}")

# (a) exact sum of two one-digit numbers, then times 1000
s = (1 * M) + (1 * y)                       # 1000000.000000000000000000000001, exact (31 digits)
assert val(s) == D("1000000.000000000000000000000001")
expect("((1*M)+(1*y)) * K      [Prefix]  ", s * K, D("1000000000.000000000000000000001"))
expect("((1*M)+(1*y)) * e(3)   [Exponent]", s * e(3), D("1000000000.000000000000000000001"))
expect("((1*M)+(1*y)) * (K*K)  [Exponent]", s * (K * K), D("1000000000000.000000000000000001"))
expect("((1*M)+(1*y)) * (K/m)  [Exponent]", s * (K / m), D("1000000000000.000000000000000001"))
# (b) exact product of two 25-digit numbers, then times 1 (!)
a = D("1.234567890123456789012345") * n
p = a * a
expect("(a*a) * e(0)", p * e(0), val(p))
# (c) conversion of a Decimal with the `x * e(k)` idiom vs. `x * n`
x = D("123456789.0123456789012345678901")   # 31 digits
expect("Decimal * n    ", x * n, EX.scaleb(x, -9))
expect("Decimal * e(-9)", x * e(-9), EX.scaleb(x, -9))
# (d) in-domain 25-digit mantissa, caller works in a 10-digit context (all other operations are immune to this)
with decimal.localcontext() as ctx:
    ctx.prec = 10
    b = D("9.999999999999999999999999") * K
    expect("prec=10: b * K   ", b * K, EX.scaleb(val(b), 3))
    expect("prec=10: b + b   ", b + b, EX.add(val(b), val(b)))
    expect("prec=10: b * e(3)", b * e(3), EX.scaleb(val(b), 3))

if bad:
    print("VIOLATION of C14 ('multiplication, rescaling and conversion return exactly the decimal result'):")
    for b in bad:
        print("  -", b)
    sys.exit(1)
print("ok")
