"""C14 finding 4: whether comparisons raise depends on process-level decimal defaults at the time hdl21 is imported.

`hdl21.prefix._EXACT = Context(prec=MAX_PREC, Emax=MAX_EMAX, Emin=MIN_EMIN)` leaves `traps` (and `rounding`) unspecified,
so they are copied from `decimal.DefaultContext` *as it is when hdl21 is first imported*. The Python docs recommend
editing DefaultContext at program start to set application-wide defaults. An application that does
`DefaultContext.traps[Inexact] = True` (to be told about any silent rounding in *its* arithmetic) then gets
decimal.Inexact out of `==`, `<`, ... of two finite Prefixed numbers whenever the 20-place rounding in `_round()`
actually discards a digit - even in a thread whose own current context traps nothing.
(The check runs in a subprocess because the defect is keyed on import-time state.)
"""
import os, sys, subprocess, textwrap

child = textwrap.dedent(
    """
    import os, sys; sys.path.insert(0, os.getcwd())
    import decimal
    decimal.DefaultContext.traps[decimal.Inexact] = True      # application-wide default, set before importing hdl21
    decimal.setcontext(decimal.Context(traps=[]))             # ... and even so, *this* thread traps nothing
    from decimal import Decimal as D
    from hdl21.prefix import Prefixed, Prefix
    a = Prefixed(number=D("1.0000000000000000000001"), prefix=Prefix.KILO)   # 23 significant digits
    b = Prefixed(number=D("1"), prefix=Prefix.KILO)
    out = []
    for name in ("__eq__", "__ne__", "__lt__", "__le__", "__gt__", "__ge__"):
        try:
            getattr(a, name)(b)
        except Exception as ex:
            out.append(f"a.{name}(b) raised {type(ex).__name__}{ex.args}")
    print("\\n".join(out))
    sys.exit(1 if out else 0)
    """
)
r = subprocess.run([sys.executable, "-c", child], cwd=os.getcwd(), capture_output=True, text=True)
if r.returncode != 0:
    print("VIOLATION of C14 ('Comparing any two finite prefixed numbers never raises'):")
    print("  a = 1.0000000000000000000001*KILO, b = 1*KILO, decimal.DefaultContext.traps[Inexact] set before `import hdl21`")
    for line in (r.stdout + r.stderr).strip().splitlines():
        print("  -", line)
    sys.exit(1)
print("ok")
