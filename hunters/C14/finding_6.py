"""C14 (adjacent) finding 6: a `Prefixed`-typed parameter does not convert numbers - the library's own
`hdl21.generators.AcDc` / `CmDmGenParams` cannot be instantiated with their defaults.

`Prefixed.validate` / `__get_validators__` (number -> Prefixed conversion when a Prefixed is a field of a paramclass)
are commented out in hdl21/prefix.py ("FIXME: pending potential deprecation #157"), and under pydantic 2 a BaseModel-typed
field accepts only an instance or a dict. `AcDc` declares `ac = h.Param(dtype=h.Prefixed, default=0)`: the int default is
never converted, so `AcDc()` - and `CmDmGenParams()`, whose default_factory is AcDc - raise ValidationError.
`h.Scalar`-typed fields do convert (exactly). Reported as adjacent: the property speaks of conversion *results*.
"""
import os, sys; sys.path.insert(0, os.getcwd())
from decimal import Decimal
import hdl21 as h
from hdl21 import generators as g

bad = []
for label, f in [
    ("hdl21.generators.AcDc()", lambda: g.AcDc()),
    ("hdl21.generators.CmDmGenParams()", lambda: g.CmDmGenParams()),
    ("AcDc(ac=1, dc=Decimal('0.5'))", lambda: g.AcDc(ac=1, dc=Decimal("0.5"))),
]:
    try:
        f()
    except Exception as ex:
        bad.append(f"{label}: raised {type(ex).__name__}: {str(ex).splitlines()[0]} / {str(ex).splitlines()[2].strip()[:90]}")
if bad:
    print("ADJACENT to C14 ('conversion of prefixed numbers'): numbers are not converted for Prefixed-typed params")
    for b in bad:
        print("  -", b)
    sys.exit(1)
print("ok")
