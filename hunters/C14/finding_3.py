"""C14 finding 3: `+`, `-`, `*` and `scale()` raise decimal signals that come from *choosing the result's prefix*.

Every arithmetic result is passed through `Prefixed.scale()` (no argument), which picks the display prefix from
`abs(self.number).log10() + self.prefix.value` - ordinary Decimal operators, evaluated in the caller's *current*
decimal context rather than in `_EXACT`. The exact result has already been computed at that point, but:
  - under the default context a number whose exponent is beyond the context's Emax (999999) makes `abs()` raise
    decimal.Overflow, so `x + 1`, `x * 1`, `x.scale()` raise although `-x`, `abs(x)`, `x.scale(K)`, comparisons work;
  - a caller that traps `decimal.Inexact` (the standard way of asking `decimal` to guarantee exact arithmetic) or
    that uses a narrow Emax/Emin gets Inexact / Overflow from ordinary in-domain operands such as (1*K)+(1*m),
    because log10() is (harmlessly) inexact.
The property demands the exact decimal result for these operations; they are all exactly representable.
"""
import os, sys; sys.path.insert(0, os.getcwd())
import decimal
from decimal import Decimal as D, Context, MAX_PREC, MAX_EMAX, MIN_EMIN
from hdl21.prefix import Prefixed, Prefix, K, m, UNIT

EX = Context(prec=MAX_PREC, Emax=MAX_EMAX, Emin=MIN_EMIN)
val = lambda p: EX.scaleb(p.number, p.prefix.value)
bad = []

def expect(label, f, want_value):
    try:
        got = f()
    except Exception as ex:
        bad.append(f"{label}: raised {type(ex).__name__}{ex.args}; exact result {want_value} is representable")
        return
    if EX.compare(val(got), want_value) != 0:
        bad.append(f"{label}: got {got!r}, exact result is {want_value}")

# (a) in-domain operands, caller traps Inexact
with decimal.localcontext() as ctx:
    ctx.traps[decimal.Inexact] = True
    expect("Inexact trapped: (1*K)+(1*m)", lambda: (1 * K) + (1 * m), D("1000.001"))
    expect("Inexact trapped: (1*K)-(1*m)", lambda: (1 * K) - (1 * m), D("999.999"))
    expect("Inexact trapped: (2*K)*(3*m)", lambda: (2 * K) * (3 * m), D("6"))
    expect("Inexact trapped: (2*K)*3", lambda: (2 * K) * 3, D("6000"))
    expect("Inexact trapped: (2*K).scale()", lambda: (2 * K).scale(), D("2000"))
    # control: these do not go through the prefix choice and are fine
    expect("Inexact trapped: -(2*K)", lambda: -(2 * K), D("-2000"))
    expect("Inexact trapped: (2*K).scale(m)", lambda: (2 * K).scale(m), D("2000"))
# (b) in-domain operands, caller has a narrow exponent range
with decimal.localcontext() as ctx:
    ctx.Emax, ctx.Emin = 20, -20
    expect("Emax=20: (1.5e24*K)+(1*m)", lambda: (D("1.5e24") * K) + (1 * m), D("1500000000000000000000000000.001"))
# (c) default context, large exponent
x = D("1E+1000000") * UNIT
expect("default ctx: -x", lambda: -x, D("-1E+1000000"))
expect("default ctx: x.scale(K)", lambda: x.scale(K), D("1E+1000000"))
expect("default ctx: x*(1*UNIT)", lambda: x * (1 * UNIT), D("1E+1000000"))
expect("default ctx: x-x", lambda: x - x, D("0"))
expect("default ctx: x.scale()", lambda: x.scale(), D("1E+1000000"))

if bad:
    print("VIOLATION of C14 ('addition, subtraction, multiplication, rescaling return exactly the decimal result'):")
    for b in bad:
        print("  -", b)
    sys.exit(1)
print("ok")
