"""C14 (adjacent) finding 5: `==` / `!=` between a Prefixed and a non-number raise instead of answering False / True,
which makes equality of *parameter objects* raise.

`Prefixed.__eq__/__ne__` call `to_prefixed(other)`, which raises RuntimeError for anything that is not a number
(None, `h.Literal`, a Prefix, any object) and decimal.InvalidOperation for a non-numeric str. They should return
NotImplemented. `Scalar = Union[Prefixed, Literal]` fields and `Optional[Scalar]` fields are everywhere in the primitives'
parameter classes, so comparing two `h.Mos.Params` / `h.R.Params` ... raises as soon as one side holds a Prefixed and
the other a Literal or None; `x in [None, x]` raises too.
Strictly the property only quantifies over pairs of prefixed numbers; this is reported as an adjacent defect.
"""
import os, sys; sys.path.insert(0, os.getcwd())
import hdl21 as h
from hdl21.prefix import n, µ

bad = []
def expect(label, f, want):
    try:
        got = f()
    except Exception as ex:
        bad.append(f"{label}: raised {type(ex).__name__}: {str(ex)[:80]!r} (expected {want})")
        return
    if got != want:
        bad.append(f"{label}: got {got!r}, expected {want}")

x = 5 * n
expect("(5*n) == None", lambda: x == None, False)
expect("(5*n) != None", lambda: x != None, True)
expect("(5*n) == 'w'", lambda: x == "w", False)
expect("(5*n) == h.Literal('w')", lambda: x == h.Literal("w"), False)
expect("h.Literal('w') == (5*n)", lambda: h.Literal("w") == x, False)
expect("(5*n) in [None, 5*n]", lambda: x in [None, x], True)
expect("Mos.Params(w=1*µ) == Mos.Params()", lambda: h.Mos.Params(w=1 * µ) == h.Mos.Params(), False)
expect("Mos.Params(w=1*µ) == Mos.Params(w='w')", lambda: h.Mos.Params(w=1 * µ) == h.Mos.Params(w="w"), False)
expect("Mos.Params(w=1*µ) != Mos.Params(w='w')", lambda: h.Mos.Params(w=1 * µ) != h.Mos.Params(w="w"), True)
expect("R.Params(r=1*µ) == R.Params(r='rval')", lambda: h.R.Params(r=1 * µ) == h.R.Params(r="rval"), False)

if bad:
    print("ADJACENT to C14 ('comparing ... never raises'): Prefixed ==/!= against non-numbers raises")
    for b in bad:
        print("  -", b)
    sys.exit(1)
print("ok")
