"""C14 finding 1: the comparison tolerance is not 1e-20, it is 1e-20 * 10**(prefix of the lesser operand).

Comparisons (`==, !=, <, <=, >, >=`) rescale both operands to the prefix *of the operand with the lesser value*
and round both mantissas to 20 decimal places *of that prefix*. For a lesser operand written with KILO..YOTTA
the tolerance becomes 1e-17 .. 1e+4, so numbers that differ by (much) more than 1e-20 - here by 1e-18, by 1
and by 1000 - compare equal; and the verdict depends on the prefix a number is *written* with, not on its value.
"""
import os, sys; sys.path.insert(0, os.getcwd())
from decimal import Decimal as D, Context, MAX_PREC, MAX_EMAX, MIN_EMIN
from hdl21.prefix import Prefixed, Prefix

EX = Context(prec=MAX_PREC, Emax=MAX_EMAX, Emin=MIN_EMIN)
val = lambda p: EX.scaleb(p.number, p.prefix.value)
P = lambda s, pre: Prefixed(number=D(s), prefix=pre)
TOL = D("1e-20")
bad = []

def check(a, b):
    va, vb = val(a), val(b)
    diff = abs(EX.subtract(va, vb))
    assert diff > TOL
    got = dict(lt=a < b, le=a <= b, eq=a == b, ne=a != b, ge=a >= b, gt=a > b)
    want = dict(lt=va < vb, le=va <= vb, eq=va == vb, ne=va != vb, ge=va >= vb, gt=va > vb)
    if got != want:
        wrong = {k: got[k] for k in got if got[k] != want[k]}
        bad.append(f"{a!r} vs {b!r}: exact values differ by {diff} (> 1e-20) but {wrong}")

# (1) same prefix, 22- and 25-significant-digit mantissas
check(P("1.000000000000000000001", Prefix.KILO), P("1", Prefix.KILO))      # differ by 1e-18
check(P("1.000000000000000000000001", Prefix.YOTTA), P("1", Prefix.YOTTA))  # differ by 1
check(P("-1.000000000000000000000001", Prefix.YOTTA), P("-1", Prefix.YOTTA))
# (2) the sum of one yottameter and a whole kilometer "is" a yottameter
s = P("1", Prefix.YOTTA) + P("1", Prefix.KILO)
check(s, P("1", Prefix.YOTTA))
# (3) mixed prefixes, small values: zero written with a large prefix swallows everything up to 1e-20 * 10**prefix
check(P("0", Prefix.KILO), P("1", Prefix.ATTO))       # differ by 1e-18
check(P("0", Prefix.YOTTA), P("1", Prefix.KILO))      # differ by 1000
check(P("-1", Prefix.KILO), P("-999.999999999999999999", Prefix.UNIT))  # differ by 1e-18

# (4) the verdict depends on how the *same value* is written (so == is not even well defined on values)
z1, z2, x = P("0", Prefix.KILO), P("0", Prefix.UNIT), P("1", Prefix.ATTO)
if (z1 == z2) and ((z1 == x) != (z2 == x)):
    bad.append(f"{z1!r} == {z2!r} (same value), yet ({z1!r} == {x!r}) is {z1 == x} while ({z2!r} == {x!r}) is {z2 == x}")
k1, k2, w = P("1", Prefix.KILO), P("1000", Prefix.UNIT), P("1000.000000000000000001", Prefix.UNIT)
if (k1 == k2) and ((k1 < w) != (k2 < w)):
    bad.append(f"{k1!r} == {k2!r} (same value), yet ({k1!r} < {w!r}) is {k1 < w} while ({k2!r} < {w!r}) is {k2 < w}")

if bad:
    print("VIOLATION of C14 ('agrees with the comparison of their exact values whenever they differ by more than 1e-20'):")
    for b in bad:
        print("  -", b)
    sys.exit(1)
print("ok")
