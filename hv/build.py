"""
DesignSpec -> real Hdl21 objects (procedural / class-style / inside generators).

Every call builds *fresh* objects (modules, bundles, signals, instances); only the leaf library
(ExternalModules and primitive classes) is shared, as a real design would share a PDK.
`uid` is appended to module, bundle and generator names so that many designs can live in one process.
"""



import itertools
from typing import Any, Dict, Optional

import hdl21 as h

from . import refsem

_leaflib: Dict[str, Any] = {}
_counter = itertools.count()


@h.paramclass
class TagParams:
    tag = h.Param(dtype=int, desc="unique leaf tag", default=0)


def leaflib() -> Dict[str, Any]:
    if not _leaflib:
        for name, d in refsem.LEAVES.items():
            if d["kind"] == "ext":
                _leaflib[name] = h.ExternalModule(
                    name=d.get("extname", name), domain=d.get("domain", "hvlib"),
                    port_list=[h.Port(name=p, width=w) for p, w in d["ports"]], paramtype=dict if d.get("dictparams") else TagParams)
        _leaflib["R"] = h.primitives.IdealResistor
        _leaflib["C"] = h.primitives.IdealCapacitor
        _leaflib["VCVS"] = h.primitives.VoltageControlledVoltageSource
        _leaflib["MOS"] = h.primitives.Mos
    return _leaflib


def leaf_call(leafname: str, tag: Optional[int]):
    lib = leaflib()
    tag = int(tag or 0)
    if leafname not in lib and leafname in refsem.LEAVES and refsem.LEAVES[leafname]["kind"] == "ext":
        d = refsem.LEAVES[leafname]
        lib[leafname] = h.ExternalModule(name=d.get("extname", leafname), domain=d.get("domain", "hvlib"),
                                         port_list=[h.Port(name=p, width=w) for p, w in d["ports"]], paramtype=dict if d.get("dictparams") else TagParams)
    if leafname == "R":
        return lib["R"](r=1000 + tag)
    if leafname == "C":
        return lib["C"](c=1000 + tag)
    if leafname == "VCVS":
        return lib["VCVS"](gain=1000 + tag)
    if leafname == "MOS":
        return lib["MOS"](nf=1 + tag)
    if refsem.LEAVES.get(leafname, {}).get("dictparams"):
        return lib[leafname]({"tag": tag, "w": 2})
    return lib[leafname](tag=tag)


def leaf_params(leafname: str, tag: Optional[int]) -> Dict[str, Any]:
    """What R2 must find on the exported instance (only the identifying parameter)."""
    tag = int(tag or 0)
    return {"R": {"r": 1000 + tag}, "C": {"c": 1000 + tag}, "VCVS": {"gain": 1000 + tag},
            "MOS": {"nf": 1 + tag}}.get(leafname, {"tag": tag})


_DIRS = {"in": h.PortDir.INPUT, "out": h.PortDir.OUTPUT, "inout": h.PortDir.INOUT, "none": h.PortDir.NONE}


class Built:
    def __init__(self):
        self.modules: Dict[str, h.Module] = {}
        self.bundles: Dict[str, h.Bundle] = {}
        self.roles: Dict[str, Dict[str, h.Role]] = {}
        self.gens: Dict[str, Any] = {}
        self.objs: Dict[tuple, Any] = {}  # (module, name) -> object, for later edits
        self.top: Optional[h.Module] = None
        self.uid = ""

    def name(self, spec_name: str) -> str:
        return f"{spec_name}{self.uid}"


def build_bundle(design: dict, bname: str, built: Built) -> h.Bundle:
    if bname in built.bundles:
        return built.bundles[bname]
    bd = design["bundles"][bname]
    if bd.get("builtin") == "Diff":
        built.bundles[bname] = h.Diff
        built.roles[bname] = {r: h.Diff.roles[r] for r in ("SOURCE", "SINK")}
        return h.Diff
    if bd.get("roles") and bd.get("roles_via") == "unnamed":
        # class-style definition whose roles come from `h.Roles(n)`: they have no names until the decorator has seen them
        rl = h.Roles(len(bd["roles"]))
        roles = dict(zip(bd["roles"], rl))
        body = dict(roles)
        for s in bd["sigs"]:
            name, width, kind = s[0], s[1], s[2]
            if isinstance(kind, list):
                body[name] = h.Signal(width=width, src=roles.get(kind[1]), dest=roles.get(kind[2]))
            else:
                body[name] = {"sig": h.Signal, "port": h.Port, "in": h.Input, "out": h.Output, "inout": h.Inout}[kind](width=width)
            body[name] = _leaf_via(bd, body[name])
        for sub in bd["subs"]:
            subdef = build_bundle(design, sub[1], built)
            subrole = built.roles[sub[1]].get(sub[3]) if len(sub) > 3 and sub[3] else None
            body[sub[0]] = h.BundleInstance(of=subdef, flipped=bool(sub[2]), role=subrole)
        b = h.bundle(type(built.name(bname), (), body))
        built.roles[bname] = roles
        built.bundles[bname] = b
        return b
    b = h.Bundle(name=built.name(bname))
    roles = {}
    if bd.get("roles") and bd.get("roles_via") == "unnamed-procedural":
        # procedural definition whose roles come from `h.Roles(n)` and stay unnamed, handed over as a ready-made RoleSet
        rl = h.Roles(len(bd["roles"]))
        roles = dict(zip(bd["roles"], rl))
        b.roles = h.RoleSet.from_dict(dict(roles))
    elif bd.get("roles"):
        b.roles = h.RoleSet.from_names(list(bd["roles"]))
        roles = {r: b.roles[r] for r in bd["roles"]}
    built.roles[bname] = roles
    for s in bd["sigs"]:
        name, width, kind = s[0], s[1], s[2]
        if kind == "sig":
            sig = h.Signal(width=width)
        elif kind == "port":
            sig = h.Port(width=width)
        elif kind in ("in", "out", "inout"):
            sig = {"in": h.Input, "out": h.Output, "inout": h.Inout}[kind](width=width)
        else:  # ["role", src, dest]
            sig = h.Signal(width=width, src=roles.get(kind[1]), dest=roles.get(kind[2]))
        b.add(_leaf_via(bd, sig), name=name)
    for sub in bd["subs"]:
        subdef = build_bundle(design, sub[1], built)
        subrole = built.roles[sub[1]].get(sub[3]) if len(sub) > 3 and sub[3] else None
        b.add(h.BundleInstance(of=subdef, flipped=bool(sub[2]), role=subrole), name=sub[0])
    built.bundles[bname] = b
    return b


def _leaf_via(bd: dict, sig):
    """`leaves_via`: the way the designer made the bundle's leaves - by a plain call, as one of `n * h.Signal(...)`, or by copy()."""
    via = bd.get("leaves_via")
    if via == "mult":
        return (2 * sig)[1]
    if via == "copy":
        import copy as _copy

        return _copy.copy(sig)
    return sig


class ModBuilder:
    """Builds one module of the spec.  Kept as a class so that C04/C07/C08 can drive it step by step."""

    def __init__(self, design: dict, mspec: dict, built: Built):
        self.design, self.ms, self.built = design, mspec, built
        self.attrs: Dict[str, Any] = {}  # ordered: name -> hdl object
        self.ncs: Dict[Any, h.NoConn] = {}
        self.insts: Dict[str, Any] = {}

    # expressions ---------------------------------------------------------------------------------
    def expr(self, e):
        k = e[0]
        if k == "sig":
            return self.attrs[e[1]]
        if k == "slice":
            idx = e[2]
            parent = self.expr(e[1])
            return parent[idx] if isinstance(idx, int) else parent[slice(*idx)]
        if k == "cat":
            return h.Concat(*[self.expr(p) for p in e[1:]])
        if k == "pref":
            return getattr(self.insts[e[1]], e[2])
        if k == "nc":
            key = e[1]
            if key not in self.ncs:
                self.ncs[key] = h.NoConn(name=e[2]) if len(e) > 2 and e[2] else h.NoConn()
            return self.ncs[key]
        if k == "bun":
            return self.attrs[e[1]]
        if k == "bref":
            obj = self.attrs[e[1]]
            for seg in e[2]:
                obj = getattr(obj, seg)
            return obj
        if k == "anon":
            items = list(e[1].items())
            if self.design.get("anon_order") == "reversed":  # (the order in which members are written carries no meaning)
                items.reverse()
            members = {name: self.expr(sub) for name, sub in items}
            if e[2:] and e[2] == "dict":
                return members  # dict shorthand, converted by Instance.connect
            return h.bundlize(**members)
        if k == "fsig":  # a signal owned by another module (ill-formed by construction)
            return self.built.objs[(e[1], e[2])]
        if k == "orphan":  # a signal owned by nobody
            return h.Signal(width=e[1])
        raise ValueError(e)

    def target(self, of):
        if of[0] == "leaf":
            return None
        return self.built.modules[of[1]]

    def make_inst(self, i: dict):
        of = i["of"]
        tgt = leaf_call(of[1], i.get("tag")) if of[0] == "leaf" else self.built.modules[of[1]]
        kind = i.get("kind", "single")
        if kind == "single":
            return h.Instance(of=tgt)
        if kind == "array":
            if i.get("via") == "mult":  # `n * Instance(...)`: the scalar Instance is thrown away
                return i["n"] * h.Instance(of=tgt)
            return h.InstanceArray(of=tgt, n=i["n"])
        if kind == "pair":
            return h.Pair(tgt)
        raise ValueError(kind)

    def declare(self):
        ms, built = self.ms, self.built
        for p in ms["ports"]:
            self.attrs[p[0]] = h.Signal(width=p[1], vis=h.signal.Visibility.PORT, direction=_DIRS[p[2] if len(p) > 2 else "none"])
        for bp in ms.get("bports", []):
            bdef = build_bundle(self.design, bp[1], built)
            role = built.roles[bp[1]].get(bp[3]) if len(bp) > 3 and bp[3] else None
            flip = bool(bp[2]) if len(bp) > 2 else False
            # port-ness spelt as a boolean or as a `Visibility`, in the constructor or by attribute afterwards
            vis_via = ms.get("vis_via", "ctor-bool")
            pv = h.signal.Visibility.PORT if vis_via.endswith("vis") else True
            pkw = {"port": pv} if vis_via.startswith("ctor") else {}
            if len(bp) > 4 and bp[4] == "fn":
                # flip through the `h.flipped()` function instead of the constructor flag
                bi = h.flipped(h.BundleInstance(of=bdef, flipped=not flip, role=role, **pkw))
            else:
                bi = h.BundleInstance(of=bdef, flipped=flip, role=role, **pkw)
            if not pkw:
                bi.port = pv
            self.attrs[bp[0]] = bi
        for s in ms["sigs"]:
            self.attrs[s[0]] = h.Signal(width=s[1])
        for b in ms.get("buns", []):
            how = b[2] if len(b) > 2 else None
            if how and how.startswith("copyof:"):  # created with `n * B()` / copy()
                import copy as _copy

                self.attrs[b[0]] = _copy.copy(self.attrs[how.split(":")[1]])
            elif how and how.startswith("flippedof:"):  # created with h.flipped(existing instance)
                self.attrs[b[0]] = h.flipped(self.attrs[how.split(":")[1]])
            elif how == "mult":  # one element of `2 * B()`
                self.attrs[b[0]] = (2 * h.BundleInstance(of=build_bundle(self.design, b[1], built)))[1]
            else:
                self.attrs[b[0]] = h.BundleInstance(of=build_bundle(self.design, b[1], built))
            vis_via = ms.get("vis_via", "ctor-bool")
            if vis_via == "ctor-vis" and not how:
                self.attrs[b[0]] = h.BundleInstance(of=build_bundle(self.design, b[1], built), port=h.signal.Visibility.INTERNAL)
            elif vis_via == "attr-vis":
                self.attrs[b[0]].port = h.signal.Visibility.INTERNAL
            elif vis_via == "attr-bool":
                self.attrs[b[0]].port = False
        for i in ms["insts"]:
            inst = self.make_inst(i)
            self.insts[i["name"]] = inst
            self.attrs[i["name"]] = inst

    def connect_all(self):
        rewire = self.design.get("rewire")
        names = [i["name"] for i in self.ms["insts"]]
        # connections the designer makes first and replaces afterwards (they are not part of the design's meaning)
        for iname, port, e in self.ms.get("pre_conns", []):
            self.insts[iname].connect(port, self.expr(e))
        for k, i in enumerate(self.ms["insts"]):
            inst = self.insts[i["name"]]
            for port, e in i["conns"].items():
                self._site = getattr(self, "_site", 0) + 1
                if rewire and len(names) > 1 and (rewire != "pref-one" or (e[0] == "sig" and self._site % 3 == 1)):
                    # the designer first ties the port to something else (a reference to a neighbour's port, a throw-away signal),
                    # then to what the design says: only the last connection counts
                    other = self.insts[names[(k + 1) % len(names)]]
                    oports = list(self._ports_of(other))
                    # preferably a neighbour's port that has no connection of its own (it lives in an implicit, reference-only net)
                    implicit = [(j["name"], q) for j in self.ms["insts"] if j is not i and j.get("kind", "single") == "single"
                                for q in self._ports_of(self.insts[j["name"]]) if q not in j["conns"]]
                    if rewire in ("pref", "pref-one") and implicit:
                        inst.connect(port, getattr(self.insts[implicit[0][0]], implicit[0][1]))
                    elif rewire in ("pref", "pref-one") and oports:
                        inst.connect(port, getattr(other, oports[0]))
                    else:
                        inst.connect(port, h.Signal(width=3))
                inst.connect(port, self.expr(e))

    @staticmethod
    def _ports_of(inst):
        of = getattr(inst, "of", None)
        ports = getattr(of, "ports", None)
        if ports is None and hasattr(of, "module"):
            ports = {p.name: p for p in of.module.port_list}
        if ports is None and hasattr(of, "prim"):
            ports = {p.name: p for p in of.prim.port_list}
        return list(ports or [])

    def finish(self) -> h.Module:
        ms, built = self.ms, self.built
        name = built.name(ms["name"]) if ms["name"] else None
        style = ms.get("style", "proc")
        order = ms.get("order")  # optional explicit declaration order
        items = list(self.attrs.items())
        if order:
            items.sort(key=lambda kv: order.index(kv[0]) if kv[0] in order else len(order))
        if style == "class":
            cls = type(name or "Anon", (object,), dict(items))
            m = h.module(cls)
            if name is None:
                m.name = None
        elif style == "gen":
            def body(params: h.HasNoParams) -> h.Module:
                mm = h.Module()
                for k, v in items:
                    mm.add(v, name=k)
                return mm

            body.__name__ = name or "AnonGen"
            gen = h.generator(body)
            built.gens[ms["name"]] = gen
            m = gen()
            if name is None:
                m.name = None
        else:
            m = h.Module(name=name)
            for k, v in items:
                m.add(v, name=k)
        for k, v in self.attrs.items():
            built.objs[(ms["name"], k)] = v
        built.modules[ms["name"]] = m
        return m


def build(design: dict, uid: Optional[str] = None, reuse: Optional[Built] = None) -> Built:
    """Build every module of the design (children first).  Returns the Built record; .top is the top module.
    reuse: an earlier Built whose Bundle DEFINITIONS (and their roles) are used again instead of being defined anew."""
    built = Built()
    built.uid = uid if uid is not None else f"_{next(_counter)}"
    if reuse is not None:
        built.bundles.update(reuse.bundles)
        built.roles.update(reuse.roles)
    for ms in design["modules"]:
        mb = ModBuilder(design, ms, built)
        mb.declare()
        mb.connect_all()
        mb.finish()
    built.top = built.modules[design["top"]]
    return built
