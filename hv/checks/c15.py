"""
C15 -- PDK compilation swaps device targets and nothing else.

M-walk: a contract with snapshot on the real `HierarchyWalker.visit_instance` (class attribute, inherited by every PDK
walker): only `of` may change, and only from a PrimitiveCall of a technology-mapped primitive; name and the identity of
every connection object are kept.  Boundary oracles: package before/after compile equal modulo instance targets and
parameters; the PDK's own tables decide whether the selected device is right; R4 well-formedness + spice / spectre
netlisting of the compiled package; idempotence; equal parameters => equal device call; the three forms of
`hdl21.pdk.compile`; unsatisfiable requests must raise a descriptive error.  Every entry of every device table and
(quick: a seeded sample of, thorough: all of) the ~3100 logic cells are driven.
"""

import importlib
import io
import itertools

from .. import pkgread
from ..runner import jhash

LEVEL = "exploration"
RULE = ("cases = (PDK in sample / Sky130 / GF180 / ASAP7) x (every entry of every device table, selected by model name) x (sizes "
        "given / defaulted / only w / only l, multiplier given or not), placed at depth 1 and 3 of a hierarchy with a shared "
        "sub-module beside unmapped instances, compiled once and twice; plus every (type, family, threshold) triple "
        "(2 x 6 x 7) per PDK; plus the forms of hdl21.pdk.compile; plus logic cells of the Sky130 / GF180 libraries "
        "instantiated with all ports connected and netlisted (seeded sample in quick, all in thorough). distinct = case key; "
        "non-trivial = a device was compiled")
ASSUMPTIONS = [
    "the PDK's own tables (keys and default-size dictionaries) are the selection / sizing oracle",
    "a 'descriptive error' is a RuntimeError or ValueError with a non-empty message; StopIteration, IndexError, KeyError, "
    "AttributeError, UnboundLocalError are not",
    "the generic primitive is chosen to match the terminal count of the requested device where the library offers one "
    "(PhysicalResistor vs ThreeTerminalResistor); where it offers none (5-terminal MOS, 4-terminal BJT) the only available "
    "generic primitive is used",
]
REQUIRED_COUNTERS = ["M-walk.visit_instance", "compiled.devices", "triples.checked", "cells.checked", "pdk-compile-forms.checked"]
MIN_EVALS = 400
MIN_NONTRIVIAL = 250

_uid = itertools.count()
_walk = {"rec": None, "attached": False, "label": None}


def attach_walk(rec):
    import hdl21 as h

    _walk["rec"] = rec
    if _walk["attached"]:
        return
    orig = h.HierarchyWalker.visit_instance

    def visit_instance(self, inst):
        r = _walk["rec"]
        before_of = inst.of
        name = inst.name
        conn_ids = {k: id(v) for k, v in inst.conns.items()}
        out = orig(self, inst)
        if r is not None:
            r.count("M-walk.visit_instance")
            label = _walk["label"]
            if inst.name != name:
                r.violation("walk-renames-instance", f"[{label}] compile renamed instance {name} -> {inst.name}", case=_walk.get("case"))
            if {k: id(v) for k, v in inst.conns.items()} != conn_ids:
                r.violation("walk-touches-connections", f"[{label}] compile changed the connections of instance {name}", case=_walk.get("case"))
            if inst.of is not before_of:
                r.count("M-walk.of-changed")
                if not isinstance(before_of, h.PrimitiveCall):
                    r.violation("walk-retargets-non-primitive", f"[{label}] compile changed the target of instance {name}, which was {type(before_of).__name__}",
                                case=_walk.get("case"))
        return out

    h.HierarchyWalker.visit_instance = visit_instance
    _walk["attached"] = True


# ------------------------------------------------------------------------------------------------


def pdks():
    """{name: adapter}"""
    import hdl21 as h
    from hdl21.primitives import (Mos, PhysicalResistor, ThreeTerminalResistor, PhysicalCapacitor, ThreeTerminalCapacitor, Diode, Bipolar)

    out = {}
    sk = importlib.import_module("sky130_hdl21")
    skd = importlib.import_module("sky130_hdl21.primitives.prim_dicts")
    gf = importlib.import_module("gf180_hdl21")
    gfd = importlib.import_module("gf180_hdl21.primitives.prim_dicts")
    a7 = importlib.import_module("asap7_hdl21")
    a7p = importlib.import_module("asap7_hdl21.pdk")
    sp = importlib.import_module("hdl21.pdk.sample_pdk")
    spp = importlib.import_module("hdl21.pdk.sample_pdk.pdk")

    def two_or_three(mod, two, three):
        return two if len(mod.port_list) == 2 else three

    def tables(d, mos_keyed):
        t = []
        for key, mod in d.xtors.items():
            t.append(("mos", key[0], key, mod, Mos))
        for key, mod in d.ress.items():
            t.append(("res", key, key, mod, two_or_three(mod, PhysicalResistor, ThreeTerminalResistor)))
        for key, mod in d.caps.items():
            t.append(("cap", key, key, mod, two_or_three(mod, PhysicalCapacitor, ThreeTerminalCapacitor)))
        for key, mod in d.diodes.items():
            t.append(("diode", key, key, mod, Diode))
        for key, mod in d.bjts.items():
            t.append(("bjt", key, key, mod, Bipolar))
        return t

    def sky_defaults(modname):
        for tbl in (skd.default_xtor_size, skd.default_gen_res_size, skd.default_cap_sizes):
            if modname in tbl:
                return tbl[modname]
        return None

    def gf_defaults(modname):
        for tbl in (gfd.default_xtor_size, gfd.default_res_size, gfd.default_diode_size):
            if modname in tbl:
                return tbl[modname]
        if any(m.name == modname for m in gfd.caps.values()):
            # capacitors have no size table: the PDK's defaults are those of the device's parameter class
            pd = importlib.import_module("gf180_hdl21.pdk_data").GF180CapParams.default_instance()
            return (pd.c_width, pd.c_length)
        return None

    out["sky130"] = {"module": sk, "compile": sk.compile, "table": tables(skd, True), "xtors": skd.xtors, "defaults": sky_defaults,
                     "regname": "sky130_hdl21.pdk_logic", "regmod": importlib.import_module("sky130_hdl21.pdk_logic")}
    out["gf180"] = {"module": gf, "compile": gf.compile, "table": tables(gfd, True), "xtors": gfd.xtors, "defaults": gf_defaults,
                    "regname": "gf180_hdl21.pdk_logic", "regmod": importlib.import_module("gf180_hdl21.pdk_logic")}
    a7tab = [("mos", None, key, mod, Mos) for key, mod in a7p._mos_modules.items() if not isinstance(key[1], str)]
    # ... and every ASAP7 device by its model name (the slvt / sram flavours have no (type, threshold) pair of the generic Mos)
    a7tab += [("mos", mod.name, key, mod, Mos) for key, mod in a7p._mos_modules.items()]
    out["asap7"] = {"module": a7, "compile": a7.compile, "table": a7tab, "xtors": {k: v for k, v in a7p._mos_modules.items()},
                    "defaults": lambda n: None, "regname": "asap7_hdl21.pdk", "regmod": a7p}
    sptab = [("mos", None, (h.MosType.NMOS,), spp.Nmos, Mos), ("mos", None, (h.MosType.PMOS,), spp.Pmos, Mos)]
    # ... and its four devices by model name
    sptab += [("mos", "nmos", (h.MosType.NMOS,), spp.Nmos, Mos), ("mos", "pmos", (h.MosType.PMOS,), spp.Pmos, Mos),
              ("mos", "nmos_model", (h.MosType.NMOS, "model"), spp.NmosModel, Mos), ("mos", "pmos_model", (h.MosType.PMOS, "model"), spp.PmosModel, Mos)]
    from hdl21.prefix import µ

    out["sample"] = {"module": sp, "compile": sp.compile, "table": sptab, "xtors": {(h.MosType.NMOS,): spp.Nmos, (h.MosType.PMOS,): spp.Pmos},
                     "defaults": lambda n: (1 * µ, 1 * µ), "regname": "hdl21.pdk.sample_pdk.pdk", "regmod": spp}
    return out


def make_design(prim, params: dict, label: str, variant: dict = None):
    """Top -> Mid -> Leafmod(prim), Leafmod shared; unmapped instances beside.  Returns (top, leafmod)."""
    import hdl21 as h

    n = next(_uid)
    call = prim(**params)
    leaf = h.Module(name=f"PdkLeaf{n}")
    conns = {p: leaf.add(h.Port(width=port.width), name=p) for p, port in call.ports.items()}
    leaf.add(h.Instance(of=call)(**conns), name="x")
    leaf.add(h.Instance(of=prim(**params))(**conns), name="y")  # equal parameters, separately constructed call
    leaf.add(h.Instance(of=call)(**conns), name="x2")  # the SAME call object as `x`
    leaf.add(h.InstanceArray(call, 2)(**conns), name="xa")  # ... and an array of it
    if variant:  # the same device and size, but other fingers / multiplier
        leaf.add(h.Instance(of=prim(**{**params, **variant}))(**conns), name="z")
    leaf.add(h.Instance(of=h.R(r=11))(p=list(conns.values())[0], n=list(conns.values())[-1]), name="rkeep")
    mid = h.Module(name=f"PdkMid{n}")
    sigs = {p: mid.add(h.Signal(width=port.width), name=f"s_{p}") for p, port in call.ports.items()}
    mid.add(h.Instance(of=leaf)(**sigs), name="l0")
    mid.add(h.Instance(of=leaf)(**sigs), name="l1")
    mid.add(h.Instance(of=h.C(c=3))(p=list(sigs.values())[0], n=list(sigs.values())[-1]), name="ckeep")
    top = h.Module(name=f"PdkTop{n}")
    ts = {p: top.add(h.Signal(width=port.width), name=f"t_{p}") for p, port in call.ports.items()}
    top.add(h.Instance(of=leaf)(**ts), name="direct")
    top.add(h.Instance(of=mid)(), name="m")
    return top, leaf


def strip_targets(pkg):
    """Package with instance targets and parameters blanked: what compile must leave untouched."""
    import vlsir.circuit_pb2 as vckt

    p = vckt.Package()
    p.CopyFrom(pkg)
    del p.ext_modules[:]
    for m in p.modules:
        for i in m.instances:
            if i.module.WhichOneof("to") == "external":
                i.module.external.domain = ""
                i.module.external.name = ""
                del i.parameters[:]
    return p.SerializeToString(deterministic=True)


def size_fields(params):
    get = (lambda k: params.get(k)) if isinstance(params, dict) else (lambda k: getattr(params, k, None))
    has = (lambda k: k in params) if isinstance(params, dict) else (lambda k: hasattr(params, k))
    w = next((k for k in ("w", "r_width", "c_width") if has(k)), None)
    l = next((k for k in ("l", "r_length", "c_length") if has(k)), None)
    m = [k for k in ("mult", "m", "mf", "vm") if has(k)]
    return w, l, m, get


def same_value(a, b) -> bool:
    try:
        return bool(a == b)
    except Exception:
        return a is b


def is_descriptive(e: BaseException) -> bool:
    return isinstance(e, (RuntimeError, ValueError)) and bool(str(e).strip())


def judge_device(rec, pname, P, entry, sizes):
    import hdl21 as h
    from hdl21.prefix import µ, n as nano

    kind, model, key, mod, prim = entry
    params = {}
    if model is not None:
        params["model"] = model
    else:  # selection by the key's enumerated values
        params["tp"] = key[0]
        if pname == "asap7":
            params["vth"] = key[1]
    given_w = given_l = given_m = None
    if sizes in ("both", "w-only", "frac-mult"):
        given_w = params["w"] = 777 * nano
    if sizes in ("both", "l-only", "frac-mult"):
        given_l = params["l"] = 333 * nano
    if sizes == "both" and kind in ("mos", "cap", "bjt"):
        given_m = 3
        params["mult"] = "3" if kind == "cap" else 3  # (the generic capacitor declares its multiplier as a string)
    if sizes == "frac-mult":
        # a multiplier that is not a whole number: delivered as given, or refused descriptively - never rounded silently
        given_m = 2.5
        params["mult"] = "2.5" if kind == "cap" else 2.5
    label = f"{pname}:{kind}:{model or key}:{sizes}"
    case = {"kind": "device", "pdk": pname, "device_kind": kind, "model": str(model or key), "sizes": sizes}
    rec.case(key=label, nontrivial=True, sample=case if rec.evaluations % 150 == 9 else None)
    _walk["label"], _walk["case"] = label, case
    variant = {"nf": 2, "mult": 5} if kind == "mos" else None
    try:
        top, leaf = make_design(prim, params, label, variant)
        before = h.to_proto(top)
    except Exception as e:
        rec.count("device.uncompiled-design-rejected")
        rec.hist("uncompiled_rejections", f"{pname}:{kind}:{type(e).__name__}")
        return
    try:
        try:
            P["compile"](top)
        except Exception as e0:
            if not (variant and is_descriptive(e0) and sizes != "frac-mult"):
                raise
            # the sibling instance asking for other fingers / multiplier may be a request the device cannot satisfy (a device with no
            # finger-count parameter): a descriptive refusal is then the stated outcome - provided the design compiles without it,
            # and the device indeed has no such parameter
            top, leaf = make_design(prim, params, label, {"mult": 5})
            before = h.to_proto(top)
            P["compile"](top)
            xp = leaf.instances["x"].of.params
            if (("nf" in xp) if isinstance(xp, dict) else hasattr(xp, "nf")):
                raise e0
            rec.count("compile.fingers-refused-by-device-without-fingers")
            variant = {"mult": 5}
    except Exception as e:
        if not is_descriptive(e):
            rec.violation(f"compile-raises-undescriptive:{type(e).__name__}", f"[{label}] compile raised {type(e).__name__}: {str(e)[:100]!r}",
                          case=case, pdk=pname, device_kind=kind)
        elif sizes == "frac-mult":
            rec.count("compile.fractional-multiplier-refused")  # a descriptive refusal is one of the two accepted outcomes
        else:
            rec.violation("table-entry-not-compilable", f"[{label}] a device listed in the PDK's own table cannot be compiled: {type(e).__name__}: {str(e)[:120]}",
                          case=case, pdk=pname, device_kind=kind)
        return
    rec.count("compiled.devices")
    x, y = leaf.instances["x"], leaf.instances["y"]
    # selection
    if not isinstance(x.of, h.ExternalModuleCall):
        rec.violation("mapped-primitive-not-replaced", f"[{label}] instance of {prim.name} was not replaced by a PDK device", case=case, pdk=pname)
        return
    import re as _re

    if not _re.match(r"^[A-Za-z_][A-Za-z0-9_]*$", x.of.module.name or ""):
        rec.violation("device-name-malformed", f"[{label}] the selected device is called {x.of.module.name!r}, which is not a device name any netlist format can carry",
                      case=case, pdk=pname, device_kind=kind)
    dparams = x.of.params
    dnames = list(dparams) if isinstance(dparams, dict) else list(getattr(type(dparams), "__params__", {}))
    leaked = [k for k in ("tp", "family", "vth", "model") if k in dnames and (dparams.get(k) if isinstance(dparams, dict) else getattr(dparams, k, None)) is not None]
    if leaked:
        rec.violation("selector-passed-to-device", f"[{label}] the compiled device {x.of.module.name} is given the generic primitive's selection parameters "
                                                   f"{leaked} as device parameters (they end up in the netlist)", case=case, pdk=pname, device_kind=kind)
    if x.of.module is not mod:
        rec.violation("wrong-device-selected", f"[{label}] compile selected {x.of.module.name}, the table entry {model or key} is {mod.name}",
                      case=case, pdk=pname, device_kind=kind)
    # every instance of the mapped primitive is replaced - also those sharing one call object with another instance, and arrays
    for nm in ("x2", "xa_0", "xa_1", "xa"):
        holder = leaf.instances.get(nm) or leaf.instarrays.get(nm)
        if holder is not None and not (isinstance(holder.of, h.ExternalModuleCall) and holder.of.module is x.of.module):
            rec.violation("mapped-primitive-not-replaced", f"[{label}] instance '{nm}', which shares its call object with 'x', was left as "
                                                           f"{getattr(holder.of, 'name', None) or type(holder.of).__name__}", case=case, pdk=pname)
    # equal parameters give the same device call
    if not same_value(x.of, y.of):
        rec.violation("equal-params-different-calls", f"[{label}] two instances with equal primitive parameters got different device calls", case=case, pdk=pname)
    # same device and size, other fingers / multiplier: must not be served from a cache entry of x
    if variant and "z" in leaf.instances and isinstance(leaf.instances["z"].of, h.ExternalModuleCall):
        zp = leaf.instances["z"].of.params
        zget = (lambda k: zp.get(k)) if isinstance(zp, dict) else (lambda k: getattr(zp, k, None))
        zhas = (lambda k: k in zp) if isinstance(zp, dict) else (lambda k: hasattr(zp, k))
        if zhas("nf") and not same_value(zget("nf"), 2):
            rec.violation("device-fingers-wrong", f"[{label}] an instance requesting nf=2 got device parameter nf={zget('nf')}", case=case, pdk=pname)
        if "nf" in variant and not zhas("nf") and not any(zhas(k) for k in ("nfin", "nfing", "fingers", "nfinger")):
            rec.violation("device-fingers-dropped", f"[{label}] an instance requesting nf=2 was compiled to {leaf.instances['z'].of.module.name}, whose parameters "
                                                    f"{sorted(zp) if isinstance(zp, dict) else sorted(getattr(type(zp), '__params__', {}))} hold no finger count: two fingers "
                                                    f"became one silently", case=case, pdk=pname, device_kind=kind)
        zm = [k for k in ("mult", "m") if zhas(k)]
        if zm and not any(same_value(zget(k), 5) for k in zm):
            rec.violation("device-multiplier-wrong", f"[{label}] an instance requesting mult=5 got {[(k, str(zget(k))) for k in zm]}", case=case, pdk=pname,
                          device_kind=kind)
    # unmapped instances untouched
    if not isinstance(leaf.instances["rkeep"].of, h.PrimitiveCall) or leaf.instances["rkeep"].of.prim is not h.primitives.IdealResistor:
        rec.violation("unmapped-instance-touched", f"[{label}] an ideal resistor instance was changed by compile", case=case, pdk=pname)
    # sizes
    wk, lk, mks, get = size_fields(x.of.params)
    dfl = P["defaults"](x.of.module.name)
    if wk is not None:
        want = given_w if given_w is not None else (dfl[0] if dfl else None)
        if want is not None and not same_value(get(wk), want):
            rec.violation("device-size-wrong", f"[{label}] {x.of.module.name}.{wk} = {get(wk)}, expected {'given' if given_w is not None else 'PDK default'} {want}",
                          case=case, pdk=pname, field="w", given=given_w is not None, device_kind=kind)
    if lk is not None and "PrecRes" not in type(x.of.params).__name__:
        want = given_l if given_l is not None else (dfl[1] if dfl else None)
        if want is not None and not same_value(get(lk), want):
            rec.violation("device-size-wrong", f"[{label}] {x.of.module.name}.{lk} = {get(lk)}, expected {'given' if given_l is not None else 'PDK default'} {want}",
                          case=case, pdk=pname, field="l", given=given_l is not None, device_kind=kind)
    if given_m is not None and mks and pname != "asap7":
        if not any(same_value(get(k), given_m) for k in mks):
            rec.violation("device-multiplier-wrong", f"[{label}] multiplier given as {given_m}, device parameters {[(k, str(get(k))) for k in mks]}",
                          case=case, pdk=pname, device_kind=kind)
    # hierarchy, names, connections untouched; compiled design valid, exports, netlists; idempotent
    try:
        after = h.to_proto(top)
    except Exception as e:
        rec.violation(f"compiled-design-unexportable:{type(e).__name__}", f"[{label}] the compiled design cannot be exported: {str(e)[:140]}", case=case, pdk=pname)
        return
    if strip_targets(before) != strip_targets(after):
        from ..monitors.pkgmon import first_diff
        import vlsir.circuit_pb2 as vckt

        a, b = vckt.Package(), vckt.Package()
        a.ParseFromString(strip_targets(before))
        b.ParseFromString(strip_targets(after))
        rec.violation("compile-changes-more-than-targets", f"[{label}] hierarchy / names / connections changed: {first_diff(a, b)}", case=case, pdk=pname)
    for cls, msg in pkgread.wellformed(after)[:3]:
        rec.violation(f"compiled-pkg-{cls}", f"[{label}] {msg}", case=case, pdk=pname, device_kind=kind, nports=len(mod.port_list))
    if not pkgread.wellformed(after):
        for fmt in ("spice", "spectre"):
            try:
                h.netlist(after, io.StringIO(), fmt=fmt)
                rec.count(f"compiled.{fmt}-netlisted")
            except Exception as e:
                rec.violation(f"compiled-{fmt}-netlist-fails", f"[{label}] {type(e).__name__}: {str(e)[:140]}", case=case, pdk=pname, device_kind=kind)
    try:
        P["compile"](top)
        again = h.to_proto(top)
        if again.SerializeToString(deterministic=True) != after.SerializeToString(deterministic=True):
            rec.violation("compile-not-idempotent", f"[{label}] compiling twice changed the package", case=case, pdk=pname)
    except Exception as e:
        rec.violation(f"second-compile-raises:{type(e).__name__}", f"[{label}] {str(e)[:120]}", case=case, pdk=pname)
    _walk["label"] = _walk["case"] = None


def judge_triples(rec, pname, P):
    """Selection by every (type, family, threshold) triple: the chosen table key must contain the triple, or a descriptive error."""
    import hdl21 as h
    from hdl21.primitives import MosType, MosFamily, MosVth, Mos

    for tp, fam, vth in itertools.product(MosType, MosFamily, MosVth):
        label = f"{pname}:triple:{tp.name}/{fam.name}/{vth.name}"
        case = {"kind": "triple", "pdk": pname, "tp": tp.name, "family": fam.name, "vth": vth.name}
        rec.case(key=label, nontrivial=True, sample=case if rec.evaluations % 200 == 11 else None)
        rec.count("triples.checked")
        _walk["label"], _walk["case"] = label, case
        # which table keys satisfy the request (the PDK's own table is the oracle)
        want = []
        for key in P["xtors"]:
            if pname == "asap7":
                ok = key == (tp, vth)
            elif pname == "sample":
                ok = key == (tp,)
            else:
                # a key "contains the requested triple" if every requested value of a KIND the key carries is in the key
                kvals = [k for k in key if not isinstance(k, str)]
                kinds = {type(k) for k in kvals}
                ok = all((r in kvals) for r in (tp, fam, vth) if type(r) in kinds)
            if ok:
                want.append(key)
        try:
            top, leaf = make_design(Mos, {"tp": tp, "family": fam, "vth": vth}, label)
            P["compile"](top)
        except Exception as e:
            if not is_descriptive(e):
                rec.violation(f"selection-raises-undescriptive:{type(e).__name__}",
                              f"[{label}] selecting a MOS by type/family/threshold raised {type(e).__name__} ({str(e)[:60]!r}); "
                              f"{'matching table entries: ' + str(want[:2]) if want else 'no table entry matches, a descriptive error is required'}",
                              case=case, pdk=pname, satisfiable=bool(want))
            elif want and pname != "gf180":
                rec.violation("satisfiable-selection-rejected", f"[{label}] raised {str(e)[:80]} although the table holds {want[:2]}", case=case, pdk=pname)
            else:
                rec.count("triples.rejected-descriptively")
            continue
        got = leaf.instances["x"].of
        if not isinstance(got, h.ExternalModuleCall):
            rec.violation("mapped-primitive-not-replaced", f"[{label}] not replaced", case=case, pdk=pname)
            continue
        keys = [k for k, v in P["xtors"].items() if v is got.module]
        rec.count("triples.selected")
        if not any(k in want for k in keys):
            rec.violation("selected-device-does-not-match-request", f"[{label}] selected {got.module.name} (table key {keys}), which does not carry the "
                                                                    f"requested type/family/threshold", case=case, pdk=pname)
    _walk["label"] = _walk["case"] = None


def judge_triple_then_model(rec, pname, P):
    """Within ONE compile: a Mos selected by type/family/threshold alone comes first, then Mos instances selected by model name whose
    table keys carry the same triple.  The by-model instances must get exactly their model's device."""
    import hdl21 as h
    from hdl21.primitives import Mos, MosType, MosFamily, MosVth

    mos = [e for e in P["table"] if e[0] == "mos" and e[1] is not None and len(e[3].port_list) == 4]
    groups = {}
    for e in mos:
        kv = {type(k): k for k in e[2] if not isinstance(k, str)}
        trip = (kv.get(MosType), kv.get(MosFamily), kv.get(MosVth))
        groups.setdefault(trip, []).append(e)
    groups[(None, None, None)] = mos  # a Mos with no parameters at all first, then every model of the table
    for trip, entries in groups.items():
        label = f"{pname}:triple-then-model:{[getattr(t, 'name', None) for t in trip]}"
        case = {"kind": "triple-then-model", "pdk": pname, "triple": [getattr(t, "name", None) for t in trip]}
        rec.case(key=label, nontrivial=True, sample=case if rec.evaluations % 40 == 3 else None)
        rec.count("triple-then-model.checked")
        _walk["label"], _walk["case"] = label, case
        for order in ("triple-first", "model-first"):
            n = next(_uid)
            m = h.Module(name=f"TtM{n}")
            ports = {p: m.add(h.Port(), name=p) for p in ("d", "g", "s", "b")}
            tparams = {k: v for k, v in zip(("tp", "family", "vth"), trip) if v is not None}
            if order == "triple-first":
                m.add(Mos(**tparams)(**ports), name="t0")
            for k, e in enumerate(entries):
                # by model name; every other one also states the type / family / threshold its table key carries
                m.add(Mos(model=e[1], **(tparams if k % 2 == 0 else {}))(**ports), name=f"m{k}")
            if order == "model-first":
                m.add(Mos(**tparams)(**ports), name="t0")
            try:
                P["compile"](m)
            except Exception as e:
                if not is_descriptive(e):
                    rec.violation(f"selection-raises-undescriptive:{type(e).__name__}", f"[{label}] {type(e).__name__}: {str(e)[:60]!r}", case=case, pdk=pname,
                                  satisfiable=True)
                rec.count("triple-then-model.triple-refused")
                continue
            for k, e in enumerate(entries):
                got = m.instances[f"m{k}"].of
                if not isinstance(got, h.ExternalModuleCall) or got.module is not e[3]:
                    rec.violation("wrong-device-selected", f"[{label}, {order}] Mos(model={e[1]!r}) compiled to "
                                                           f"{got.module.name if isinstance(got, h.ExternalModuleCall) else 'nothing'}, the table entry is {e[3].name}",
                                  case=case, pdk=pname, device_kind="mos")
                    break
    _walk["label"] = _walk["case"] = None


def judge_bogus_models(rec, pname, P):
    """A model name no device of the PDK carries - truncated, partial, re-cased, extended, empty - is a request no device satisfies."""
    import hdl21 as h

    by_kind = {}
    for kind, model, key, mod, prim in P["table"]:
        if model is not None:
            by_kind.setdefault((kind, prim), []).append(str(model))
    for (kind, prim), names in sorted(by_kind.items(), key=lambda kv: (kv[0][0], kv[0][1].name)):
        real = set(names)
        bogus = ["", "no_such_model", " "]
        for nm in names[:6] + names[-2:]:
            bogus += [nm[:-1], nm[1:], nm[: max(1, len(nm) // 2)], nm.lower() if nm.lower() != nm else nm.upper(), nm + "x", nm.split("_")[0]]
        seen = set()
        for b in bogus:
            if b in real or b in seen:
                continue
            seen.add(b)
            label = f"{pname}:bogus-model:{kind}:{b!r}"
            case = {"kind": "bogus-model", "pdk": pname, "device_kind": kind, "prim": prim.name, "model": b}
            rec.case(key=label, nontrivial=True, sample=case if rec.evaluations % 150 == 5 else None)
            rec.count("bogus-models.checked")
            _walk["label"], _walk["case"] = label, case
            try:
                top, leaf = make_design(prim, {"model": b}, label)
                P["compile"](top)
            except Exception as e:
                if not is_descriptive(e):
                    rec.violation(f"selection-raises-undescriptive:{type(e).__name__}",
                                  f"[{label}] a model name no {kind} device carries raised {type(e).__name__} ({str(e)[:60]!r})", case=case, pdk=pname,
                                  satisfiable=False)
                else:
                    rec.count("bogus-models.rejected-descriptively")
                continue
            got = leaf.instances["x"].of
            rec.violation("unsatisfiable-model-accepted",
                          f"[{label}] no {kind} device of {pname} is called {b!r}, yet compile returned"
                          + (f" and selected {got.module.name}" if isinstance(got, h.ExternalModuleCall) else " leaving the primitive in place"),
                          case=case, pdk=pname, device_kind=kind)
    _walk["label"] = _walk["case"] = None


def judge_same_named(rec, pname, P):
    """Distinct modules that happen to share a name (two libraries' `Inv`), compiled in ONE list call and as siblings of one parent:
    every mapped primitive of each is replaced."""
    import hdl21 as h
    from hdl21.primitives import Mos, MosType

    for form in ("list", "siblings", "list-after-single"):
        label = f"{pname}:same-named:{form}"
        case = {"kind": "same-named", "pdk": pname, "form": form}
        rec.case(key=label, nontrivial=True, sample=case)
        rec.count("same-named.checked")
        _walk["label"], _walk["case"] = label, case
        n = next(_uid)
        mods = []
        mos = [e for e in P["table"] if e[0] == "mos" and len(e[3].port_list) == 4][:3]
        for k, (kind, model, key, mod, prim) in enumerate(mos):
            m = h.Module(name=f"SameName{n}")
            ports = {p: m.add(h.Port(), name=p) for p in ("d", "g", "s", "b")}
            params = {"model": model} if model is not None else ({"tp": key[0], "vth": key[1]} if pname == "asap7" else {"tp": key[0]})
            m.add(Mos(**params)(**ports), name="x")
            mods.append(m)
        try:
            if form == "list":
                P["compile"](mods)
            elif form == "list-after-single":
                P["compile"](mods[0])
                P["compile"](mods[1:])
            else:
                parent = h.Module(name=f"SameNameParent{n}")
                sig = {p: parent.add(h.Signal(), name=p) for p in ("d", "g", "s", "b")}
                for k, m in enumerate(mods):
                    parent.add(h.Instance(of=m)(**sig), name=f"u{k}")
                P["compile"](parent)
        except Exception as e:
            rec.violation(f"compile-raises:{type(e).__name__}", f"[{label}] compile raised {type(e).__name__}: {str(e)[:100]}", case=case, pdk=pname)
            continue
        left = [k for k, m in enumerate(mods) if not isinstance(m.instances["x"].of, h.ExternalModuleCall)]
        if left:
            rec.violation("mapped-primitive-not-replaced", f"[{label}] of {len(mods)} distinct modules sharing one name, the generic Mos of module(s) #{left} "
                                                           f"was left in place", case=case, pdk=pname)
    _walk["label"] = _walk["case"] = None


def judge_compile_forms(rec, allp):
    """hdl21.pdk.compile by default, by name and by module."""
    import hdl21 as h
    import hdl21.pdk as hp
    from hdl21.primitives import Mos, MosType

    def design():
        top, leaf = make_design(Mos, {"tp": MosType.NMOS}, "forms")
        return top, leaf

    mgr = hp.pdk._mgr if hasattr(hp, "pdk") else importlib.import_module("hdl21.pdk.pdk")._mgr
    saved = (set(mgr.modules), dict(mgr.names), mgr.default)
    try:
        P = allp["sample"]
        for form in ("by-module", "by-name", "default-single", "default-set", "default-ambiguous", "single-then-second", "by-package-then-default"):
            rec.count("pdk-compile-forms.checked")
            case = {"kind": "compile-form", "form": form}
            rec.case(key=f"form:{form}", nontrivial=True, sample=case)
            top, leaf = design()
            try:
                if form == "by-module":
                    hp.compile(top, pdk=P["regmod"])
                elif form == "by-name":
                    hp.compile(top, pdk=P["regname"])
                elif form == "default-single":
                    mgr.modules.clear()
                    mgr.names.clear()
                    mgr.default = None
                    hp.register(P["regmod"])
                    hp.compile(top)
                elif form == "default-set":
                    mgr.modules.clear()
                    mgr.names.clear()
                    for q in allp.values():
                        hp.register(q["regmod"])
                    hp.set_default(P["regmod"])
                    hp.compile(top)
                elif form == "by-package-then-default":
                    # naming the PDK's PACKAGE for one call (its inner module is the registered one) leaves the sole default usable
                    mgr.modules.clear()
                    mgr.names.clear()
                    mgr.default = None
                    hp.register(P["regmod"])
                    hp.compile(top, pdk=P["module"])
                    if not isinstance(leaf.instances["x"].of, h.ExternalModuleCall):
                        rec.violation("pdk-compile-form-no-effect:by-package", "hdl21.pdk.compile(pdk=<package>) did not compile the design", case=case, form=form)
                    top, leaf = design()
                    hp.compile(top)
                elif form == "single-then-second":
                    # one PDK registered and used by default; then a second one is registered (imported): the default is ambiguous
                    # from then on.  (Only the public register / compile API between the two compiles.)
                    mgr.modules.clear()
                    mgr.names.clear()
                    mgr.default = None
                    hp.register(P["regmod"])
                    hp.compile(top)
                    if not isinstance(leaf.instances["x"].of, h.ExternalModuleCall):
                        rec.violation("pdk-compile-form-no-effect:default-single", "hdl21.pdk.compile (sole registered PDK) did not compile the design", case=case, form=form)
                    hp.register(allp["asap7"]["regmod"])
                    top2, leaf2 = design()
                    try:
                        hp.compile(top2)
                        rec.violation("ambiguous-default-accepted", "hdl21.pdk.compile without a pdk compiled although a second PDK had been registered "
                                                                    "after the first default compile and no default is set", case=case)
                    except Exception as e:
                        if not is_descriptive(e):
                            rec.violation(f"ambiguous-default-undescriptive:{type(e).__name__}", f"{type(e).__name__}: {str(e)[:80]}", case=case)
                    continue
                else:
                    mgr.default = None
                    try:
                        hp.compile(top)
                        rec.violation("ambiguous-default-accepted", "hdl21.pdk.compile without a pdk compiled although several PDKs are registered and no default is set", case=case)
                    except Exception as e:
                        if not is_descriptive(e):
                            rec.violation(f"ambiguous-default-undescriptive:{type(e).__name__}", f"{type(e).__name__}: {str(e)[:80]}", case=case)
                    continue
            except Exception as e:
                rec.violation(f"pdk-compile-form-fails:{form}", f"hdl21.pdk.compile ({form}) raised {type(e).__name__}: {str(e)[:120]}", case=case, form=form)
                continue
            if not isinstance(leaf.instances["x"].of, h.ExternalModuleCall):
                rec.violation(f"pdk-compile-form-no-effect:{form}", f"hdl21.pdk.compile ({form}) did not compile the design", case=case, form=form)
    finally:
        mgr.modules.clear()
        mgr.modules.update(saved[0])
        mgr.names.clear()
        mgr.names.update(saved[1])
        mgr.default = saved[2]


def judge_walk_histories(rec, pname, P):
    """The design has been walked before it is compiled - by the generic `hdl21.walker.walk`, by a designer's own HierarchyWalker
    subclass (counting devices, say), by a compile of ANOTHER design that shares its leaf module, or by the same PDK's compile of an
    unmapped-only copy: the compile afterwards does what it does on a design never walked."""
    import hdl21 as h
    import hdl21.walker as hw
    from hdl21.primitives import Mos, MosType

    class Counter(hw.HierarchyWalker):
        def __init__(self):
            self.n = 0

        def visit_primitive_call(self, call):
            self.n += 1
            return call

    def fresh_targets():
        top, leaf = make_design(Mos, {"tp": MosType.NMOS}, f"{pname}:walk-history")
        P["compile"](top)
        return {n: type(i.of).__name__ + ":" + getattr(getattr(i.of, "module", None), "name", "?") for n, i in leaf.instances.items()}

    try:
        want = fresh_targets()
    except Exception:
        return  # (this PDK has no default NMOS: judged elsewhere)
    for history in ("generic-walk", "own-walker", "own-walker-class-walk", "elaborate+walk", "walk-twice"):
        rec.count("history.walked-before-compile")
        case = {"kind": "walk-history", "pdk": pname, "history": history}
        rec.case(key=f"walk:{pname}:{history}", nontrivial=True, sample=case)
        top, leaf = make_design(Mos, {"tp": MosType.NMOS}, f"{pname}:walk-history")
        try:
            if history == "generic-walk":
                hw.walk(top)
            elif history == "own-walker":
                c = Counter()
                c.visit_elaboratables(top)
            elif history == "own-walker-class-walk":
                Counter.walk(top)
            elif history == "elaborate+walk":
                h.elaborate(top)
                hw.HierarchyWalker().visit_elaboratables([top])
            else:
                hw.walk(top)
                hw.walk([top, top])
            P["compile"](top)
        except Exception as e:
            rec.violation(f"compile-raises:{type(e).__name__}", f"[{pname}] compile after {history} raised {type(e).__name__}: {str(e)[:100]}", case=case, pdk=pname)
            continue
        got = {n: type(i.of).__name__ + ":" + getattr(getattr(i.of, "module", None), "name", "?") for n, i in leaf.instances.items()}
        if got != want:
            diff = {n: (got.get(n), want.get(n)) for n in want if got.get(n) != want.get(n)}
            rec.violation("mapped-primitive-not-replaced", f"[{pname}] a design that had been walked before ({history}) compiles differently from a fresh one: "
                                                           f"instance targets (got, fresh) {diff}", case=case, pdk=pname, history=history)


def judge_bare_calls(rec, pname, P):
    """A call of a generic primitive given to compile directly (the form the PDK read-mes show), alone and in a list: there is no
    Module to modify in place, so the device call must come back as the result."""
    import hdl21 as h
    import hdl21.pdk as hp
    from hdl21.primitives import Mos, MosType

    try:
        top, leaf = make_design(Mos, {"tp": MosType.NMOS}, f"{pname}:bare")
        P["compile"](top)
        want = leaf.instances["x"].of.module.name
    except Exception:
        return
    for form in ("single", "list", "list-with-module", "hdl21.pdk.compile"):
        rec.count("bare-call.checked")
        case = {"kind": "bare-call", "pdk": pname, "form": form}
        rec.case(key=f"bare:{pname}:{form}", nontrivial=True, sample=case)
        call = Mos(tp=MosType.NMOS)
        try:
            if form == "single":
                got = P["compile"](call)
            elif form == "list":
                got = P["compile"]([call])
                got = got[0] if isinstance(got, list) and got else got
            elif form == "list-with-module":
                t2, _ = make_design(Mos, {"tp": MosType.NMOS}, f"{pname}:bare2")
                got = P["compile"]([t2, call])
                got = got[1] if isinstance(got, list) and len(got) == 2 else got
            else:
                got = hp.compile(call, pdk=P["regmod"])
        except Exception as e:
            rec.violation(f"compile-raises:{type(e).__name__}", f"[{pname}] compile of a bare primitive call ({form}) raised {type(e).__name__}: {str(e)[:100]}", case=case, pdk=pname)
            continue
        name = getattr(getattr(got, "module", None), "name", None)
        if not isinstance(got, h.ExternalModuleCall) or name != want:
            rec.violation("mapped-primitive-not-replaced", f"[{pname}] compile of a bare Mos call ({form}) returned {str(got)[:80]!r}; inside a module the same call compiles to {want}",
                          case=case, pdk=pname, history=form)


def logic_cells():
    out = []
    for pk, mods in (("sky130_hdl21.digital_cells", ("high_density", "high_speed", "low_leakage", "low_power", "low_speed", "medium_speed")),
                     ("gf180_hdl21.digital_cells", ("nine_track", "seven_track"))):
        import hdl21 as h

        for mn in mods:
            m = importlib.import_module(f"{pk}.{mn}")
            for name, obj in vars(m).items():
                if isinstance(obj, h.ExternalModule):
                    out.append((f"{pk}.{mn}.{name}", obj))
    return out


def judge_cells(rec, cells):
    import hdl21 as h

    for chunk_start in range(0, len(cells), 40):
        chunk = cells[chunk_start: chunk_start + 40]
        top = h.Module(name=f"Cells{next(_uid)}")
        for k, (label, em) in enumerate(chunk):
            rec.case(key=label, nontrivial=True, sample={"cell": label, "ports": [p.name for p in em.port_list]} if rec.evaluations % 400 == 1 else None)
            rec.count("cells.checked")
            conns = {p.name: top.add(h.Signal(width=p.width), name=f"n{k}_{i}") for i, p in enumerate(em.port_list)}
            inst = h.Instance(of=em())
            for pn, s in conns.items():
                inst.connect(pn, s)
            top.add(inst, name=f"c{k}")
        case = {"kind": "cells", "cells": [l for l, _ in chunk]}
        try:
            pkg = h.to_proto(top)
        except Exception as e:
            rec.violation(f"logic-cells-unexportable:{type(e).__name__}", f"cells {case['cells'][:3]}...: {str(e)[:140]}", case=case)
            continue
        for cls, msg in pkgread.wellformed(pkg)[:2]:
            rec.violation(f"logic-cell-pkg-{cls}", msg, case=case)
        for fmt in ("spice", "spectre"):
            try:
                h.netlist(pkg, io.StringIO(), fmt=fmt)
            except Exception as e:
                rec.violation(f"logic-cells-{fmt}-netlist-fails", f"cells {case['cells'][:3]}...: {type(e).__name__}: {str(e)[:140]}", case=case)


def run(ctx, rec):
    attach_walk(rec)
    allp = pdks()
    rng = ctx.rng("c15")
    work = []
    for pname, P in allp.items():
        for entry in P["table"]:
            for sizes in ("both", "none", "w-only", "l-only"):
                work.append(("dev", pname, entry, sizes))
            if entry[0] in ("mos", "cap", "bjt"):
                work.append(("dev", pname, entry, "frac-mult"))
        work.append(("triples", pname))
        work.append(("bogus", pname))
        work.append(("same-named", pname))
    if ctx.nshards > 1:
        work = work[ctx.shard:: ctx.nshards]
    for w in work:
        if w[0] == "dev":
            judge_device(rec, w[1], allp[w[1]], w[2], w[3])
        elif w[0] == "bogus":
            judge_bogus_models(rec, w[1], allp[w[1]])
            judge_triple_then_model(rec, w[1], allp[w[1]])
        elif w[0] == "same-named":
            judge_same_named(rec, w[1], allp[w[1]])
            judge_walk_histories(rec, w[1], allp[w[1]])
            judge_bare_calls(rec, w[1], allp[w[1]])
        else:
            judge_triples(rec, w[1], allp[w[1]])
    if ctx.shard == 0:
        judge_compile_forms(rec, allp)
    cells = logic_cells()
    rec.extra["logic_cells_total"] = len(cells)
    if ctx.quick:
        cells = rng.sample(cells, 320)
    elif ctx.nshards > 1:
        cells = cells[ctx.shard:: ctx.nshards]
    judge_cells(rec, cells)
    rec.extra["device_table_entries"] = {p: len(P["table"]) for p, P in allp.items()}
    rec.exhaustive = not ctx.quick
    _walk["rec"] = None


def shards(ctx):
    return 8


def replay(ctx, rec, case):
    attach_walk(rec)
    allp = pdks()
    if case.get("kind") == "device":
        for entry in allp[case["pdk"]]["table"]:
            if str(entry[1] or entry[2]) == case["model"]:
                judge_device(rec, case["pdk"], allp[case["pdk"]], entry, case["sizes"])
    elif case.get("kind") == "triple":
        judge_triples(rec, case["pdk"], allp[case["pdk"]])
    elif case.get("kind") == "compile-form":
        judge_compile_forms(rec, allp)
    elif case.get("kind") == "bare-call":
        judge_bare_calls(rec, case["pdk"], allp[case["pdk"]])
    elif case.get("kind") == "walk-history":
        judge_walk_histories(rec, case["pdk"], allp[case["pdk"]])
    else:
        judge_cells(rec, [c for c in logic_cells() if c[0] in case.get("cells", [])])
