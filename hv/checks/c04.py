"""
C04 -- the last connection made to a port is the one that gets built.

History + executable model.  The sequential model is a dict `port -> last expression` (disconnect deletes).  The
operations are applied to a live instance / array / pair of the real library at the API boundary
(`inst(p=e)`, `inst.p = e`, `connect`, `replace`, `disconnect`); after elaboration and export the package is read back
(R2) and compared with R1 of a design holding ONLY the final mapping.
"""

from __future__ import annotations

import copy
import itertools

from .. import build, oracle, pkgread, refsem
from ..runner import jhash

LEVEL = "exploration"
RULE = ("histories = sequences of connection operations {connect-by-call, connect-by-assignment, connect(), replace(), "
        "disconnect(), and refused operations: replace / disconnect of an unconnected port, a non-connectable value} on the ports (one bus port, one bundle port) of a target instance (single, array, pair), the connected "
        "object ranging over Signal, Slice, Concat, PortRef, NoConn, BundleRef (scalar port) and BundleInstance, AnonymousBundle, "
        "PortRef-to-bundle-port, BundleRef-to-sub-bundle, NoConn (bundle port); every (port, kind) sequence up to length 3 is "
        "enumerated (form chosen by seed), then completed to a valid mapping; plus seeded histories of length <= 8 (quick) / 12. "
        "distinct = the history; non-trivial = some port's final connection differs in kind from an earlier one")
ASSUMPTIONS = [
    "the sequential model of a port is a register holding the last connected expression; disconnect empties it",
    "edits to a connectable after connecting it are not operations of the property",
    "other instances' ports are always explicitly connected, so a replaced port reference never leaves a port dangling",
]
REQUIRED_COUNTERS = ["oracle.compared", "ops.replace", "ops.disconnect", "ops.setattr", "ops.call", "ops.connect", "ops.on-referrer", "ops.refused"]
MIN_EVALS = 1500
MIN_NONTRIVIAL = 1000

FAILING = ("replace!", "disconnect!", "badtype", "badtype-replace")

BUNDLES = {
    "B1": {"sigs": [["x", 1, "sig"], ["y", 2, "sig"]], "subs": [], "roles": None},
    "B3": {"sigs": [["z", 1, "sig"]], "subs": [["lo", "B1", False], ["hi", "B1", False]], "roles": None},
    "Diff": {"sigs": [["p", 1, ["role", "SOURCE", "SINK"]], ["n", 1, ["role", "SOURCE", "SINK"]]], "subs": [],
             "roles": ["SOURCE", "SINK"], "builtin": "Diff"},
}

SCALAR_KINDS = {
    "sig": ["sig", "s2"],
    "sig2": ["sig", "t2"],
    "slice": ["slice", ["sig", "s4"], [1, 3, None]],
    "cat": ["cat", ["sig", "s1"], ["sig", "t1"]],
    "pref": ["pref", "u", "x"],
    "nc": None,  # fresh no-connect per use
    "bref": ["bref", "bb", ["y"]],
}
BUNDLE_KINDS = {
    "bun": ["bun", "bb"],
    "bun2": ["bun", "b2"],
    "anon": ["anon", {"x": ["sig", "s1"], "y": ["sig", "s2"]}],
    "anon-dict": ["anon", {"x": ["sig", "t1"], "y": ["slice", ["sig", "s4"], [0, 2, None]]}, "dict"],
    "pref": ["pref", "c2", "bp"],
    "nc": None,
    "bref-sub": ["bref", "b3", ["lo"]],
    # members that are references to ports which are themselves tied to bundle members
    "anon-pref-to-bref": ["anon", {"x": ["pref", "o3", "y"], "y": ["pref", "o4", "x"]}],
}


def base_design(kind: str):
    """Child `Ch` with bus port a(2) and bundle port bp(B1); top T with the target `d` (no connections yet)."""
    ch = {"name": "Ch", "style": "proc", "ports": [["a", 2, "none"]], "bports": [["bp", "B1", False, None]], "sigs": [], "buns": [],
          "insts": [{"name": "e", "kind": "single", "of": ["leaf", "E2"], "tag": 1, "conns": {"x": ["sig", "a"], "y": ["bref", "bp", ["x"]]}},
                    {"name": "f", "kind": "single", "of": ["leaf", "E2"], "tag": 2, "conns": {"x": ["bref", "bp", ["y"]], "y": ["bref", "bp", ["x"]]}}]}
    sigs = [["s1", 1], ["t1", 1], ["s2", 2], ["t2", 2], ["s4", 4], ["ux", 2], ["uy", 1], ["w4", 4]]
    obs = [
        {"name": "u", "kind": "single", "of": ["leaf", "E2"], "tag": 10, "conns": {"x": ["sig", "ux"], "y": ["sig", "uy"]}},
        {"name": "c2", "kind": "single", "of": ["mod", "Ch"], "tag": None, "conns": {"a": ["sig", "ux"], "bp": ["bun", "b4"]}},
        {"name": "o1", "kind": "single", "of": ["leaf", "E4"], "tag": 11, "conns": {"w": ["sig", "s4"], "v": ["sig", "s2"]}},
        {"name": "o2", "kind": "single", "of": ["leaf", "E2"], "tag": 12, "conns": {"x": ["sig", "t2"], "y": ["sig", "s1"]}},
        {"name": "o3", "kind": "single", "of": ["leaf", "E2"], "tag": 13, "conns": {"x": ["bref", "bb", ["y"]], "y": ["bref", "bb", ["x"]]}},
        {"name": "o4", "kind": "single", "of": ["leaf", "E2"], "tag": 14, "conns": {"x": ["bref", "b2", ["y"]], "y": ["bref", "b2", ["x"]]}},
        {"name": "o5", "kind": "single", "of": ["leaf", "E2"], "tag": 15, "conns": {"x": ["bref", "b3", ["lo", "y"]], "y": ["bref", "b3", ["lo", "x"]]}},
        {"name": "o6", "kind": "single", "of": ["leaf", "E5"], "tag": 16, "conns": {"z": ["sig", "t1"]}},
        {"name": "o7", "kind": "single", "of": ["leaf", "E4"], "tag": 17, "conns": {"w": ["sig", "w4"], "v": ["sig", "t2"]}},
    ]
    # referrers: instances whose port may be tied to a PORT REFERENCE TO THE TARGET'S port at any point of the history
    obs.append({"name": "r", "kind": "single", "of": ["leaf", "E2"], "tag": 30, "conns": {"y": ["sig", "uy"]}})
    if kind != "pair":
        obs.append({"name": "rb", "kind": "single", "of": ["mod", "Ch"], "tag": None, "conns": {"a": ["sig", "ux"]}})
    else:
        obs.append({"name": "rb", "kind": "single", "of": ["leaf", "E5"], "tag": 31, "conns": {}})
    d = {"name": "d", "kind": kind, "of": ["mod", "Ch"], "tag": None, "conns": {}}
    if kind == "array":
        d["n"] = 2
    if kind == "pair":
        # pairs take scalar-port targets: a leaf E1 (a, b of width 1)
        d["of"] = ["leaf", "E1"]
        d["tag"] = 20
    top = {"name": "T", "style": "proc", "ports": [], "bports": [], "sigs": sigs,
           "buns": [["bb", "B1"], ["b2", "B1"], ["b3", "B3"], ["b4", "B1"], ["d0", "Diff"], ["d1", "Diff"]],
           "insts": obs + [d]}
    return {"bundles": copy.deepcopy(BUNDLES), "modules": [ch, top], "top": "T"}


PAIR_KINDS = {
    "sig": ["sig", "s1"], "sig2": ["sig", "t1"], "diff": ["bun", "d0"], "diff2": ["bun", "d1"],
    "anon": ["anon", {"p": ["sig", "s1"], "n": ["sig", "t1"]}], "inverse": ["anon", {"p": ["bref", "d0", ["n"]], "n": ["bref", "d0", ["p"]]}],
    "slice": ["slice", ["sig", "s4"], 2], "pref": ["pref", "u", "y"],
}
ARRAY_EXTRA = {"sig-per-elem": ["sig", "w4"], "cat-per-elem": ["cat", ["sig", "s2"], ["sig", "t2"]]}


def referrer_kinds(kind: str):
    """{(instance, port): {kindname: expr}} for the referrer instances."""
    if kind == "pair":
        return {("r", "x"): {"sig": ["sig", "t2"], "sig-b": ["sig", "s2"]},
                ("rb", "z"): {"sig": ["sig", "t1"], "sig-b": ["sig", "s1"]}}
    return {("r", "x"): {"pref-target": ["pref", "d", "a"], "sig": ["sig", "t2"], "slice-of-pref-target": ["slice", ["pref", "d", "a"], [0, 2, None]],
                         # the last two bits of a concatenation whose first part is a reference to the target's port: whatever that
                         # port is tied to at the end (and however wide that is for an array), they are the bits of t2
                         "tail-of-cat-with-pref-target": ["slice", ["cat", ["pref", "d", "a"], ["sig", "t2"]], [-2, None, None]]},
            ("rb", "bp"): {"pref-target": ["pref", "d", "bp"], "bun": ["bun", "b4"]}}


def kinds_for(kind: str, port: str):
    if ":" in port:
        i, p = port.split(":")
        return referrer_kinds(kind)[(i, p)]
    if kind == "pair":
        return PAIR_KINDS
    if port == "a":
        k = dict(SCALAR_KINDS)
        if kind == "array":
            k.update(ARRAY_EXTRA)
        return k
    k = dict(BUNDLE_KINDS)
    return k


def ports_of(kind: str):
    return (["a", "b"] if kind == "pair" else ["a", "bp"]) + [f"{i}:{p}" for (i, p) in referrer_kinds(kind)]


_nc = itertools.count(1000)


# connections that can only be passing states of a history: references to a port / bundle member that does not exist
TRANSIENT = {"pref-typo": ["pref", "u", "zzq"], "bref-typo": ["bref", "bb", ["zzmember"]], "pref-typo-sliced": ["slice", ["pref", "u", "zzw"], 0],
             "pref-typo-cat": ["cat", ["pref", "u", "zzv"], ["sig", "s1"]], "bref-typo-sliced": ["slice", ["bref", "bb", ["zzmember2"]], 0],
             "bref-typo-cat": ["cat", ["sig", "t1"], ["bref", "b2", ["zzmember3"]]]}


def realize(kind, port, k):
    if k in TRANSIENT:
        return copy.deepcopy(TRANSIENT[k])
    e = kinds_for(kind, port)[k]
    if e is None:
        return ["nc", next(_nc), None]
    return copy.deepcopy(e)


def complete(kind, model, rng):
    """Operations that complete `model` to a full mapping."""
    ops = []
    for port in ports_of(kind):
        if port not in model:
            ks = [k for k in kinds_for(kind, port)]
            k = rng.choice(ks)
            ops.append((rng.choice(["call", "setattr", "connect"]), port, k))
    return ops


def look_at(insts):
    """Read-only observations of everything connected: width, bounds, repr (errors are the observer's business, not the design's)."""
    from hdl21.elab.helpers.width import width as width_of

    def look(c, depth=0):
        import hdl21 as _h

        for f in (lambda: width_of(c), lambda: repr(c), lambda: (c.top, c.bot, c.step) if isinstance(c, _h.Slice) else None):
            try:
                f()
            except Exception:
                pass
        # (by type: asking a bundle reference for an attribute it does not have CREATES a child reference - not a read-only act)
        if depth < 4:
            import hdl21 as h

            if isinstance(c, h.Concat):
                for sub in c.parts:
                    look(sub, depth + 1)
            elif isinstance(c, h.Slice):
                look(c.parent, depth + 1)

    for i in insts:
        for c in list(getattr(i, "conns", {}).values()):
            look(c)


def run_history(rec, kind, hist, sample=False, late_reassign=False, observe=False):
    """hist: [(form, port, kindname|None)].  Apply to live objects, export, compare with the final mapping.
    observe: after every connection the designer LOOKS at the module (widths and reprs of everything connected): looking is not an
    operation, and what is built must not depend on it."""
    import hdl21 as h

    design = base_design(kind)
    model = {}
    applied = []
    # realise expressions up front (so the replay file is self-contained)
    concrete = []
    for form, port, k in hist:
        e = None if form in ("disconnect", "disconnect!", "badtype", "badtype-replace", "reinstance", "reinstance-mult") else realize(kind, port, k)
        concrete.append([form, port, k, e])
    case = {"kind": "history", "target": kind, "ops": concrete, "observe": observe}
    built = build.Built()
    built.uid = f"_{next(build._counter)}"
    try:
        mbs = []
        for ms in design["modules"]:
            mb = build.ModBuilder(design, ms, built)
            mb.declare()
            mb.connect_all()
            if ms["name"] != design["top"]:
                mb.finish()
            mbs.append(mb)
        mb = mbs[-1]
        kinds_seen = {}
        for form, port, k, e in concrete:
            rec.count(f"ops.{form}")
            d, pname = (mb.insts[port.split(":")[0]], port.split(":")[1]) if ":" in port else (mb.insts["d"], port)
            if ":" in port:
                rec.count("ops.on-referrer")
            if form == "disconnect":
                d.disconnect(pname)
                model.pop(port, None)
                continue
            if form in ("reinstance", "reinstance-mult"):
                # the designer builds the target instance anew - same connections - under the same name; the old instance object,
                # still registered on everything it was connected to, is dropped (never added / multiplied away)
                spec = dict([i for i in refsem.get_module(design, "T")["insts"] if i["name"] == "d"][0])
                if form == "reinstance-mult" and kind == "array":
                    single = h.Instance(of=mb.target(spec["of"]) if spec["of"][0] == "mod" else build.leaf_call(spec["of"][1], spec.get("tag")))
                    for prt, ee in model.items():
                        if ":" not in prt:
                            single.connect(prt, mb.expr(ee))
                    new = spec["n"] * single
                else:
                    new = mb.make_inst(spec)
                    for prt, ee in model.items():
                        if ":" not in prt:
                            new.connect(prt, mb.expr(ee))
                mb.insts["d"] = new
                mb.attrs["d"] = new
                continue
            if form in FAILING:
                # an operation that the library refuses: nothing was made, so nothing may remain of it
                bad = {"badtype": 5, "badtype-replace": "nope"}.get(form)
                obj = bad if bad is not None else (mb.expr(e) if e is not None else None)
                try:
                    if form == "disconnect!":
                        d.disconnect(pname)
                    elif form in ("replace!", "badtype-replace"):
                        d.replace(pname, obj)
                    elif form == "badtype":
                        d.connect(pname, obj)
                except Exception:
                    rec.count("ops.refused")
                    continue
                if form == "replace!":  # accepted after all: then it is the last connection made
                    model[port] = e
                    kinds_seen.setdefault(port, []).append(k)
                    rec.count("ops.refusal-expected-but-accepted")
                    continue
                if form == "disconnect!":
                    continue
                rec.count("generator.badtype-accepted")
                return
            obj = mb.expr(e)
            if form == "call":
                d(**{pname: obj})
            elif form == "setattr":
                setattr(d, pname, obj)
            elif form == "connect":
                d.connect(pname, obj)
            elif form == "replace":
                d.replace(pname, obj)
            kinds_seen.setdefault(port, []).append(k)
            model[port] = e
            if observe:
                rec.count("ops.observed")
                look_at(mb.insts.values())
        top = mb.finish()
        if late_reassign and kind != "pair" and not any(":" in p and "'pref', 'd'" in str(e) for p, e in model.items()):
            # ... and once more on the finished (not yet elaborated) module: `top.d = <new instance>` displaces the old one
            rec.count("ops.reassign-late")
            spec = dict([i for i in refsem.get_module(design, "T")["insts"] if i["name"] == "d"][0])
            new = mb.make_inst(spec)
            for prt, ee in model.items():
                if ":" not in prt:
                    new.connect(prt, mb.expr(ee))
            top.d = new
    except Exception as e:
        rec.violation(f"operation-raised:{type(e).__name__}", f"history {[(f, p, k) for f, p, k, _ in concrete]} on a {kind}: "
                                                             f"a connection operation raised {oracle.exc_sig(e)[:120]}", case=case)
        return
    nontrivial = any(len(set(v)) > 1 for v in kinds_seen.values())
    rec.case(key=jhash(case), nontrivial=nontrivial,
             sample={"target": kind, "history": [(f, p, k) for f, p, k, _ in concrete], "final": {p: str(e) for p, e in model.items()}} if sample else None)
    final = copy.deepcopy(design)
    for inst in refsem.get_module(final, "T")["insts"]:
        for port, e in model.items():
            iname, pname = port.split(":") if ":" in port else ("d", port)
            if inst["name"] == iname:
                inst["conns"][pname] = copy.deepcopy(e)
    try:
        ref = refsem.flatten(final)
    except refsem.Invalid as e:
        rec.count("generator.invalid-final-mapping")
        return
    try:
        pkg = h.to_proto(top)
    except Exception as e:
        rec.count("outcome.rejected")
        rec.hist("rejections", oracle.exc_sig(e)[:80])
        rec.violation(f"valid-final-mapping-rejected:{type(e).__name__}",
                      f"history {[(f, p, k) for f, p, k, _ in concrete]} on a {kind} ends in the valid mapping {model} but elaboration "
                      f"raised {oracle.exc_sig(e)[:140]}", case=case, target=kind)
        return
    try:
        obs = pkgread.flatten(pkg)
    except pkgread.ReadError as e:
        rec.violation("history-package-unreadable", f"history {[(f, p, k) for f, p, k, _ in concrete]}: {e}", case=case)
        return
    rec.count("oracle.compared")
    diffs = pkgread.compare(ref, obs)
    if diffs:
        replaced = sorted({k for v in kinds_seen.values() for k in v[:-1]})
        rec.violation("history-leaves-trace",
                      f"history {[(f, p, k) for f, p, k, _ in concrete]} on a {kind}: built circuit differs from the final mapping "
                      f"{ {p: (kinds_seen[p][-1] if p in kinds_seen else None) for p in model} }: " + "; ".join(diffs[:3]),
                      case=case, target=kind, replaced_kinds=",".join(replaced))


def gen_random(rng, kind, maxlen):
    model = {}
    hist = []
    for _ in range(rng.randint(2, maxlen)):
        port = rng.choice(ports_of(kind))
        x = rng.random()
        if rng.random() < 0.06 and not any(":" in p and "pref" in str(model[p]) for p in model):
            # (referrers hold references to the OLD instance's ports; they are only re-made while none is tied)
            hist.append(("reinstance-mult" if kind == "array" and rng.random() < 0.5 else "reinstance", "a" if kind != "pair" else "a", None))
            continue
        if rng.random() < 0.15:
            # a refused operation: replace / disconnect of an unconnected port, a non-connectable value
            if port not in model:
                form = rng.choice(["replace!", "disconnect!", "badtype"])
            else:
                form = rng.choice(["badtype", "badtype-replace"])
            hist.append((form, port, rng.choice(list(kinds_for(kind, port))) if form == "replace!" else None))
            continue
        if port in model and x < 0.18:
            hist.append(("disconnect", port, None))
            model.pop(port)
            continue
        k = rng.choice(list(kinds_for(kind, port)))
        if port in model and x < 0.45:
            form = "replace"
        else:
            form = rng.choice(["call", "setattr", "connect"])
        hist.append((form, port, k))
        model[port] = k
    # a misspelt reference, corrected by a later operation on the same port
    if rng.random() < 0.4:
        idx = [i for i, (f, p, k) in enumerate(hist) if f in ("call", "setattr", "connect") and ":" not in p
               and any(p2 == p and f2 in ("call", "setattr", "connect", "replace") for (f2, p2, k2) in hist[i + 1:])]
        if idx:
            i = rng.choice(idx)
            hist.insert(i + 1, ("setattr", hist[i][1], rng.choice(["pref-typo", "bref-typo", "pref-typo-sliced", "pref-typo-cat", "bref-typo-sliced", "bref-typo-cat"])))
    return hist + complete(kind, model, rng)


def special_port_probes(rec):
    """Ports whose names are those of the instance's own attributes (`name`, `of`, `conns`, a private `_en`): connect-by-assignment and
    connect-by-call either make the connection or refuse loudly; whatever was accepted last is what is built."""
    import hdl21 as h

    for pname in ("name", "of", "conns", "_en", "connect", "portrefs"):
        for form in ("setattr", "call", "connect"):
            rec.count("probe.special-port-names")
            case = {"kind": "special-port", "port": pname, "form": form}
            rec.case(key=jhash(case), nontrivial=True, sample=None)
            try:
                X = h.ExternalModule(name=f"Sp{next(build._counter)}", port_list=[h.Port(name=pname), h.Port(name="q")], paramtype=h.HasNoParams)
            except Exception:
                continue  # (the port name itself is refused)
            m = h.Module(name=f"SpTop{next(build._counter)}")
            m.add(h.Signal(), name="s1")
            m.add(h.Signal(), name="s2")
            m.add(h.Signal(), name="t")
            i = h.Instance(of=X())
            last = None
            try:
                i.connect(pname, m.s1)
                last = "s1"
                i.connect("q", m.t)
            except Exception:
                continue
            try:
                if form == "setattr":
                    setattr(i, pname, m.s2)
                elif form == "call":
                    i(**{pname: m.s2})
                else:
                    i.connect(pname, m.s2)
                last = "s2"
            except Exception:
                rec.count("ops.refused")
            try:
                m.add(i, name="x")
                pkg = h.to_proto(m)
            except Exception as e:
                rec.violation(f"valid-final-mapping-rejected:{type(e).__name__}", f"instance with a port named `{pname}`, re-connected by {form}: export raised "
                                                                                  f"{type(e).__name__}: {str(e)[:100]}", case=case, target="special-port")
                continue
            got = {c.portname: c.target.sig for inst in pkg.modules[-1].instances for c in inst.connections}
            if got.get(pname) != last:
                rec.violation("history-leaves-trace", f"port `{pname}` was last connected (by {form}) to {last}, the package ties it to {got.get(pname)!r}",
                              case=case, target="special-port", replaced_kinds="sig")


def special_bundle_port_probes(rec):
    """The same for BUNDLE-valued ports of a Module target called like instance attributes or methods."""
    import hdl21 as h

    for pname in ("replace", "connect", "disconnect", "name", "of", "conns", "portref", "portrefs"):
        for kind in ("single", "array"):
            rec.count("probe.special-port-names")
            case = {"kind": "special-port", "port": pname, "form": "bundle:" + kind}
            rec.case(key=jhash(case), nontrivial=True, sample=None)
            try:
                B = h.Bundle(name=f"SpB{next(build._counter)}")
                B.add(h.Signal(), name="x")
                B.add(h.Signal(), name="y")
                child = h.Module(name=f"SpCh{next(build._counter)}")
                child.add(B(port=True), name=pname)
                child.add(h.Instance(of=h.R(r=1))(p=getattr(child, pname).x if pname not in ("name",) else child.get(pname).x, n=child.get(pname).y), name="r")
            except Exception:
                continue  # (the port name itself is refused)
            m = h.Module(name=f"SpTopB{next(build._counter)}")
            b1 = m.add(B(), name="b1")
            b2 = m.add(B(), name="b2")
            i = h.Instance(of=child) if kind == "single" else h.InstanceArray(child, 2)
            last = None
            try:
                i.connect(pname, b1)
                last = "b1"
            except Exception:
                continue
            try:
                setattr(i, pname, b2)
                last = "b2"
            except Exception:
                rec.count("ops.refused")
            try:
                m.add(i, name="x")
                pkg = h.to_proto(m)
            except Exception as e:
                # (a loud failure after an accepted assignment: the assignment corrupted the instance)
                rec.violation(f"valid-final-mapping-rejected:{type(e).__name__}", f"instance with a bundle port named `{pname}` ({kind}), re-connected by assignment: export raised "
                                                                                  f"{type(e).__name__}: {str(e)[:100]}", case=case, target="special-port")
                continue
            tops = [mm for mm in pkg.modules if mm.name.endswith(m.name)]
            got = sorted({c.target.sig for inst in tops[0].instances for c in inst.connections})
            if not got or not all(g.startswith(last + "_") for g in got):
                rec.violation("history-leaves-trace", f"bundle port `{pname}` ({kind}) was last connected (by assignment) to {last}, the package ties it to {got}",
                              case=case, target="special-port", replaced_kinds="bun")


def copied_instance_probes(rec):
    """Connection histories which go through COPIES of an instance (a partially connected template copied, each copy completed on its
    own; a copy re-connected; the original re-connected after the copy was taken): each instance ends up with the connections last
    made ON IT, whatever happened to its original or its siblings afterwards."""
    import copy as _copy

    import hdl21 as h

    X = h.ExternalModule(name=f"CpX{next(build._counter)}", port_list=[h.Port(name="p"), h.Port(name="n"), h.Port(name="b", width=2)], paramtype=h.HasNoParams)
    for target in ("single", "array", "pair"):
        for story in ("complete-copies", "reconnect-copy", "reconnect-original", "disconnect-on-copy", "copy-of-copy", "refs-from-copies", "refs-from-copy-and-original"):
            rec.count("probe.copied-instances")
            case = {"kind": "copied-instance", "target": target, "story": story}
            rec.case(key=jhash(case), nontrivial=True, sample=case)
            m = h.Module(name=f"CpTop{next(build._counter)}")
            for nm in ("vss", "x", "y", "z"):
                m.add(h.Signal(), name=nm)
            m.add(h.Signal(width=2), name="bb")
            m.add(h.Signal(width=2), name="cc")
            mk = {"single": lambda: h.Instance(of=X()), "array": lambda: h.InstanceArray(X(), 1), "pair": None}[target]
            if target == "pair":
                continue  # (a Pair takes bundle-valued connections: covered by C05's instance-bundle probes)
            tmpl = mk()(n=m.vss, b=m.bb)
            want = {}
            try:
                if story == "complete-copies":
                    i1, i2 = _copy.copy(tmpl), _copy.copy(tmpl)
                    i1.p = m.x
                    i2.p = m.y
                    want = {"i1": {"p": "x", "n": "vss", "b": "bb"}, "i2": {"p": "y", "n": "vss", "b": "bb"}}
                elif story == "reconnect-copy":
                    tmpl.p = m.x
                    i1, i2 = _copy.copy(tmpl), tmpl
                    i1.replace("b", m.cc) if hasattr(i1, "replace") else i1.connect("b", m.cc)
                    i1.p = m.y
                    want = {"i1": {"p": "y", "n": "vss", "b": "cc"}, "i2": {"p": "x", "n": "vss", "b": "bb"}}
                elif story == "reconnect-original":
                    tmpl.p = m.x
                    i1, i2 = _copy.copy(tmpl), tmpl
                    i2.p = m.z
                    i2.connect("b", m.cc)
                    want = {"i1": {"p": "x", "n": "vss", "b": "bb"}, "i2": {"p": "z", "n": "vss", "b": "cc"}}
                elif story == "disconnect-on-copy":
                    tmpl.p = m.x
                    i1, i2 = _copy.copy(tmpl), tmpl
                    i1.disconnect("p")
                    i1.p = m.y
                    want = {"i1": {"p": "y", "n": "vss", "b": "bb"}, "i2": {"p": "x", "n": "vss", "b": "bb"}}
                elif story in ("refs-from-copies", "refs-from-copy-and-original"):
                    # port references taken from two copies (or a copy and its original) are references to two ports
                    if target != "single":
                        continue
                    if story == "refs-from-copies":
                        i1, i2 = _copy.copy(tmpl), _copy.copy(tmpl)
                    else:
                        tmpl.p  # (a reference handed out BEFORE the copy was taken)
                        i1, i2 = tmpl, _copy.copy(tmpl)
                    l1 = h.Instance(of=X())(n=m.x, b=m.cc, p=i1.p)
                    l2 = h.Instance(of=X())(n=m.y, b=m.cc, p=i2.p)
                    i1.name = i2.name = None
                    m.add(i1, name="i1")
                    m.add(i2, name="i2")
                    m.add(l1, name="l1")
                    m.add(l2, name="l2")
                    pkg = h.to_proto(m)
                    net = {(i_.name, c.portname): c.target.sig for i_ in pkg.modules[-1].instances for c in i_.connections}
                    rec.count("probe.copied-instances-compared")
                    if not (net[("i1", "p")] == net[("l1", "p")] != net[("i2", "p")] == net[("l2", "p")]):
                        rec.violation("history-leaves-trace", f"port references taken from {story[10:]} of one instance: l1.p was connected to i1.p and l2.p to i2.p, the package has "
                                      f"i1.p={net[('i1', 'p')]} l1.p={net[('l1', 'p')]} i2.p={net[('i2', 'p')]} l2.p={net[('l2', 'p')]}", case=case, target="copied-instance",
                                      replaced_kinds="pref")
                    continue
                else:
                    i1 = _copy.copy(_copy.copy(tmpl))
                    i2 = _copy.copy(tmpl)
                    i1.p = m.x
                    i2.p = m.y
                    tmpl.p = m.z
                    want = {"i1": {"p": "x", "n": "vss", "b": "bb"}, "i2": {"p": "y", "n": "vss", "b": "bb"}}
                i1.name = i2.name = None
                m.add(i1, name="i1")
                m.add(i2, name="i2")
                pkg = h.to_proto(m)
            except Exception as e:
                rec.count("ops.refused")
                rec.count("probe.copied-instances-refused")
                if story.startswith("refs-from"):  # (nothing ill-formed about these)
                    rec.violation(f"valid-final-mapping-rejected:{type(e).__name__}", f"port references taken from {story[10:]} of one instance: export raised "
                                  f"{str(e)[-120:]}", case=case, target="copied-instance")
                continue
            got = {}
            for inst in pkg.modules[-1].instances:
                nm = inst.name[:2]
                for c in inst.connections:
                    t = c.target
                    got.setdefault(nm, {})[c.portname] = t.sig if t.WhichOneof("stype") == "sig" else (t.slice.signal if t.WhichOneof("stype") == "slice" else str(t))
            rec.count("probe.copied-instances-compared")
            if got != want:
                rec.violation("history-leaves-trace", f"{target} instances made by copy.copy() ({story}): connections written {want}, the package has {got}",
                              case=case, target="copied-instance", replaced_kinds="sig")


def copied_anon_probes(rec):
    """An anonymous bundle given to one instance, COPIED, and the copy (or the original) extended / given to another instance: each
    instance has the members the object connected to IT was given - a member added to one object never completes the other."""
    import copy as _copy

    import hdl21 as h

    B = h.Bundle(name=f"CaB{next(build._counter)}")
    B.add(h.Signal(), name="x")
    B.add(h.Signal(), name="y")
    Leaf = h.Module(name=f"CaLeaf{next(build._counter)}")
    Leaf.add(B(port=True), name="b")
    Leaf.add(h.R(r=1)(p=Leaf.b.x, n=Leaf.b.y), name="r")
    for story in ("extend-copy", "extend-original", "both-complete", "copy-of-complete"):
        rec.count("probe.copied-anon")
        case = {"kind": "copied-anon", "story": story}
        rec.case(key=jhash(case), nontrivial=True, sample=case)
        m = h.Module(name=f"CaTop{next(build._counter)}")
        for nm in ("s", "t", "u", "v"):
            m.add(h.Signal(), name=nm)
        a1 = h.AnonymousBundle(x=m.s)
        want = None
        try:
            if story == "extend-copy":
                m.i = Leaf(b=a1)
                a2 = _copy.copy(a1)
                a2.add("y", m.u)
                m.j = Leaf(b=a2)
                want = "refused"  # i.b has no member y
            elif story == "extend-original":
                a2 = _copy.copy(a1)
                m.j = Leaf(b=a2)
                a1.add("y", m.t)
                m.i = Leaf(b=a1)
                want = "refused"  # j.b has no member y
            elif story == "both-complete":
                a2 = _copy.copy(a1)
                a1.add("y", m.t)
                a2.add("y", m.u)
                m.i, m.j = Leaf(b=a1), Leaf(b=a2)
                want = {"i": {"b_x": "s", "b_y": "t"}, "j": {"b_x": "s", "b_y": "u"}}
            else:
                a1.add("y", m.t)
                a2 = _copy.copy(a1)
                m.i, m.j = Leaf(b=a1), Leaf(b=a2)
                want = {"i": {"b_x": "s", "b_y": "t"}, "j": {"b_x": "s", "b_y": "t"}}
            pkg = h.to_proto(m)
        except Exception as e:
            rec.count("ops.refused")
            if want != "refused":
                rec.violation(f"valid-final-mapping-rejected:{type(e).__name__}", f"anonymous bundle and its copy ({story}): export raised {str(e)[:100]}", case=case,
                              target="copied-anon")
            continue
        got = {i.name: {c.portname: c.target.sig for c in i.connections} for i in pkg.modules[-1].instances}
        if want == "refused" or got != want:
            rec.violation("history-leaves-trace", f"anonymous bundle and its copy ({story}): the package has {got}, the connections written give "
                          f"{want if want != 'refused' else 'an incomplete bundle on one instance (to be refused)'}", case=case, target="copied-anon", replaced_kinds="anon")


def run(ctx, rec):
    rng = ctx.rng("c04")
    cases = []
    # every (port, kind) sequence up to length L on a single instance
    L = 3 if ctx.quick else 4
    alphabet = [(p, k) for p in ports_of("single") for k in kinds_for("single", p)]
    seqs = [s for l in range(1, L + 1) for s in itertools.product(alphabet, repeat=l)]
    if ctx.quick:
        rng.shuffle(seqs)
        seqs = seqs[:2200]
    for seq in seqs:
        model = {}
        hist = []
        for (p, k) in seq:
            if p in model:
                form = rng.choice(["replace", "setattr", "call", "connect", "disconnect+"])
                if form == "disconnect+":
                    hist.append(("disconnect", p, None))
                    form = rng.choice(["setattr", "call", "connect"])
            else:
                form = rng.choice(["setattr", "call", "connect"])
                if rng.random() < 0.2:
                    hist.append(("replace!", p, rng.choice(list(kinds_for("single", p)))))
            hist.append((form, p, k))
            model[p] = k
        cases.append(("single", hist + complete("single", model, rng)))
    for kind in ("single", "array", "pair"):
        for _ in range(400 if ctx.quick else 9600):
            cases.append((kind, gen_random(rng, kind, 8 if ctx.quick else 16)))
    # directed: a referrer holds an expression over a reference to the array's port `a`, whose connection is then replaced by one of
    # ANOTHER total width (broadcast <-> one chunk per element); with and without looking at the module in between
    directed = []
    for ref_kind in ("slice-of-pref-target", "tail-of-cat-with-pref-target"):
        for k1, k2 in (("sig", "sig-per-elem"), ("sig-per-elem", "sig"), ("cat", "cat-per-elem"), ("cat-per-elem", "slice"), ("sig2", "sig-per-elem")):
            for form2 in ("connect", "replace", "setattr", "call"):
                model = {"a": k2, "r:x": ref_kind}
                directed.append(("array", [("call", "a", k1), ("setattr", "r:x", ref_kind), (form2, "a", k2)] + complete("array", model, rng)))
    cases += directed
    rec.extra["directed_histories"] = len(directed)
    if ctx.nshards > 1:
        cases = cases[ctx.shard:: ctx.nshards]
    for i, (kind, hist) in enumerate(cases):
        run_history(rec, kind, hist, sample=(i % 700 == 3), late_reassign=(i % 5 == 0), observe=(i % 3 == 1))
        if hist and hist[1:2] and hist[1][1] == "r:x" and len(hist) > 2 and hist[2][1] == "a" and i % 3 != 1:
            run_history(rec, kind, hist, observe=True)

    if ctx.shard == 0:
        special_port_probes(rec)
        special_bundle_port_probes(rec)
        copied_instance_probes(rec)
        copied_anon_probes(rec)
    rec.exhaustive = False
    rec.extra["kind_sequences_enumerated"] = len(seqs)


def shards(ctx):
    return 16


def replay(ctx, rec, case):
    # re-install the concrete expressions
    if case.get("kind") == "copied-anon":
        copied_anon_probes(rec)
        return
    if case.get("kind") == "copied-instance":
        copied_instance_probes(rec)
        return
    if case.get("kind") == "special-port":
        special_port_probes(rec)
        special_bundle_port_probes(rec)
        return
    kind = case["target"]
    hist = [(f, p, k) for f, p, k, _ in case["ops"]]
    run_history(rec, kind, hist, sample=True, observe=bool(case.get("observe")))
