"""
C13 -- parameter values reach the package unchanged.

M-param contracts (independent decoder) on export_param_value / export_prefixed / to_scalar / to_prefixed, plus a
boundary check: every primitive of hdl21.primitives and external modules (dict- and paramclass-typed) are
instantiated with generated values, exported, and `Instance.parameters` is decoded and compared with what
was given (name, value, omission of None, VLSIR primitive name, pulse-source renaming).
"""

from __future__ import annotations

import itertools
import math
import struct
from decimal import Decimal
from enum import Enum
from fractions import Fraction

from .. import pkgread
from ..monitors import parammon, pref as mpref
from ..runner import jhash

LEVEL = "exploration"
RULE = ("cases = one instance of a target (each of the primitives in hdl21.primitives; an ExternalModule with dict params; an "
        "ExternalModule with a typed paramclass) with every parameter drawn from: ints up to +-2^63-1, floats incl. subnormals and "
        "non-terminating binary fractions, Decimals with 1..40 digit mantissas and exponents +-30, numeric and non-numeric "
        "strings, unicode text, Literals, str-Enums, None, Prefixed with each of the 21 prefixes; distinct = (target, "
        "parameter values); non-trivial = at least one non-None non-default parameter")
ASSUMPTIONS = [
    "a float given to a Scalar field must come back as a number whose nearest double is the given float",
    "an integral Prefixed mantissa may be exported as int64 or as its digit string; a non-integral one must keep its digits",
    "the independent decoder (hv.pkgread.decode_param) reads int64/string x 10^prefix exactly, doubles bit-exactly",
]
REQUIRED_COUNTERS = ["M-param.export_param_value", "M-param.export_prefixed", "M-param.to_scalar", "boundary.instances", "boundary.sibling-modules"]
MIN_EVALS = 1500
MIN_NONTRIVIAL = 1000

PRIM_MAP = {"DcVoltageSource": "vdc", "PulseVoltageSource": "vpulse", "SineVoltageSource": "vsin", "CurrentSource": "isource",
            "IdealResistor": "resistor", "IdealCapacitor": "capacitor", "IdealInductor": "inductor",
            "VoltageControlledVoltageSource": "vcvs", "CurrentControlledVoltageSource": "ccvs",
            "VoltageControlledCurrentSource": "vccs", "CurrentControlledCurrentSource": "cccs"}
PULSE_RENAME = {"delay": "td", "rise": "tr", "fall": "tf", "width": "tpw", "period": "tper", "v1": "v1", "v2": "v2"}


class Color(Enum):
    RED = "red"
    GREEN = "verde azul"


def rand_decimal(rng, maxdigits=40, maxexp=30) -> Decimal:
    nd = rng.randint(1, maxdigits)
    digits = str(rng.randint(1, 9)) + "".join(str(rng.randint(0, 9)) for _ in range(nd - 1))
    exp = rng.randint(-maxexp, maxexp)
    sign = "-" if rng.random() < 0.3 else ""
    return Decimal(f"{sign}{digits}E{exp}")


def rand_float(rng) -> float:
    x = rng.random()
    if x < 0.2:
        return rng.choice([0.1, 0.2, 0.1 + 0.2, 1 / 3, 1.1 * 3, 4.35 * 100, 1e-9, 2.5e-6, 1e21, 1e22, 5e-324, 2.2250738585072014e-308,
                           -0.0, 0.0, 1.7976931348623157e308, 123456789.123456789, 1e16 + 2])
    if x < 0.6:
        return struct.unpack("<d", struct.pack("<Q", rng.getrandbits(64) & 0x7FEFFFFFFFFFFFFF | (rng.getrandbits(1) << 63)))[0]
    return rng.uniform(-1, 1) * 10 ** rng.randint(-20, 20)


def rand_int(rng) -> int:
    x = rng.random()
    if x < 0.2:
        return rng.choice([0, 1, -1, 2 ** 63 - 1, -(2 ** 63), 2 ** 31, 10 ** 18, 999, 1000])
    return rng.randint(-(2 ** 63), 2 ** 63 - 1) if x < 0.5 else rng.randint(-10 ** 6, 10 ** 6)


TEXTS = ["w/5", "1.5", "3e-9", "11*l", "a b", "a=b c=d", "x'y\"z", "Ω≈µ·π", "", " ", "1e", "--3", "0x10", "sim_param", "1 2", "nan?", "é" * 40,
         "{p}", "$var", "line\nbreak", "tab\there"]
NUMSTRS = ["1e-9", "3.30", "+5", "-0.000", "1E+3", "12345678901234567890.0123456789", ".5", "5.", "007", "1_000", "1e+25"]


def rand_text(rng) -> str:
    if rng.random() < 0.6:
        return rng.choice(TEXTS)
    return "".join(chr(rng.choice([rng.randint(32, 126), rng.randint(0xA0, 0x2FF), rng.randint(0x4E00, 0x4E80)])) for _ in range(rng.randint(1, 12)))


def rand_prefixed(rng):
    import hdl21 as h

    pre = rng.choice(list(h.Prefix))
    x = rng.random()
    if x < 0.3:
        num = Decimal(rng.choice(["1", "1.50", "2.0", "0", "-3", "1000", "0.001", "999.999", "1E+3", "1.10"]))
    elif x < 0.6:
        num = Decimal(rng.randint(-10 ** 6, 10 ** 6))
    else:
        num = rand_decimal(rng, 30, 12)
    return h.Prefixed(number=num, prefix=pre)


def rand_scalar_input(rng):
    """A value for a Scalar-typed field, in every ToScalar form."""
    import hdl21 as h

    x = rng.random()
    if x < 0.2:
        return rand_prefixed(rng)
    if x < 0.35:
        return rand_int(rng) if rng.random() < 0.7 else rng.randint(-10 ** 30, 10 ** 30)
    if x < 0.5:
        f = rand_float(rng)
        return f if math.isfinite(f) else 1.5
    if x < 0.65:
        return rand_decimal(rng)
    if x < 0.78:
        return rng.choice(NUMSTRS) if rng.random() < 0.5 else str(rand_decimal(rng, 20, 10))
    if x < 0.9:
        return h.Literal(rand_text(rng) or "x")
    t = rand_text(rng)
    return t


def expected_scalar(v):
    """What a Scalar field given `v` must export: ('pref-exact', Fraction[, prefixname]) | ('float', f) | ('lit', text)."""
    import hdl21 as h

    if isinstance(v, h.Prefixed):
        return ("given", v)
    if isinstance(v, h.Literal):
        return ("lit", v.text)
    if isinstance(v, bool):
        return None
    if isinstance(v, int):
        return ("exact", Fraction(v))
    if isinstance(v, float):
        return ("float", v)
    if isinstance(v, Decimal):
        return ("exact", Fraction(v))
    if isinstance(v, str):
        try:
            d = Decimal(v)
            if not d.is_finite():
                return None
            return ("exact", Fraction(d))
        except Exception:
            return ("lit", v)
    return None


def check_scalar(exp, dec) -> str:
    if exp[0] == "given":
        return parammon.value_matches(exp[1], dec)
    if exp[0] == "lit":
        return "" if dec == ("lit", exp[1]) else f"expected literal {exp[1]!r}, got {dec!r}"
    if not (isinstance(dec, tuple) and dec[0] == "pref"):
        return f"expected a prefixed number, got {dec!r}"
    if exp[0] == "exact":
        return "" if dec[1] == exp[1] else f"value {dec[1]} != {exp[1]}"
    if exp[0] == "float":
        # the decimal value of a float is the one its shortest repr shows (the documented str() conversion): 1e23 is 1E+23,
        # not the 23-digit expansion of the nearest double
        want = Fraction(Decimal(repr(exp[1])))
        return "" if dec[1] == want else f"value {dec[1]} != {want} (the decimal value of {exp[1]!r})"
    return "?"


_lib = {}


def lib():
    import hdl21 as h

    if not _lib:
        _lib["Edict"] = h.ExternalModule(name="Edict", domain="hvlib", port_list=[h.Port(name="a"), h.Port(name="b")], paramtype=dict)

        @h.paramclass
        class TypedParams:
            i = h.Param(dtype=int, desc="int", default=0)
            f = h.Param(dtype=float, desc="float", default=0.0)
            s = h.Param(dtype=str, desc="str", default="")
            oi = h.Param(dtype=h.Optional[int] if hasattr(h, "Optional") else __import__("typing").Optional[int], desc="optional int", default=None)
            sc = h.Param(dtype=h.Scalar, desc="scalar", default=1)
            osc = h.Param(dtype=__import__("typing").Optional[h.Scalar], desc="optional scalar", default=None)
            pf = h.Param(dtype=h.Prefixed, desc="prefixed", default=h.Prefixed(number=Decimal(1)))
            lit = h.Param(dtype=h.Literal, desc="literal", default=h.Literal("x"))
            col = h.Param(dtype=Color, desc="enum", default=Color.RED)

        _lib["TypedParams"] = TypedParams
        _lib["Etyped"] = h.ExternalModule(name="Etyped", domain="hvlib", port_list=[h.Port(name="a"), h.Port(name="b")], paramtype=TypedParams)
        prims = {}
        import hdl21.primitives as hp

        for name, entry in hp._primitives.items():
            prims[name] = entry.prim
        _lib["prims"] = prims
    return _lib


_ctr = [0]


def export_instance(call):
    """Instantiate `call` in a fresh module with every port tied to its own signal; return the exported proto Instance."""
    import hdl21 as h

    _ctr[0] += 1
    m = h.Module(name=f"P13_{_ctr[0]}")
    conns = {}
    for pname, port in call.ports.items():
        conns[pname] = m.add(h.Signal(width=port.width), name=f"n_{pname}")
    m.add(h.Instance(of=call)(**conns), name="x")
    pkg = h.to_proto(m)
    return pkg.modules[-1].instances[0]


def judge_instance(rec, label, call, given: dict, expect: dict, renames=None, target=None, case=None):
    """expect: {exported name: checker(decoded) -> reason}.  Names absent from `expect` must be absent from the instance."""
    rec.count("boundary.instances")
    try:
        pinst = export_instance(call)
    except Exception as e:
        rec.violation(f"param-export-raises:{type(e).__name__}", f"{label}: export raised {type(e).__name__}: {str(e)[:140]}", case=case)
        return
    got = {}
    for p in pinst.parameters:
        if p.name in got:
            rec.violation("param-duplicated", f"{label}: parameter {p.name} exported twice", case=case)
        got[p.name] = pkgread.decode_param(p.value)
    if target is not None:
        tg = (pinst.module.external.domain, pinst.module.external.name)
        if tg != target:
            rec.violation("primitive-name-wrong", f"{label}: exported target {tg}, expected {target}", case=case)
    for name, chk in expect.items():
        if name not in got:
            rec.violation("param-missing", f"{label}: parameter '{name}' (given {given.get(name)!r}) is missing from the exported instance; "
                                           f"exported names {sorted(got)}", case=case)
            continue
        why = chk(got[name])
        if why:
            rec.violation("param-value-wrong", f"{label}: parameter '{name}' given {given.get(name)!r} exported as {got[name]!r}: {why}",
                          case=case, field=name)
    for name in got:
        if name not in expect:
            rec.violation("param-unexpected", f"{label}: exported parameter '{name}'={got[name]!r} was not given (None-valued or unknown)",
                          case=case, field=name)


def dict_case(rec, rng, k):
    import hdl21 as h

    L = lib()
    params = {}
    for j in range(rng.randint(1, 5)):
        name = rng.choice(["w", "l", "m", "model", "p_%d" % j, "Vth", "nf"])
        x = rng.random()
        if x < 0.15:
            v = rand_int(rng)
        elif x < 0.3:
            v = rand_float(rng)
            v = v if math.isfinite(v) else 0.5
        elif x < 0.45:
            v = rand_text(rng)
        elif x < 0.55:
            v = h.Literal(rand_text(rng) or "q")
        elif x < 0.75:
            v = rand_prefixed(rng)
        elif x < 0.85:
            v = rand_decimal(rng)
        elif x < 0.92:
            v = rng.choice(list(Color))
        else:
            v = None
        params[name] = v
    case = {"kind": "dict", "params": {n: parammon.casev(v) for n, v in params.items()}}
    rec.case(key=jhash(case), nontrivial=any(v is not None for v in params.values()), sample=case if k % 500 == 3 else None)
    expect = {n: (lambda dec, v=v: parammon.value_matches(v, dec)) for n, v in params.items() if v is not None}
    judge_instance(rec, f"Edict({ {n: v for n, v in params.items()} })", L["Edict"](params), params, expect, case=case)


def typed_case(rec, rng, k):
    import hdl21 as h

    L = lib()
    f = rand_float(rng)
    given = {"i": rand_int(rng), "f": f if math.isfinite(f) else 2.5, "s": rand_text(rng), "oi": rng.choice([None, rand_int(rng)]),
             "sc": rand_scalar_input(rng), "osc": rng.choice([None, rand_scalar_input(rng)]), "pf": rand_prefixed(rng),
             "lit": h.Literal(rand_text(rng) or "z"), "col": rng.choice(list(Color))}
    case = {"kind": "typed", "params": {n: parammon.casev(v) for n, v in given.items()}}
    rec.case(key=jhash(case), nontrivial=True, sample=case if k % 500 == 3 else None)
    try:
        call = L["Etyped"](**given)
    except Exception as e:
        rec.count("typed.rejected-at-call")
        rec.hist("call_rejections", type(e).__name__ + ":" + str(e).split("\n")[0][:60])
        return
    expect = {}
    for n in ("i", "f", "s", "pf", "lit", "col"):
        expect[n] = (lambda dec, v=given[n]: parammon.value_matches(v, dec))
    if given["oi"] is not None:
        expect["oi"] = (lambda dec, v=given["oi"]: parammon.value_matches(v, dec))
    for n in ("sc", "osc"):
        if given[n] is None:
            continue
        e = expected_scalar(given[n])
        if e is None:
            continue
        expect[n] = (lambda dec, e=e: check_scalar(e, dec))
    judge_instance(rec, f"Etyped({given})", call, given, expect, case=case)


def prim_case(rec, rng, k, pname):
    import hdl21 as h
    import typing

    L = lib()
    prim = L["prims"][pname]
    given = {}
    for fname, par in prim.Params.__params__.items():
        dt = par.dtype
        is_scalar = dt is h.Scalar or dt == typing.Optional[h.Scalar]
        if is_scalar:
            if rng.random() < 0.75:
                given[fname] = rand_scalar_input(rng)
            elif dt == typing.Optional[h.Scalar] and rng.random() < 0.5:
                given[fname] = None
        elif dt == typing.Optional[str] and rng.random() < 0.5:
            given[fname] = rng.choice(["nch", "my model", "p_lvt"])
    case = {"kind": "prim", "prim": pname, "params": {n: parammon.casev(v) for n, v in given.items()}}
    rec.case(key=jhash(case), nontrivial=any(v is not None for v in given.values()), sample=case if k % 500 == 3 else None)
    rec.hist("primitives", pname)
    try:
        call = prim(**given)
    except Exception as e:
        rec.count("prim.rejected-at-call")
        rec.hist("call_rejections", pname + ":" + type(e).__name__)
        return
    # expectation: every field of the validated params that is not None is exported; values given by us are checked
    # against what we gave; defaults are checked against the default object.
    import dataclasses

    ideal = prim.primtype.name == "IDEAL"
    expect = {}
    for fld in dataclasses.fields(call.params):
        val = getattr(call.params, fld.name)
        if fld.name in given:
            if given[fld.name] is None:
                continue  # explicit None: omitted
            e = expected_scalar(given[fld.name]) if not isinstance(given[fld.name], str) or fld.name != "model" else ("lit", given[fld.name])
            if fld.name == "model":
                e = ("lit", given[fld.name])
            if e is None:
                continue
            chk = (lambda dec, e=e: check_scalar(e, dec))
        else:
            if val is None:
                continue
            chk = (lambda dec, v=val: parammon.value_matches(v, dec))
        out_name = PULSE_RENAME.get(fld.name, fld.name) if pname == "PulseVoltageSource" else fld.name
        expect[out_name] = chk
    given_named = {(PULSE_RENAME.get(n, n) if pname == "PulseVoltageSource" else n): v for n, v in given.items()}
    target = ("vlsir.primitives", PRIM_MAP[pname]) if ideal else ("hdl21.primitives", pname)
    if ideal and pname not in PRIM_MAP:
        target = None
    judge_instance(rec, f"{pname}({given})", call, given_named, expect, target=target, case=case)


def direct_converters(rec, rng, n):
    """to_scalar / to_prefixed through their public names (the pydantic validator holds its own reference)."""
    import hdl21 as h
    from hdl21.scalar import to_scalar  # noqa: resolved at call time below
    import importlib

    sc = importlib.import_module("hdl21.scalar")
    pf = importlib.import_module("hdl21.prefix")
    for _ in range(n):
        v = rand_scalar_input(rng)
        try:
            sc.to_scalar(v)
        except Exception as e:
            if expected_scalar(v) is not None:
                rec.violation(f"to-scalar-raises:{type(e).__name__}", f"to_scalar({v!r}) raised {type(e).__name__}: {str(e)[:100]}",
                              case={"kind": "scalar", "v": parammon.casev(v)})
        if not isinstance(v, h.Literal):
            try:
                pf.to_prefixed(v)
            except Exception:
                pass


_uid = itertools.count(1)


def history_probes(rec):
    """Parameter values under histories and contradicting forms: a dict that is edited between two calls, typed constructors given
    another type, huge exponents (the export must return)."""
    import hdl21 as h
    from hdl21.primitives import MosType, BipolarType
    from .. import pkgread

    L = lib()

    def exported(call):
        m = h.Module(name=f"Pr{next(_uid)}")
        conns = {p: m.add(h.Signal(width=port.width), name=f"n_{p}") for p, port in call.ports.items()}
        m.add(h.Instance(of=call)(**conns), name="x")
        pkg = h.to_proto(m)
        return {p.name: pkgread.decode_param(p.value) for p in pkg.modules[-1].instances[0].parameters}

    # (1) one dict object, edited between two calls
    rec.count("probe.dict-history")
    d = {"w": 1, "k": "a"}
    c1 = L["Edict"](d)
    d["w"] = 2
    d["k"] = "b"
    c2 = L["Edict"](d)
    e1, e2 = exported(c1), exported(c2)
    if e1.get("w") != 1 or e2.get("w") != 2:
        rec.violation("param-value-wrong", f"one dict handed to two calls and edited in between: the first instance exports w={e1.get('w')!r} (given 1), "
                                           f"the second w={e2.get('w')!r} (given 2)", case={"kind": "probe", "what": "dict-history"})
    # (1b) ... and the same through the public constructor of the call object
    rec.count("probe.dict-history")
    from hdl21.external_module import ExternalModuleCall

    import collections

    for mkd in (dict, collections.OrderedDict, lambda **kw: collections.defaultdict(int, **kw), type("MyDict", (dict,), {})):
        for through in ("constructor", "call"):
            rec.count("probe.dict-history")
            d = mkd(w=1, k="a")
            c1 = ExternalModuleCall(module=L["Edict"], params=d) if through == "constructor" else L["Edict"](d)
            d["w"] = 2
            d["extra"] = 5
            c2 = ExternalModuleCall(module=L["Edict"], params=d) if through == "constructor" else L["Edict"](d)
            e1, e2 = exported(c1), exported(c2)
            if e1.get("w") != 1 or e2.get("w") != 2 or "extra" in e1:
                rec.violation("param-value-wrong", f"one {type(d).__name__} handed to two calls ({through}) and edited in between: the first instance exports "
                                                   f"w={e1.get('w')!r} (given 1){' and a parameter `extra` it was never given' if 'extra' in e1 else ''}, the second "
                                                   f"w={e2.get('w')!r} (given 2)", case={"kind": "probe", "what": "dict-history"})
    # (2a) typed constructors given a parameters OBJECT of the other type
    from hdl21.primitives import MosParams, BipolarParams

    for ctor, pobj, bad in ((h.Nmos, MosParams(tp=MosType.PMOS), MosType.PMOS), (h.Npn, BipolarParams(tp=BipolarType.PNP), BipolarType.PNP)):
        rec.count("probe.typed-constructor")
        try:
            call = ctor(pobj)
        except Exception:
            continue  # refused: fine
        got = exported(call).get("tp")
        if not (isinstance(got, tuple) and got[-1] == bad.value) and got != bad.value:
            rec.violation("param-value-wrong", f"{ctor.__name__}({type(pobj).__name__}(tp={bad})) was accepted and exports tp={got!r}: the given value is {bad.value!r}",
                          case={"kind": "probe", "what": "typed-constructor"})
    # (2) typed constructors given a contradicting type
    for ctor, bad, want in ((h.Nmos, MosType.PMOS, "NMOS"), (h.Pmos, MosType.NMOS, "PMOS"), (h.Npn, BipolarType.PNP, "NPN"), (h.Pnp, BipolarType.NPN, "PNP")):
        rec.count("probe.typed-constructor")
        try:
            call = ctor(tp=bad)
        except Exception:
            continue  # refused: fine
        got = exported(call).get("tp")
        if not (isinstance(got, tuple) and got[-1] == bad.value) and got != bad.value:
            rec.violation("param-value-wrong", f"{ctor.__name__}(tp={bad}) was accepted and exports tp={got!r}: the given value is {bad.value!r}",
                          case={"kind": "probe", "what": "typed-constructor"})
    # (3) huge exponents: export returns (a step budget, not a clock: the digits of the exported string stay short)
    rec.count("probe.huge-exponent")
    from decimal import Decimal

    for text in ("1E+200000", "-3E+150000", "1E-300000"):
        got = exported(h.R(r=h.Prefixed(number=Decimal(text)))).get("r")
        if not (isinstance(got, tuple) and got[0] == "pref"):
            rec.violation("param-value-wrong", f"R(r={text}) exported as {str(got)[:60]!r}", case={"kind": "probe", "what": "huge-exponent"})


def sibling_cases(rec, rng, n):
    """Several instances in ONE module (one export) whose calls are equal in value but written differently - 1000*m and 1*UNIT,
    1.50 and 1.5, dict values 3 / 3.0 / True: every instance exports its own spelling."""
    import hdl21 as h
    from hdl21.prefix import Prefix
    from .. import pkgread

    L = lib()
    P = lambda num, pre: h.Prefixed(number=Decimal(num), prefix=Prefix[pre])
    GROUPS = [
        [P("1000", "MILLI"), P("1", "UNIT"), P("1.0", "UNIT"), P("0.001", "KILO"), P("1.000", "UNIT")],
        [P("1.50", "MICRO"), P("1.5", "MICRO"), P("1500", "NANO"), P("15E-1", "MICRO")],
        [P("0", "UNIT"), P("0.0", "UNIT"), P("0", "KILO"), P("-0", "UNIT")],
        [P("2", "KILO"), P("2000", "UNIT"), P("2E3", "UNIT"), P("0.002", "MEGA")],
    ]
    DICT_GROUPS = [[3, 3.0], [1, 1.0, P("1", "UNIT"), P("1000", "MILLI")], [0, 0.0, -0.0], ["1", "1.0", 1], [2.5, P("2.5", "UNIT"), P("2500", "MILLI")]]
    for k in range(n):
        m = h.Module(name=f"P13sib_{next(_uid)}")
        want = {}
        order = []
        grp = list(rng.choice(GROUPS))
        rng.shuffle(grp)
        for j, v in enumerate(grp):
            which = rng.choice(["R", "C", "Edict", "Etyped-pf"])
            if which == "R":
                call, field = h.R(r=v), "r"
            elif which == "C":
                call, field = h.C(c=v), "c"
            elif which == "Edict":
                call, field = L["Edict"]({"w": v}), "w"
            else:
                try:
                    call, field = L["Etyped"](i=1, f=1.0, s="s", sc=1, pf=v, lit=h.Literal("z"), col=list(Color)[0]), "pf"
                except Exception:
                    call, field = h.R(r=v), "r"
            conns = {pn: m.add(h.Signal(width=port.width), name=f"n{j}_{pn}") for pn, port in call.ports.items()}
            m.add(h.Instance(of=call)(**conns), name=f"x{j}")
            want[f"x{j}"] = (field, v)
        dg = list(rng.choice(DICT_GROUPS))
        rng.shuffle(dg)
        for j, v in enumerate(dg):
            call = L["Edict"]({"w": v, "k": "same"})
            conns = {pn: m.add(h.Signal(width=port.width), name=f"d{j}_{pn}") for pn, port in call.ports.items()}
            m.add(h.Instance(of=call)(**conns), name=f"y{j}")
            want[f"y{j}"] = ("w", v)
        case = {"kind": "siblings", "values": {i: [f, parammon.casev(v)] for i, (f, v) in want.items()}}
        rec.case(key=jhash(case), nontrivial=True, sample=case if k % 100 == 3 else None)
        rec.count("boundary.sibling-modules")
        try:
            pkg = h.to_proto(m)
        except Exception as e:
            rec.violation(f"param-export-raises:{type(e).__name__}", f"a module of equal-valued sibling instances: export raised {str(e)[:140]}", case=case)
            continue
        for pinst in pkg.modules[-1].instances:
            field, v = want[pinst.name]
            got = {p.name: pkgread.decode_param(p.value) for p in pinst.parameters}
            if field not in got:
                rec.violation("param-missing", f"sibling {pinst.name}: parameter '{field}' (given {v!r}) missing", case=case)
                continue
            why = parammon.value_matches(v, got[field])
            if why:
                rec.violation("param-value-wrong", f"instance {pinst.name} of a module whose other instances hold equal values written differently: "
                                                   f"'{field}' given {v!r} exported as {got[field]!r}: {why}", case=case, field=field)


def run(ctx, rec):
    parammon.attach(rec)
    rng = ctx.rng("c13")
    if ctx.shard == 0:
        history_probes(rec)
    L = lib()
    n = 900 if ctx.quick else 16000
    for k in range(n):
        dict_case(rec, rng, k)
    for k in range(n):
        typed_case(rec, rng, k)
    names = sorted(L["prims"])
    for k in range(n * 2):
        prim_case(rec, rng, k, names[k % len(names)])
    direct_converters(rec, rng, n)
    sibling_cases(rec, rng, max(60, n // 8))
    if not ctx.quick and ctx.shard == 0:
        from .. import suite

        suite.run_suite(rec, "param", ["param-", "prefixed-", "to-scalar", "to-prefixed"])
    rec.extra["primitives_covered"] = len(names)
    rec.exhaustive = False


def shards(ctx):
    return 16


def replay(ctx, rec, case):
    import hdl21 as h

    parammon.attach(rec)
    L = lib()
    rec.case(key=jhash(case), nontrivial=True, sample=case)
    k = case.get("kind")
    if k in ("value",):
        v = parammon.uncasev(case["v"])
        judge_instance(rec, f"Edict(p={v!r})", L["Edict"]({"p": v}), {"p": v}, {"p": lambda dec: parammon.value_matches(v, dec)}, case=case)
    elif k in ("scalar", "prefixed"):
        import importlib

        importlib.import_module("hdl21.scalar").to_scalar(parammon.uncasev(case["v"]))
    elif k == "dict":
        params = {n: parammon.uncasev(c) if c["t"] != "Enum" else Color(c["v"]) for n, c in case["params"].items()}
        expect = {n: (lambda dec, v=v: parammon.value_matches(v, dec)) for n, v in params.items() if v is not None}
        judge_instance(rec, f"Edict({params})", L["Edict"](params), params, expect, case=case)
    else:
        rec.inconclusive.append("replay of typed/primitive cases: re-run the check with the same seed")
