"""A second Python file defining generators whose function names also exist in c09_prog (same name, different file)."""
import hdl21 as h


@h.paramclass
class AuxP:
    a = h.Param(dtype=int, desc="a", default=0)


@h.generator
def G1(p: AuxP) -> h.Module:
    m = h.Module()
    m.add(h.Port(width=2), name="a")
    return m


@h.generator
def G9(p: AuxP) -> h.Module:
    m = h.Module()
    m.add(h.Port(width=3), name="a")
    return m
