"""
C06 -- every exported package is closed and self-consistent.
M-pkg rides on every successful `to_proto` of the corpus workloads (hv.corpus) -- see hv.monitors.pkgmon.
"""

from __future__ import annotations

from .. import corpus, oracle
from ..monitors import pkgmon

LEVEL = "exploration"
RULE = ("packages = every package any successful to_proto call returns while driving: the C01 design generators (structural "
        "kernels, expression kernels, seeded random hierarchies), the repository's examples, the built-in generators over their "
        "parameter ranges, PDK-compiled designs (sample, Sky130, GF180, ASAP7) and the primitive / external-module parameter "
        "space, designs defined outside any Python module (exec), successive packages declaring different external modules under "
        "one name, and adversarially named designs (designer names equal to names the elaborator invents); distinct = sha256 of the deterministic serialization; non-trivial = >= 2 modules or a slice/concat target")
ASSUMPTIONS = [
    "uniqueness of names is demanded per kind (signals, ports, instances), not across kinds",
    "netlister acceptance is not demanded for packages holding un-compiled hdl21.primitives devices (vlsirtools refuses those on purpose)",
    "known primitives = the vlsir.primitives / hdl21.primitives names listed in hv.pkgread.PRIM_PORTS",
]
REQUIRED_COUNTERS = ["M-pkg.wellformed", "M-pkg.from_proto-accepts", "M-pkg.spice-accepts", "M-pkg.spectre-accepts"]
MIN_EVALS = 300
MIN_NONTRIVIAL = 150
WF, RT = True, False
PROP = "C06"


def drive(ctx, rec, items):
    for label, thunk in items:
        pkgmon.set_label(label)
        rec.count("workload.items")
        try:
            thunk()
        except Exception as e:  # the workload item was rejected by the library: no package, nothing to judge
            rec.count("workload.rejected")
            rec.hist("workload_rejections", f"{label.split(' ')[0].split('(')[0]}: {oracle.exc_sig(e)[:90]}")
    pkgmon.set_label(None)


def run(ctx, rec):
    pkgmon.attach(rec, wellformed=WF, roundtrip=RT)
    rng = ctx.rng(PROP)
    q = ctx.quick
    if ctx.shard == 0:
        drive(ctx, rec, corpus.examples(ctx))
        drive(ctx, rec, corpus.builtin_generators(ctx, rng, 4 if q else 8))
        drive(ctx, rec, corpus.pdk_designs(ctx, rng, 2 if q else 6))
    drive(ctx, rec, corpus.param_space(ctx, rng, 300 if q else 4000))
    if ctx.shard == 0:
        drive(ctx, rec, corpus.exec_defined(ctx, rng, 3 if q else 9))
        drive(ctx, rec, corpus.conflicting_externals(ctx, rng, 2 if q else 6))
        drive(ctx, rec, corpus.equal_valued_params(ctx, rng, 4 if q else 20))
        drive(ctx, rec, corpus.twin_externals(ctx, rng, 1 if q else 3))
        drive(ctx, rec, corpus.edited_externals(ctx, rng, 2 if q else 6))
        drive(ctx, rec, corpus.edited_fields(ctx, rng, 1))
        drive(ctx, rec, corpus.reimported_externals(ctx, rng, 1 if q else 3))
    if WF:
        hostile = list(corpus.hostile_designs(ctx, rng, 12 if q else 120))
        if ctx.nshards > 1:
            hostile = hostile[ctx.shard:: ctx.nshards]
        drive(ctx, rec, hostile)
    drive(ctx, rec, corpus.collision_designs(ctx, rng, 260 if q else 2000))
    gens = list(corpus.generated_designs(ctx, rng, 600 if q else 6400, depth=2 if q else 3))
    if ctx.nshards > 1:
        gens = gens[ctx.shard:: ctx.nshards]
    drive(ctx, rec, gens)
    if not q and ctx.shard == 0:
        # the repository's own ~150 hand-written designs as one more workload for the riding monitor
        from .. import suite

        suite.run_suite(rec, "pkg" if WF else "rt", ["pkg-"] if WF else ["rt-"])
    rec.exhaustive = False


def shards(ctx):
    return 16


def replay(ctx, rec, case):
    import base64
    import vlsir.circuit_pb2 as vckt

    pkgmon.attach(rec, wellformed=WF, roundtrip=RT)
    if case.get("package_b64"):
        pkg = vckt.Package()
        pkg.ParseFromString(base64.b64decode(case["package_b64"]))
        pkgmon._state["seen"].clear()
        pkgmon.on_package(pkg, rec, case.get("label", "replay"))
    else:
        rec.inconclusive.append("the witness package was too large to store; re-run the check with the same seed")
