"""
C12 -- output is reproducible across processes.

Offline checker over per-process logs {design -> sha256 of the deterministic package serialization and of the spice /
spectre / verilog netlists}.  The variable is the CONFIGURATION: PYTHONHASHSEED (0, 1, 2, 3, ..., random), a seeded
amount of unrelated allocation and unrelated elaboration before the program, GC on/off.  On disagreement the two
processes are re-run with full output and the first differing field is reported.
"""

import json
import subprocess

from .. import env
from ..runner import jhash

LEVEL = "exploration"
RULE = ("programs = structural kernels with bundles / port references / arrays / pairs / no-connects, seeded random hierarchies, "
        "built-in generators, designs compiled to the four PDKs; each program is run in P fresh processes with different PYTHONHASHSEED values (incl. 'random'), "
        "different amounts of unrelated allocation, elaboration and PDK compilation (of equal-valued, differently written sizes) beforehand and GC on/off; distinct = design label; "
        "non-trivial = the design exported in every process")
ASSUMPTIONS = [
    "one machine, one interpreter build; 'different allocation histories' is approximated by seeded junk allocation / elaboration",
    "a netlister refusing a package (e.g. verilog on undirected ports) must refuse it in every process",
]
REQUIRED_COUNTERS = ["processes.completed", "designs.compared"]
MIN_EVALS = 60
MIN_NONTRIVIAL = 50


def child(seed, n, cfg, hashseed, timeout=600):
    p = subprocess.run([env.PY, "-m", "hv.checks.c12_prog", str(seed), str(n), json.dumps(cfg)], capture_output=True, text=True,
                       env=env.child_env({"PYTHONHASHSEED": hashseed}), cwd=str(env.VERIF), timeout=timeout)
    line = [l for l in p.stdout.splitlines() if l.startswith("C12PROG ")]
    if not line:
        return None, p.stderr[-400:]
    return json.loads(line[0][8:]), None


def configs(ctx, nproc):
    rng = ctx.rng("c12cfg")
    out = []
    for k in range(nproc):
        hs = str(k) if k % 5 != 4 else "random"
        out.append((hs, {"junk_alloc": 0 if k == 0 else rng.randint(0, 400), "junk_elab": 0 if k == 0 else rng.randint(0, 12), "junk_pdk": 0 if k == 0 else rng.randint(0, 3), "junk_gen_spell": 0 if k == 0 else k % 2, "junk_gen_compile": 0 if k == 0 else (k // 2) % 2, "junk_ext": 0 if k == 0 else (k + 1) % 2, "gc": k % 3 != 2}))
    return out


def explain(ctx, label, seed, n, ca, cb):
    """Re-run two disagreeing processes with full output for one design and name the first differing field."""
    code = ("import sys, json, base64; sys.path.insert(0, %r); from hv import env; env.bootstrap();\n"
            "from hv.checks import c12_prog as P; from hv import build; import hdl21 as h;\n"
            "a = json.loads(sys.stdin.read()); P.perturb(a['cfg']);\n"
            "ds = P.designs(a['seed'], a['n']); idx = [l for l, _ in ds].index(a['label']); d = P.directed(ds[idx][1]);\n"
            "pkg = h.to_proto(build.build(d, uid='_p%%d' %% idx).top); print('PKG ' + base64.b64encode(pkg.SerializeToString(deterministic=True)).decode())"
            % str(env.VERIF))
    import base64
    import vlsir.circuit_pb2 as vckt
    from ..monitors.pkgmon import first_diff

    pk = []
    for hs, cfg in (ca, cb):
        try:
            p = subprocess.run([env.PY, "-c", code], input=json.dumps({"cfg": cfg, "seed": seed, "n": n, "label": label}), capture_output=True,
                               text=True, env=env.child_env({"PYTHONHASHSEED": hs if hs != "random" else "12345"}), cwd=str(env.VERIF), timeout=300)
            line = [l for l in p.stdout.splitlines() if l.startswith("PKG ")]
            m = vckt.Package()
            m.ParseFromString(base64.b64decode(line[0][4:]))
            pk.append(m)
        except Exception:
            return "(could not re-run for an explanation)"
    if pk[0] == pk[1]:
        return "(packages equal on re-run: the difference is in a netlist or depends on a random hash seed)"
    return first_diff(pk[0], pk[1])


_attr_cache = {}


def attribute(ctx, label, seed, n, ca, cb):
    """Which kind of unrelated earlier work explains the difference?  Re-runs the two processes with one knob zeroed in both; returns the
    first knob without which the label's outputs agree (None if no single knob explains it)."""
    (ha, cfa), (hb, cfb) = ca, cb
    for knob in ("junk_gen_spell", "junk_gen_compile", "junk_ext", "junk_pdk", "junk_elab", "junk_alloc"):
        if cfa.get(knob, 0) == cfb.get(knob, 0):
            continue
        outs = []
        for hs, cf in ((ha, cfa), (hb, cfb)):
            c2 = dict(cf)
            c2[knob] = 0
            key = (hs, json.dumps(c2, sort_keys=True), seed, n)
            if key not in _attr_cache:
                try:
                    _attr_cache[key] = child(seed, n, c2, hs if hs != "random" else "12345")[0]
                except Exception:
                    _attr_cache[key] = None
            outs.append(_attr_cache[key])
        if outs[0] is not None and outs[1] is not None and outs[0].get(label) == outs[1].get(label):
            return knob
    return None


def run(ctx, rec):
    n = 40 if ctx.quick else 500
    nproc = 6 if ctx.quick else 24
    seed = ctx.seed * 1000 + ctx.shard
    cfgs = configs(ctx, nproc)
    logs = []
    procs = []
    # run the processes in parallel
    import concurrent.futures as cf

    with cf.ThreadPoolExecutor(max_workers=min(nproc, 8)) as ex:
        futs = [ex.submit(child, seed, n, cfg, hs) for hs, cfg in cfgs]
        for (hs, cfg), f in zip(cfgs, futs):
            try:
                res, err = f.result()
            except subprocess.TimeoutExpired:
                res, err = None, "watchdog"
            if res is None:
                rec.inconclusive.append(f"process (PYTHONHASHSEED={hs}, {cfg}) produced no log: {err}")
                continue
            rec.count("processes.completed")
            logs.append(((hs, cfg), res))
    if len(logs) < 2:
        rec.inconclusive.append("fewer than two processes completed")
        return
    base_cfg, base = logs[0]
    # the unrelated earlier work that was asked for must have been carried out (a junk design that fails to build perturbs nothing)
    for (hs, cfg), l in logs:
        done = l.pop("__perturbed__", {})
        for knob in ("junk_ext", "junk_pdk", "junk_gen_spell", "junk_gen_compile"):
            if cfg.get(knob, 0) > 0:
                rec.count(f"perturbation.{knob}", done.get(knob, 0))
                if done.get(knob, 0) == 0:
                    rec.inconclusive.append(f"process {cfg}: none of the requested earlier work '{knob}' could be carried out")
    for label in sorted(base):
        ok_everywhere = all("raised" not in str(l.get(label, {}).get("pkg", "raised")) for _, l in logs)
        rec.case(key=label, nontrivial=ok_everywhere, sample={"design": label, "digests_process0": base[label]} if rec.evaluations % 25 == 3 else None)
        rec.count("designs.compared")
        for cfg, l in logs[1:]:
            if l.get(label) != base[label]:
                keys = [k for k in set(base[label]) | set(l.get(label, {})) if base[label].get(k) != l.get(label, {}).get(k)]
                why = explain(ctx, label, seed, n, base_cfg, cfg) if "pkg" in keys else "(netlist text differs)"
                # attribute the difference to one kind of earlier work, by re-running both processes without it
                knob = attribute(ctx, label, seed, n, base_cfg, cfg)
                if knob:
                    rec.violation(f"earlier-work-changes-output:{knob}",
                                  f"design '{label}': outputs {sorted(keys)} differ between process {base_cfg} and process {cfg}, and agree once the "
                                  f"unrelated earlier work '{knob}' is left out of both",
                                  case={"kind": "process-pair", "label": label, "seed": seed, "n": n, "a": base_cfg, "b": cfg}, label=label)
                    break
                rec.violation(f"output-differs-across-processes:{'+'.join(sorted(keys))}",
                              f"design '{label}': outputs {sorted(keys)} differ between process {base_cfg} and process {cfg}; first difference: {why}",
                              case={"kind": "process-pair", "label": label, "seed": seed, "n": n, "a": base_cfg, "b": cfg}, outputs="+".join(sorted(keys)))
                break
    rec.extra["configurations"] = [{"PYTHONHASHSEED": hs, **cfg} for (hs, cfg), _ in logs]
    rec.exhaustive = False


def shards(ctx):
    return 4


def replay(ctx, rec, case):
    run(ctx, rec)
