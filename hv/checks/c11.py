"""
C11 -- exported packages survive a round trip through from_proto.
M-rt rides on every successful `to_proto` of the corpus workloads -- see hv.monitors.pkgmon.
"""

from __future__ import annotations

from . import c06
from ..monitors import pkgmon

LEVEL = "exploration"
RULE = c06.RULE.replace("non-trivial = >= 2 modules or a slice/concat target",
                        "non-trivial = >= 2 modules or a slice/concat target; oracle: to_proto(from_proto(P)) == P")
ASSUMPTIONS = [
    "the imported top-level modules are re-exported in P's module order with P's domain, as the property states",
    "equality is protobuf message equality (field order of repeated fields included)",
]
REQUIRED_COUNTERS = ["M-rt.attempted", "M-rt.compared"]
MIN_EVALS = 300
MIN_NONTRIVIAL = 150


def run(ctx, rec):
    c06.WF, c06.RT, c06.PROP = False, True, "C11"
    c06.run(ctx, rec)


shards = c06.shards


def replay(ctx, rec, case):
    c06.WF, c06.RT = False, True
    c06.replay(ctx, rec, case)
